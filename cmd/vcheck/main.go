// vcheck: one binary, one monitor per property. See DESIGN.md.
package main

import (
	"flag"
	"fmt"
	"os"
	"strconv"

	"verif/internal/c20gen"
	"verif/internal/mon"
	_ "verif/internal/props"
)

func main() {
	if len(os.Args) < 2 {
		fmt.Println("usage: vcheck run|worker|replay ...")
		os.Exit(2)
	}
	switch os.Args[1] {
	case "run":
		fs := flag.NewFlagSet("run", flag.ExitOnError)
		prop := fs.String("prop", "", "property id")
		tier := fs.String("tier", "quick", "quick|thorough")
		fs.Parse(os.Args[2:])
		p := mon.Registry[*prop]
		if p == nil {
			fmt.Println("INCONCLUSIVE property=" + *prop + " reason=unknown property")
			os.Exit(2)
		}
		seed := int64(1)
		if s := os.Getenv("VERIF_SEED"); s != "" {
			if x, err := strconv.ParseInt(s, 10, 64); err == nil {
				seed = x
			}
		}
		os.Exit(mon.Supervise(p, *tier, seed))
	case "worker":
		fs := flag.NewFlagSet("worker", flag.ExitOnError)
		prop := fs.String("prop", "", "")
		tier := fs.String("tier", "quick", "")
		seed := fs.Int64("seed", 1, "")
		from := fs.Int("from", 0, "")
		to := fs.Int("to", 0, "")
		journal := fs.String("journal", "", "")
		out := fs.String("out", "", "")
		verbose := fs.Bool("v", false, "")
		fs.Parse(os.Args[2:])
		p := mon.Registry[*prop]
		if p == nil {
			os.Exit(3)
		}
		os.Exit(mon.RunRange(p, *tier, *seed, *from, *to, *journal, *out, *verbose))
	case "c20gen":
		if len(os.Args) < 4 {
			os.Exit(2)
		}
		if err := c20gen.Generate(os.Args[2], os.Args[3]); err != nil {
			fmt.Println("c20gen:", err)
			os.Exit(2)
		}
		os.Exit(0)
	case "replay":
		if len(os.Args) < 3 {
			os.Exit(2)
		}
		os.Exit(mon.Replay(os.Args[2]))
	default:
		fmt.Println("unknown command", os.Args[1])
		os.Exit(2)
	}
}
