//go:build verif

// Package fuzzc10 drives the C10 totality oracle with Go's native
// coverage-guided fuzzer (thorough tier only). Its mutations are not
// seedable; it supplements, never replaces, the seeded workload.
package fuzzc10

import (
	"testing"

	"verif/internal/props"
)

func FuzzTotality(f *testing.F) {
	for _, s := range props.C10SeedCorpus() {
		f.Add([]byte(s))
	}
	f.Fuzz(func(t *testing.T, b []byte) {
		if len(b) > 4096 {
			return
		}
		if msg := props.C10FuzzOracle(string(b)); msg != "" {
			t.Fatalf("C10 violation: %s\ninput: %q", msg, b)
		}
	})
}
