// Package refsem is the reference semantics of bexpr expressions: an
// independent interpreter, written from the README, the doc comments and the
// property statements, that computes the SET of outcomes the documented
// semantics allow for (expression, datum, options). It runs on univ.Node
// trees and never calls go-bexpr, pointerstructure or reflect.
package refsem

import (
	"errors"
	"math"
	"regexp"
	"strconv"
	"strings"

	"verif/internal/univ"
	"verif/internal/xgen"
)

// Outcome bits.
const (
	T uint8 = 1 << iota
	F
	E
)

// Allowed is the set of admissible outcomes, or Unspec != "" when the
// documented semantics do not determine the case.
type Allowed struct {
	Set    uint8
	Unspec string
}

func (a Allowed) Has(class string) bool {
	switch class {
	case "T":
		return a.Set&T != 0
	case "F":
		return a.Set&F != 0
	case "E":
		return a.Set&E != 0
	}
	return false
}

func (a Allowed) Single() bool { return a.Unspec == "" && (a.Set == T || a.Set == F || a.Set == E) }

func (a Allowed) String() string {
	if a.Unspec != "" {
		return "unspecified(" + a.Unspec + ")"
	}
	var l []string
	if a.Set&T != 0 {
		l = append(l, "T")
	}
	if a.Set&F != 0 {
		l = append(l, "F")
	}
	if a.Set&E != 0 {
		l = append(l, "E")
	}
	return "{" + strings.Join(l, ",") + "}"
}

func one(b uint8) Allowed       { return Allowed{Set: b} }
func unspec(why string) Allowed { return Allowed{Unspec: why} }
func boolSet(b bool) Allowed {
	if b {
		return one(T)
	}
	return one(F)
}

// Hook is a pure value transformation applied after every lookup step.
type Hook interface {
	Apply(n *univ.Node) *univ.Node
}

type Options struct {
	TagName string // "" means the default "bexpr"
	Unknown *univ.Node
	Hook    Hook
	// Trace, when non-nil, receives events for evidence (operator reached
	// with which kind).
	Trace func(ev string)
}

func (o *Options) tag() string {
	if o.TagName == "" {
		return "bexpr"
	}
	return o.TagName
}

type binding struct {
	name  string
	path  []string   // alias (value binding)
	value *univ.Node // key / index binding
	depth int        // number of bindings in scope where the quantifier stands
}

type interp struct {
	datum *univ.Node
	opt   *Options
}

// Eval computes the allowed outcome set.
func Eval(e xgen.Expr, datum *univ.Node, opt *Options) Allowed {
	if opt == nil {
		opt = &Options{}
	}
	in := &interp{datum: datum, opt: opt}
	return in.eval(e, nil)
}

func (in *interp) trace(ev string) {
	if in.opt.Trace != nil {
		in.opt.Trace(ev)
	}
}

func (in *interp) eval(e xgen.Expr, env []binding) Allowed {
	switch n := e.(type) {
	case *xgen.Not:
		a := in.eval(n.X, env)
		if a.Unspec != "" {
			return a
		}
		var s uint8
		if a.Set&T != 0 {
			s |= F
		}
		if a.Set&F != 0 {
			s |= T
		}
		if a.Set&E != 0 {
			s |= E
		}
		return one(s)
	case *xgen.And:
		a := in.eval(n.L, env)
		if a.Unspec != "" {
			return a
		}
		s := a.Set & (F | E)
		if a.Set&T != 0 {
			b := in.eval(n.R, env)
			if b.Unspec != "" {
				return b
			}
			s |= b.Set
		}
		return one(s)
	case *xgen.Or:
		a := in.eval(n.L, env)
		if a.Unspec != "" {
			return a
		}
		s := a.Set & (T | E)
		if a.Set&F != 0 {
			b := in.eval(n.R, env)
			if b.Unspec != "" {
				return b
			}
			s |= b.Set
		}
		return one(s)
	case *xgen.Match:
		return in.evalMatch(n, env)
	case *xgen.Quant:
		return in.evalQuant(n, env)
	}
	return unspec("unknown node")
}

// ---------------------------------------------------------------------------
// selector resolution

type status int

const (
	stFound status = iota
	stNotPresent
	stError
	stUnspec
)

type resolved struct {
	st   status
	val  *univ.Node
	why  string
	path []string // fully expanded path (for aliases)
}

// through looks through interfaces, then pointers (nil gives nil).
func through(n *univ.Node) *univ.Node {
	for n != nil && n.T.K == univ.KIface {
		if n.Nil {
			return nil
		}
		n = n.Elem
	}
	for n != nil && n.T.K == univ.KPtr {
		if n.Nil {
			return nil
		}
		n = n.Elem
	}
	return n
}

// unwrapIface removes interface wrapping only (what a Go interface{} value
// holds).
func unwrapIface(n *univ.Node) *univ.Node {
	for n != nil && n.T.K == univ.KIface {
		if n.Nil {
			return nil
		}
		n = n.Elem
	}
	return n
}

var reCanonInt = regexp.MustCompile(`^-?(0|[1-9][0-9]*)$`)

type stepResult struct {
	st  status // stFound, stNotPresent (= not found), stError, stUnspec
	val *univ.Node
	why string
}

func tagOf(f univ.Field, tagName string) (tag string, has bool) {
	// reflect.StructTag.Get semantics for the conventional format
	st := f.Tag
	for st != "" {
		i := 0
		for i < len(st) && st[i] == ' ' {
			i++
		}
		st = st[i:]
		if st == "" {
			break
		}
		i = 0
		for i < len(st) && st[i] > ' ' && st[i] != ':' && st[i] != '"' && st[i] != 0x7f {
			i++
		}
		if i == 0 || i+1 >= len(st) || st[i] != ':' || st[i+1] != '"' {
			break
		}
		name := st[:i]
		st = st[i+1:]
		i = 1
		for i < len(st) && st[i] != '"' {
			if st[i] == '\\' {
				i++
			}
			i++
		}
		if i >= len(st) {
			break
		}
		q := st[:i+1]
		st = st[i+1:]
		if name == tagName {
			v, err := strconv.Unquote(q)
			if err != nil {
				break
			}
			return v, true
		}
	}
	return "", false
}

// step performs one lookup step on an already looked-through value.
func (in *interp) step(cur *univ.Node, part string) stepResult {
	if cur == nil {
		return stepResult{st: stError, why: "step into nil"}
	}
	switch cur.T.K {
	case univ.KMap:
		kt := cur.T.Key
		switch {
		case kt.K == univ.KString:
			for i, k := range cur.Keys {
				if k.S == part {
					return stepResult{st: stFound, val: cur.Items[i]}
				}
			}
			return stepResult{st: stNotPresent}
		case kt.K == univ.KIface:
			for i, k := range cur.Keys {
				kk := unwrapIface(k)
				if kk != nil && kk.T.K == univ.KString && kk.T.Named == "" && kk.S == part {
					return stepResult{st: stFound, val: cur.Items[i]}
				}
			}
			return stepResult{st: stNotPresent}
		case kt.K.IsInt():
			if !reCanonInt.MatchString(part) {
				return stepResult{st: stUnspec, why: "non-canonical part addressed to an int-keyed map"}
			}
			x, err := strconv.ParseInt(part, 10, 64)
			if err != nil {
				return stepResult{st: stUnspec, why: "out-of-range part addressed to an int-keyed map"}
			}
			if !fitsInt(x, kt.K) {
				return stepResult{st: stUnspec, why: "part does not fit the key type"}
			}
			for i, k := range cur.Keys {
				if k.I == x {
					return stepResult{st: stFound, val: cur.Items[i]}
				}
			}
			return stepResult{st: stNotPresent}
		case kt.K == univ.KBool:
			if part != "true" && part != "false" {
				return stepResult{st: stUnspec, why: "non-canonical part addressed to a bool-keyed map"}
			}
			for i, k := range cur.Keys {
				if k.B == (part == "true") {
					return stepResult{st: stFound, val: cur.Items[i]}
				}
			}
			return stepResult{st: stNotPresent}
		default:
			return stepResult{st: stUnspec, why: "part addressed to a map keyed by " + kt.K.String()}
		}
	case univ.KSlice, univ.KArray:
		if reCanonInt.MatchString(part) && part != "-0" {
			x, err := strconv.ParseInt(part, 10, 64)
			if err != nil {
				return stepResult{st: stError, why: "index does not fit"}
			}
			if x < 0 || x >= int64(len(cur.Items)) {
				return stepResult{st: stError, why: "index out of range"}
			}
			return stepResult{st: stFound, val: cur.Items[x]}
		}
		if part == "" {
			return stepResult{st: stUnspec, why: "empty list index"}
		}
		if _, err := strconv.ParseInt(part, 0, 64); err == nil {
			return stepResult{st: stUnspec, why: "non-canonical list index"}
		}
		if _, err := strconv.ParseFloat(part, 64); err == nil {
			return stepResult{st: stUnspec, why: "non-canonical list index"}
		}
		return stepResult{st: stError, why: "list index is not a number"}
	case univ.KStruct:
		tagName := in.opt.tag()
		var foundByName *univ.Node
		hidden := false
		for i, f := range cur.T.Fields {
			if f.Unexported {
				continue
			}
			tag, has := tagOf(f, tagName)
			if has && tag != "" {
				if j := strings.Index(tag, ","); j >= 0 {
					tag = tag[:j]
				}
				if strings.Contains(tag, "|") {
					return stepResult{st: stUnspec, why: "struct tag containing |"}
				}
				if tag == "" {
					return stepResult{st: stUnspec, why: "struct tag with options but no name"}
				}
				if tag == "-" {
					if f.Name == part {
						hidden = true
					}
					continue
				}
				if tag == part {
					return stepResult{st: stFound, val: cur.Items[i]}
				}
			} else if f.Name == part {
				foundByName = cur.Items[i]
			}
		}
		if hidden {
			return stepResult{st: stError, why: "field is hidden"}
		}
		if foundByName != nil {
			return stepResult{st: stFound, val: foundByName}
		}
		return stepResult{st: stNotPresent}
	}
	return stepResult{st: stError, why: "step into " + cur.T.K.String()}
}

func fitsInt(x int64, k univ.Kind) bool {
	switch k {
	case univ.KInt8:
		return x >= math.MinInt8 && x <= math.MaxInt8
	case univ.KInt16:
		return x >= math.MinInt16 && x <= math.MaxInt16
	case univ.KInt32:
		return x >= math.MinInt32 && x <= math.MaxInt32
	}
	return true
}

func fitsUint(x uint64, k univ.Kind) bool {
	switch k {
	case univ.KUint8:
		return x <= math.MaxUint8
	case univ.KUint16:
		return x <= math.MaxUint16
	case univ.KUint32:
		return x <= math.MaxUint32
	}
	return true
}

// walk follows path from the datum. notFoundAt is the index of the part that
// was absent (when st == stNotPresent).
func (in *interp) walk(path []string) (res stepResult, notFoundAt int) {
	cur := in.datum
	for i, part := range path {
		c := through(cur)
		if c != nil && c.T.K == univ.KIface {
			// pointer to interface: not looked through further
			return stepResult{st: stError, why: "pointer to interface"}, i
		}
		r := in.step(c, part)
		if r.st != stFound {
			return r, i
		}
		cur = r.val
		if in.opt.Hook != nil {
			cur = in.opt.Hook.Apply(cur)
		}
	}
	return stepResult{st: stFound, val: cur}, -1
}

func (in *interp) resolve(path []string, env []binding) resolved {
	// 1. bindings, innermost first; an alias is re-resolved through the
	// bindings outside it.
	for i := len(env) - 1; i >= 0; i-- {
		b := env[i]
		if len(path) > 0 && path[0] == b.name {
			if b.path == nil {
				if len(path) > 1 {
					return resolved{st: stError, why: "step into a key/index binding"}
				}
				return resolved{st: stFound, val: b.value, path: path}
			}
			np := append(append([]string(nil), b.path...), path[1:]...)
			path = np
			// the alias stands for a path written where the quantifier
			// stands: it is resolved through the bindings enclosing that
			// quantifier, not through its own index/key name
			if b.depth < i {
				i = b.depth
			}
		}
	}
	r, at := in.walk(path)
	switch r.st {
	case stFound:
		return resolved{st: stFound, val: r.val, path: path}
	case stUnspec:
		return resolved{st: stUnspec, why: r.why, path: path}
	case stError:
		return resolved{st: stError, why: r.why, path: path}
	}
	// absent key or field
	in.trace("resolve:absent")
	if in.opt.Unknown != nil {
		return resolved{st: stFound, val: in.opt.Unknown, path: path, why: "unknown-value"}
	}
	if at == len(path)-1 && len(path) >= 2 {
		pr, _ := in.walk(path[:len(path)-1])
		if pr.st == stUnspec {
			return resolved{st: stUnspec, why: pr.why, path: path}
		}
		if pr.st == stFound {
			p := through(pr.val)
			if p != nil && p.T.K == univ.KMap {
				return resolved{st: stNotPresent, path: path}
			}
		}
	}
	return resolved{st: stError, why: "absent", path: path}
}

// ---------------------------------------------------------------------------
// literal reading (the documented spellings are those of strconv)

type coerceErr int

const (
	ceNone coerceErr = iota
	ceSyntax
	ceOther
)

func classify(err error) coerceErr {
	if err == nil {
		return ceNone
	}
	if errors.Is(err, strconv.ErrSyntax) {
		return ceSyntax
	}
	return ceOther
}

// litEquals compares the literal, read in kind k, with the scalar node v.
func litEquals(raw string, v *univ.Node) (eq bool, ce coerceErr, primitive bool) {
	k := v.T.K
	switch {
	case k == univ.KBool:
		b, err := strconv.ParseBool(raw)
		return err == nil && b == v.B, classify(err), true
	case k.IsInt():
		x, err := strconv.ParseInt(raw, 0, 64)
		return err == nil && x == v.I, classify(err), true
	case k.IsUint():
		x, err := strconv.ParseUint(raw, 0, 64)
		return err == nil && x == v.U, classify(err), true
	case k == univ.KFloat32:
		f, err := strconv.ParseFloat(raw, 32)
		return err == nil && float32(f) == float32(v.F), classify(err), true
	case k == univ.KFloat64:
		f, err := strconv.ParseFloat(raw, 64)
		return err == nil && f == v.F, classify(err), true
	case k == univ.KString:
		return raw == v.S, ceNone, true
	}
	return false, ceNone, false
}

// coercible reports whether the literal can be read in kind k at all.
func coercible(raw string, k univ.Kind) coerceErr {
	switch {
	case k == univ.KBool:
		_, err := strconv.ParseBool(raw)
		return classify(err)
	case k.IsInt():
		_, err := strconv.ParseInt(raw, 0, 64)
		return classify(err)
	case k.IsUint():
		_, err := strconv.ParseUint(raw, 0, 64)
		return classify(err)
	case k == univ.KFloat32:
		_, err := strconv.ParseFloat(raw, 32)
		return classify(err)
	case k == univ.KFloat64:
		_, err := strconv.ParseFloat(raw, 64)
		return classify(err)
	}
	return ceNone
}

func isNaNLit(raw string) bool {
	f, err := strconv.ParseFloat(raw, 64)
	return err == nil && f != f
}

// ---------------------------------------------------------------------------
// match expressions

// operand prepares the resolved value for the operators: json.Number
// narrowing and one level of pointer.
func operand(val *univ.Node) (v *univ.Node, errd bool) {
	val = unwrapIface(val)
	if val != nil && val.T.Named == "JSONNumber" {
		if x, err := strconv.ParseInt(val.S, 10, 64); err == nil {
			return univ.IntOf(univ.TInt64, x), false
		}
		if f, err := strconv.ParseFloat(val.S, 64); err == nil {
			return univ.Float(f), false
		}
		return nil, true
	}
	if val != nil && val.T.K == univ.KPtr {
		if val.Nil {
			return nil, false
		}
		return unwrapIfaceNoPtr(val.Elem), false
	}
	return val, false
}

// unwrapIfaceNoPtr: the target of a pointer is a concrete variable; if its
// static type is interface{} the operators see an interface kind.
func unwrapIfaceNoPtr(n *univ.Node) *univ.Node { return n }

func kindOf(v *univ.Node) univ.Kind {
	if v == nil {
		return univ.KInvalid
	}
	return v.T.K
}

func (in *interp) evalMatch(m *xgen.Match, env []binding) Allowed {
	r := in.resolve(m.Sel.Parts, env)
	switch r.st {
	case stUnspec:
		return unspec(r.why)
	case stError:
		in.trace("resolve:error")
		return one(E)
	case stNotPresent:
		in.trace("resolve:not-present")
		// documented table
		switch m.Op {
		case xgen.OpEq, xgen.OpIn, xgen.OpMatches, xgen.OpNotEmpty:
			return one(F)
		default:
			return one(T)
		}
	}
	v, errd := operand(r.val)
	if errd {
		in.trace("op:" + m.Op.String() + "/json-number-error")
		return one(E)
	}
	pos := m.Op &^ 1
	var a Allowed
	in.trace("op:" + m.Op.String() + "/" + kindOf(v).String())
	switch xgen.Op(pos) {
	case xgen.OpEq:
		a = in.opEqual(m.Lit.S, v)
	case xgen.OpIn:
		a = in.opIn(m.Lit.S, v)
	case xgen.OpEmpty:
		a = in.opEmpty(v)
	case xgen.OpMatches:
		a = in.opMatches(m.Lit.S, v)
	}
	if a.Unspec != "" {
		return a
	}
	if m.Op.Negative() {
		var s uint8
		if a.Set&T != 0 {
			s |= F
		}
		if a.Set&F != 0 {
			s |= T
		}
		s |= a.Set & E
		return one(s)
	}
	return a
}

func (in *interp) opEqual(raw string, v *univ.Node) Allowed {
	if v == nil || !v.T.K.IsScalar() {
		return one(E)
	}
	if v.T.K.IsFloat() && (v.F != v.F || isNaNLit(raw)) {
		return unspec("NaN equality")
	}
	eq, ce, _ := litEquals(raw, v)
	if ce != ceNone {
		return one(E)
	}
	return boolSet(eq)
}

// derefAll strips every pointer level; nil if a nil pointer is met.
func derefAll(n *univ.Node) *univ.Node {
	for n != nil && n.T.K == univ.KPtr {
		if n.Nil {
			return nil
		}
		n = n.Elem
	}
	return n
}

func derefType(t *univ.Type) *univ.Type {
	for t.K == univ.KPtr {
		t = t.Elem
	}
	return t
}

func (in *interp) opIn(raw string, v *univ.Node) Allowed {
	if v == nil {
		return one(E)
	}
	switch v.T.K {
	case univ.KString:
		return boolSet(strings.Contains(v.S, raw))
	case univ.KMap:
		kt := v.T.Key
		switch {
		case kt.K == univ.KString:
			for _, k := range v.Keys {
				if k.S == raw {
					return one(T)
				}
			}
			return one(F)
		case kt.K == univ.KIface:
			for _, k := range v.Keys {
				kk := unwrapIface(k)
				if kk != nil && kk.T.K == univ.KString && kk.T.Named == "" && kk.S == raw {
					return one(T)
				}
			}
			return one(F)
		case kt.K == univ.KBool || kt.K.IsInt() || kt.K.IsUint() || kt.K.IsFloat():
			if kt.K.IsFloat() && isNaNLit(raw) {
				return unspec("NaN map key")
			}
			if coercible(raw, kt.K) != ceNone {
				return one(E)
			}
			for _, k := range v.Keys {
				if eq, _, _ := litEquals(raw, k); eq {
					return one(T)
				}
			}
			return one(F)
		}
		return one(E)
	case univ.KSlice, univ.KArray:
		et := derefType(v.T.Elem)
		if et.K == univ.KIface {
			if v.T.Elem.K == univ.KPtr {
				return unspec("slice of pointers to interfaces")
			}
			// each element is read on its own
			for _, it := range v.Items {
				x := derefAll(unwrapIface(it))
				if x == nil {
					continue // nil equals no literal
				}
				if x.T.K == univ.KIface {
					return unspec("pointer to interface element")
				}
				if x.T.K.IsFloat() && (x.F != x.F || isNaNLit(raw)) {
					return unspec("NaN equality")
				}
				eq, ce, prim := litEquals(raw, x)
				if !prim {
					return one(E)
				}
				if ce == ceSyntax {
					continue
				}
				if ce != ceNone {
					return one(E)
				}
				if eq {
					return one(T)
				}
			}
			return one(F)
		}
		if !et.K.IsScalar() {
			return one(E)
		}
		if coercible(raw, et.K) != ceNone {
			return one(E)
		}
		for _, it := range v.Items {
			x := derefAll(it)
			if x == nil {
				continue
			}
			if x.T.K.IsFloat() && (x.F != x.F || isNaNLit(raw)) {
				return unspec("NaN equality")
			}
			if eq, _, _ := litEquals(raw, x); eq {
				return one(T)
			}
		}
		return one(F)
	}
	return one(E)
}

func (in *interp) opEmpty(v *univ.Node) Allowed {
	if v == nil {
		return one(E)
	}
	switch v.T.K {
	case univ.KString:
		return boolSet(len(v.S) == 0)
	case univ.KSlice, univ.KArray, univ.KMap:
		return boolSet(len(v.Items) == 0)
	case univ.KChan:
		// channels of the universe never hold elements (nil or empty)
		return boolSet(true)
	}
	return one(E)
}

func (in *interp) opMatches(raw string, v *univ.Node) Allowed {
	if v == nil {
		return one(E)
	}
	var data []byte
	switch {
	case v.T.K == univ.KString:
		data = []byte(v.S)
	case v.T.K == univ.KSlice && v.T.Elem.K == univ.KUint8 && v.T.Elem.Named == "":
		for _, it := range v.Items {
			data = append(data, byte(it.U))
		}
	default:
		return one(E)
	}
	re, err := regexp.Compile(raw)
	if err != nil {
		return one(E)
	}
	return boolSet(re.Match(data))
}

// ---------------------------------------------------------------------------
// quantifiers

func (in *interp) evalQuant(q *xgen.Quant, env []binding) Allowed {
	r := in.resolve(q.Sel.Parts, env)
	dflt := F
	decisive := T
	if q.All {
		dflt, decisive = T, F
	}
	switch r.st {
	case stUnspec:
		return unspec(r.why)
	case stError:
		return one(E)
	case stNotPresent:
		in.trace("quant:not-present")
		return one(dflt)
	}
	coll := unwrapIface(r.val)
	if coll == nil {
		return one(E)
	}
	if r.why == "unknown-value" && !coll.T.K.IsScalar() {
		return unspec("quantifying over a non-scalar unknown value")
	}
	isMap := false
	switch coll.T.K {
	case univ.KSlice, univ.KArray:
	case univ.KMap:
		isMap = true
		if coll.T.Key.K != univ.KString {
			return one(E)
		}
		if coll.T.Key.Named != "" {
			return unspec("quantifying over a named-string-keyed map")
		}
	case univ.KPtr:
		t := derefType(coll.T)
		if t.K == univ.KSlice || t.K == univ.KArray || t.K == univ.KMap {
			return unspec("quantifying over a pointer to a collection")
		}
		return one(E)
	default:
		return one(E)
	}
	if q.Mode == xgen.BindIndexValue && q.Name == q.Name2 {
		if len(coll.Items) == 0 {
			return unspec("i, i binding over an empty collection")
		}
		return one(E)
	}
	in.trace("quant:" + coll.T.K.String())
	elem := func(i int) Allowed {
		var key string
		var keyNode *univ.Node
		if isMap {
			key = coll.Keys[i].S
			keyNode = univ.Str(key)
		} else {
			key = strconv.Itoa(i)
			keyNode = univ.Int(int64(i))
		}
		alias := append(append([]string(nil), q.Sel.Parts...), key)
		inner := append([]binding(nil), env...)
		d := len(env)
		switch q.Mode {
		case xgen.BindDefault:
			if isMap {
				inner = append(inner, binding{name: q.Name, value: keyNode, depth: d})
			} else {
				inner = append(inner, binding{name: q.Name, path: alias, depth: d})
			}
		case xgen.BindIndex:
			inner = append(inner, binding{name: q.Name, value: keyNode, depth: d})
		case xgen.BindValue:
			inner = append(inner, binding{name: q.Name2, path: alias, depth: d})
		case xgen.BindIndexValue:
			inner = append(inner, binding{name: q.Name, value: keyNode, depth: d}, binding{name: q.Name2, path: alias, depth: d})
		}
		return in.eval(q.Body, inner)
	}
	var out uint8
	if !isMap {
		for i := range coll.Items {
			a := elem(i)
			if a.Unspec != "" {
				return a
			}
			out |= a.Set & E
			out |= a.Set & decisive
			if a.Set&dflt == 0 {
				return one(out)
			}
		}
		return one(out | dflt)
	}
	// maps: every iteration order is admissible
	allCanPass := true
	for i := range coll.Items {
		a := elem(i)
		if a.Unspec != "" {
			return a
		}
		out |= a.Set & E
		out |= a.Set & decisive
		if a.Set&dflt == 0 {
			allCanPass = false
		}
	}
	if allCanPass {
		out |= dflt
	}
	return one(out)
}

// ---------------------------------------------------------------------------
// helpers used by the workload generators

// PathInfo is one path that resolves in a datum.
type PathInfo struct {
	Path []string
	Val  *univ.Node
}

// Paths enumerates paths that resolve (by the documented walking rules) up
// to the given depth.
func Paths(datum *univ.Node, opt *Options, maxDepth int) []PathInfo {
	if opt == nil {
		opt = &Options{}
	}
	in := &interp{datum: datum, opt: opt}
	var out []PathInfo
	var rec func(cur *univ.Node, path []string, depth int)
	rec = func(cur *univ.Node, path []string, depth int) {
		if len(out) > 400 {
			return
		}
		if len(path) > 0 {
			out = append(out, PathInfo{Path: append([]string(nil), path...), Val: cur})
		}
		if depth >= maxDepth {
			return
		}
		c := through(cur)
		if c == nil {
			return
		}
		var parts []string
		switch c.T.K {
		case univ.KMap:
			for _, k := range c.Keys {
				kk := unwrapIface(k)
				if kk == nil {
					continue
				}
				switch {
				case kk.T.K == univ.KString:
					parts = append(parts, kk.S)
				case kk.T.K.IsInt():
					parts = append(parts, strconv.FormatInt(kk.I, 10))
				case kk.T.K == univ.KBool:
					parts = append(parts, strconv.FormatBool(kk.B))
				}
			}
		case univ.KSlice, univ.KArray:
			for i := range c.Items {
				if i < 4 {
					parts = append(parts, strconv.Itoa(i))
				}
			}
		case univ.KStruct:
			for _, f := range c.T.Fields {
				if f.Unexported {
					continue
				}
				if tag, has := tagOf(f, opt.tag()); has && tag != "" {
					if j := strings.Index(tag, ","); j >= 0 {
						tag = tag[:j]
					}
					if tag != "-" && tag != "" {
						parts = append(parts, tag)
					}
				} else {
					parts = append(parts, f.Name)
				}
			}
		}
		for _, p := range parts {
			r := in.step(c, p)
			if r.st == stFound {
				v := r.val
				if opt.Hook != nil {
					v = opt.Hook.Apply(v)
				}
				rec(v, append(path, p), depth+1)
			}
		}
	}
	rec(datum, nil, 0)
	return out
}

// Operand exposes what the operators would see for a resolved value (after
// json.Number narrowing and one pointer level); nil = nil / invalid.
func Operand(val *univ.Node) *univ.Node {
	v, _ := operand(val)
	return v
}

// Through exposes the look-through used while walking.
func Through(n *univ.Node) *univ.Node { return through(n) }
