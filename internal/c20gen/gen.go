// Package c20gen turns the code blocks of a pigeon grammar into one Go file
// for package grammar: every block becomes a method of *current, with the
// labels in scope as parameters, exactly the shape the generator gives the
// shipped on<Rule><k> functions. The file is added to the package at check
// time with `go build -overlay`.
package c20gen

import (
	"fmt"
	"go/ast"
	"go/parser"
	"go/token"
	"os"
	"regexp"
	"sort"
	"strings"

	"verif/internal/pegread"
)

var importRe = regexp.MustCompile(`"([^"]+)"`)

// Generate reads pegPath and writes the Go file to outPath.
func Generate(pegPath, outPath string) error {
	b, err := os.ReadFile(pegPath)
	if err != nil {
		return err
	}
	g, err := pegread.Parse(string(b))
	if err != nil {
		return err
	}
	// imports of the initializer, plus errors and fmt (goimports adds them to
	// the generated parser); only the ones a code block uses are imported
	paths := map[string]bool{"errors": true, "fmt": true}
	if i := strings.Index(g.Init, "import"); i >= 0 {
		for _, m := range importRe.FindAllStringSubmatch(g.Init[i:], -1) {
			paths[m[1]] = true
		}
	}
	// declarations of the initializer other than the package clause and the
	// imports (helper functions, variables, types) are part of what the
	// grammar source specifies: they are copied under new names and the code
	// blocks are made to call the copies, so that a helper that differs
	// between grammar.peg and the shipped file shows up as a behavioural
	// difference of the actions that use it.
	prelude, rename, perr := preludeDecls(g.Init)
	if perr != nil {
		return fmt.Errorf("initializer block: %v", perr)
	}
	apply := func(code string) string {
		for _, rn := range rename {
			code = rn.re.ReplaceAllString(code, rn.repl)
		}
		return code
	}
	var sb, body strings.Builder
	for _, d := range prelude {
		body.WriteString(apply(d) + "\n\n")
	}
	type entry struct{ key, call string }
	var entries []entry
	var rec func(rule string, n *pegread.Node)
	rec = func(rule string, n *pegread.Node) {
		if n.Kind == "action" || n.Kind == "andcode" || n.Kind == "notcode" {
			key := fmt.Sprintf("%s%d", rule, n.Index)
			ret := "(any, error)"
			if n.Kind != "action" {
				ret = "(bool, error)"
			}
			var params, args []string
			seen := map[string]bool{}
			for _, a := range n.Args {
				if seen[a] {
					continue
				}
				seen[a] = true
				params = append(params, a+" any")
				args = append(args, fmt.Sprintf("labels[%q]", a))
			}
			fmt.Fprintf(&body, "func (c *current) verifRef%s(%s) %s {%s}\n\n", key, strings.Join(params, ", "), ret, apply(n.Code))
			call := fmt.Sprintf("c.verifRef%s(%s)", key, strings.Join(args, ", "))
			entries = append(entries, entry{key, call})
		}
		for _, k := range n.Kids {
			rec(rule, k)
		}
	}
	for _, r := range g.Rules {
		rec(r.Name, r.Expr)
	}
	sb.WriteString("//go:build verif\n\n// Code generated at check time from grammar.peg by verif/internal/c20gen; DO NOT EDIT.\n\npackage grammar\n\nimport (\n")
	var ps []string
	for p := range paths {
		name := p[strings.LastIndex(p, "/")+1:]
		if strings.Contains(body.String(), name+".") {
			ps = append(ps, p)
		}
	}
	sort.Strings(ps)
	for _, p := range ps {
		fmt.Fprintf(&sb, "\t%q\n", p)
	}
	sb.WriteString(")\n\n")
	sb.WriteString(body.String())
	sb.WriteString("// VerifRefActions returns a runner for every code block of grammar.peg.\nfunc VerifRefActions() map[string]VerifAction {\n\tm := map[string]VerifAction{}\n")
	for _, e := range entries {
		fmt.Fprintf(&sb, "\tm[%q] = func(text []byte, labels map[string]any) (any, error) {\n\t\tc := &current{text: text, globalStore: make(storeDict)}\n\t\treturn %s\n\t}\n", e.key, e.call)
	}
	sb.WriteString("\treturn m\n}\n")
	return os.WriteFile(outPath, []byte(sb.String()), 0o644)
}

type renameRule struct {
	re   *regexp.Regexp
	repl string
}

// preludeDecls parses the initializer as a Go file and returns the source of
// its non-import declarations together with the renaming rules.
func preludeDecls(init string) (decls []string, rules []renameRule, err error) {
	fset := token.NewFileSet()
	f, err := parser.ParseFile(fset, "initializer.go", init, parser.ParseComments)
	if err != nil {
		return nil, nil, err
	}
	text := func(n ast.Node) string {
		return init[fset.Position(n.Pos()).Offset:fset.Position(n.End()).Offset]
	}
	addName := func(name string, method bool) {
		if name == "_" || name == "init" {
			return
		}
		if method {
			rules = append(rules, renameRule{regexp.MustCompile(`\.` + regexp.QuoteMeta(name) + `\b`), ".verifRefPrelude" + name})
			rules = append(rules, renameRule{regexp.MustCompile(`(\)\s+)` + regexp.QuoteMeta(name) + `(\()`), "${1}verifRefPrelude" + name + "${2}"})
		} else {
			rules = append(rules, renameRule{regexp.MustCompile(`(^|[^.\w])` + regexp.QuoteMeta(name) + `\b`), "${1}verifRefPrelude" + name})
		}
	}
	for _, d := range f.Decls {
		switch x := d.(type) {
		case *ast.FuncDecl:
			addName(x.Name.Name, x.Recv != nil)
			decls = append(decls, text(x))
		case *ast.GenDecl:
			if x.Tok == token.IMPORT {
				continue
			}
			for _, sp := range x.Specs {
				switch y := sp.(type) {
				case *ast.ValueSpec:
					for _, n := range y.Names {
						addName(n.Name, false)
					}
				case *ast.TypeSpec:
					addName(y.Name.Name, false)
				}
			}
			decls = append(decls, text(x))
		}
	}
	return decls, rules, nil
}
