package mon

import (
	"fmt"
	"reflect"
	"sort"
	"strings"
	"unsafe"
)

// Snapshot returns a canonical deep dump of a Go value: all fields including
// unexported ones, the pointer graph (shared / cyclic pointers get ids),
// slice len, cap and the contents up to cap, map entries sorted by key dump.
// Two snapshots are equal iff nothing reachable from the value changed.
func Snapshot(v interface{}) string {
	s := &snap{ptrs: map[uintptr]int{}}
	s.dump(reflect.ValueOf(v), 0)
	return s.sb.String()
}

type snap struct {
	sb   strings.Builder
	ptrs map[uintptr]int
}

func (s *snap) dump(v reflect.Value, depth int) {
	if !v.IsValid() {
		s.sb.WriteString("<invalid>")
		return
	}
	if depth > 60 || s.sb.Len() > 1<<20 {
		s.sb.WriteString("<deep>")
		return
	}
	switch v.Kind() {
	case reflect.Bool:
		fmt.Fprintf(&s.sb, "%s(%v)", v.Type(), v.Bool())
	case reflect.Int, reflect.Int8, reflect.Int16, reflect.Int32, reflect.Int64:
		fmt.Fprintf(&s.sb, "%s(%d)", v.Type(), v.Int())
	case reflect.Uint, reflect.Uint8, reflect.Uint16, reflect.Uint32, reflect.Uint64, reflect.Uintptr:
		fmt.Fprintf(&s.sb, "%s(%d)", v.Type(), v.Uint())
	case reflect.Float32, reflect.Float64:
		fmt.Fprintf(&s.sb, "%s(%x)", v.Type(), v.Float())
	case reflect.Complex64, reflect.Complex128:
		fmt.Fprintf(&s.sb, "%s(%v)", v.Type(), v.Complex())
	case reflect.String:
		fmt.Fprintf(&s.sb, "%s(%q)", v.Type(), v.String())
	case reflect.Interface:
		if v.IsNil() {
			s.sb.WriteString("iface(nil)")
			return
		}
		s.sb.WriteString("iface(")
		s.dump(v.Elem(), depth+1)
		s.sb.WriteString(")")
	case reflect.Ptr:
		if v.IsNil() {
			fmt.Fprintf(&s.sb, "%s(nil)", v.Type())
			return
		}
		p := v.Pointer()
		if id, ok := s.ptrs[p]; ok {
			fmt.Fprintf(&s.sb, "&#%d", id)
			return
		}
		s.ptrs[p] = len(s.ptrs) + 1
		fmt.Fprintf(&s.sb, "&#%d=", s.ptrs[p])
		s.dump(v.Elem(), depth+1)
	case reflect.Slice:
		if v.IsNil() {
			fmt.Fprintf(&s.sb, "%s(nil)", v.Type())
			return
		}
		p := v.Pointer()
		key := p ^ uintptr(v.Len())<<40
		if id, ok := s.ptrs[key]; ok && v.Len() > 0 {
			fmt.Fprintf(&s.sb, "slice#%d", id)
			return
		}
		s.ptrs[key] = len(s.ptrs) + 1
		fmt.Fprintf(&s.sb, "%s#%d[len=%d cap=%d]{", v.Type(), s.ptrs[key], v.Len(), v.Cap())
		full := v.Slice(0, v.Cap())
		for i := 0; i < full.Len(); i++ {
			if i == v.Len() {
				s.sb.WriteString(" | ")
			} else if i > 0 {
				s.sb.WriteString(", ")
			}
			s.dump(full.Index(i), depth+1)
		}
		s.sb.WriteString("}")
	case reflect.Array:
		fmt.Fprintf(&s.sb, "%s{", v.Type())
		for i := 0; i < v.Len(); i++ {
			if i > 0 {
				s.sb.WriteString(", ")
			}
			s.dump(v.Index(i), depth+1)
		}
		s.sb.WriteString("}")
	case reflect.Map:
		if v.IsNil() {
			fmt.Fprintf(&s.sb, "%s(nil)", v.Type())
			return
		}
		p := v.Pointer()
		if id, ok := s.ptrs[p]; ok {
			fmt.Fprintf(&s.sb, "map#%d", id)
			return
		}
		s.ptrs[p] = len(s.ptrs) + 1
		fmt.Fprintf(&s.sb, "%s#%d{", v.Type(), s.ptrs[p])
		// visit the entries in an order that does not depend on Go's random
		// map iteration: sort by a dump of the key that prints raw addresses
		// for pointers (objects do not move), then assign pointer ids in
		// that order
		type kv struct {
			ord  string
			k, v reflect.Value
		}
		var entries []kv
		it := v.MapRange()
		for it.Next() {
			entries = append(entries, kv{fmt.Sprintf("%T|%#v", it.Key().Interface(), it.Key().Interface()), it.Key(), it.Value()})
		}
		sort.Slice(entries, func(i, j int) bool { return entries[i].ord < entries[j].ord })
		for i, e := range entries {
			if i > 0 {
				s.sb.WriteString(", ")
			}
			s.dump(e.k, depth+1)
			s.sb.WriteString(": ")
			s.dump(e.v, depth+1)
		}
		s.sb.WriteString("}")
	case reflect.Struct:
		fmt.Fprintf(&s.sb, "%s{", v.Type())
		if !v.CanAddr() {
			// make an addressable copy so that unexported fields can be read
			c := reflect.New(v.Type()).Elem()
			c.Set(v)
			v = c
		}
		for i := 0; i < v.NumField(); i++ {
			if i > 0 {
				s.sb.WriteString(", ")
			}
			f := v.Field(i)
			if !f.CanInterface() {
				f = reflect.NewAt(f.Type(), unsafe.Pointer(f.UnsafeAddr())).Elem()
			}
			s.sb.WriteString(v.Type().Field(i).Name + ": ")
			s.dump(f, depth+1)
		}
		s.sb.WriteString("}")
	case reflect.Chan, reflect.Func, reflect.UnsafePointer:
		fmt.Fprintf(&s.sb, "%s(%#x)", v.Type(), v.Pointer())
	default:
		fmt.Fprintf(&s.sb, "<%s>", v.Kind())
	}
}
