package mon

import (
	"encoding/json"
	"fmt"
	"os"
	"os/exec"
	"path/filepath"
	"runtime"
	"sort"
	"strconv"
	"strings"
	"sync"
	"time"
)

// Prop describes one property's monitor and workload.
type Prop struct {
	ID          string
	Level       string // evidence level category
	Rule        string
	Assumptions []string
	// NumCases is the number of deterministic case indices of a tier.
	NumCases func(tier string) int
	// Run executes case idx (it must call c.Begin itself through RunRange).
	Run func(c *Ctx, idx int)
	// Required counters: each must be > 0 at the end or the run is
	// inconclusive (a monitor that observed nothing proves nothing).
	Required func(tier string) []string
	// SingleProcess runs the whole range in one worker (race detector).
	SingleProcess bool
	// Workers overrides the number of worker processes (0 = NumCPU).
	Workers int
	// ChunkTimeout is the no-progress watchdog per worker process (the journal has not changed for this long); firing is
	// inconclusive, never a violation.
	ChunkTimeout time.Duration
	// Chunk overrides the chunk size.
	Chunk func(tier string, n int) int
	// Heavy marks cases that take seconds each: every one becomes a chunk of
	// its own so that they run side by side instead of one after another.
	Heavy func(tier string, idx int) bool
	// Post lets the supervisor add evidence keys or cross-worker checks.
	Post func(a *Agg)
	// Exhaustive reports whether the tier enumerates a finite space fully.
	Exhaustive func(tier string) bool
	// WorkerEnv adds environment variables to worker processes.
	WorkerEnv []string
	// DeathIsViolation: an unrecoverable worker death counts as a violation
	// of this property (totality properties) - otherwise it is reported as
	// a violation too (the code under test killed the process) but flagged.
	Extra map[string]any
}

var Registry = map[string]*Prop{}

func Register(p *Prop) { Registry[p.ID] = p }

// Agg is the supervisor-side aggregate of all worker results.
type Agg struct {
	Prop       *Prop
	Tier       string
	Seed       int64
	Counters   map[string]int64
	Distinct   map[uint64]struct{}
	Samples    []any
	Notes      map[string]map[string]struct{}
	Violations []Violation
	Inconcl    []string
	Extra      map[string]any
	mu         sync.Mutex
}

func (a *Agg) merge(r *Result) {
	a.mu.Lock()
	defer a.mu.Unlock()
	for k, v := range r.Counters {
		a.Counters[k] += v
	}
	for _, h := range r.Distinct {
		a.Distinct[h] = struct{}{}
	}
	for _, s := range r.Samples {
		if len(a.Samples) < 12 {
			a.Samples = append(a.Samples, s)
		}
	}
	for k, l := range r.Notes {
		m := a.Notes[k]
		if m == nil {
			m = map[string]struct{}{}
			a.Notes[k] = m
		}
		for _, s := range l {
			if len(m) < 200 {
				m[s] = struct{}{}
			}
		}
	}
	a.Violations = append(a.Violations, r.Violations...)
	if r.HarnessErr != "" {
		a.Inconcl = append(a.Inconcl, "harness error: "+r.HarnessErr)
	}
}

func (a *Agg) AddViolation(v Violation) {
	a.mu.Lock()
	a.Violations = append(a.Violations, v)
	a.mu.Unlock()
}

func (a *Agg) Inconclusive(reason string) {
	a.mu.Lock()
	a.Inconcl = append(a.Inconcl, reason)
	a.mu.Unlock()
}

// RunRange is the worker side: run cases [from,to) of p.
func RunRange(p *Prop, tier string, seed int64, from, to int, journalPath, outPath string, verbose bool) int {
	var jf *os.File
	if journalPath != "" {
		var err error
		jf, err = os.OpenFile(journalPath, os.O_CREATE|os.O_RDWR|os.O_TRUNC, 0o644)
		if err != nil {
			fmt.Fprintln(os.Stderr, "journal:", err)
			return 3
		}
		defer jf.Close()
	}
	c := NewCtx(p.ID, tier, seed, jf)
	c.Verbose = verbose
	herr := ""
	func() {
		defer func() {
			if r := recover(); r != nil {
				herr = fmt.Sprintf("case %d: panic in harness: %v\n%s", c.Index, r, stackTrace())
			}
		}()
		for i := from; i < to; i++ {
			c.Begin(i, "")
			p.Run(c, i)
			c.res.Counters["cases"]++
		}
	}()
	res := c.Finish(from, to, true, herr)
	if outPath != "" {
		b, err := json.Marshal(res)
		if err != nil {
			fmt.Fprintln(os.Stderr, "marshal:", err)
			return 3
		}
		if err := os.WriteFile(outPath, b, 0o644); err != nil {
			fmt.Fprintln(os.Stderr, "write:", err)
			return 3
		}
	}
	if herr != "" {
		fmt.Fprintln(os.Stderr, herr)
	}
	return 0
}

func stackTrace() string {
	buf := make([]byte, 16<<10)
	n := runtime.Stack(buf, false)
	return string(buf[:n])
}

type chunk struct{ from, to int }

func verifDir() string {
	if d := os.Getenv("VERIF_DIR"); d != "" {
		return d
	}
	return "/verif"
}

// Supervise runs a whole tier of a property and returns the exit status.
func Supervise(p *Prop, tier string, seed int64) int {
	start := time.Now()
	n := p.NumCases(tier)
	agg := &Agg{Prop: p, Tier: tier, Seed: seed, Counters: map[string]int64{}, Distinct: map[uint64]struct{}{}, Notes: map[string]map[string]struct{}{}, Extra: map[string]any{}}
	work, err := os.MkdirTemp("", "vcheck-"+p.ID+"-")
	if err != nil {
		fmt.Println("INCONCLUSIVE property=" + p.ID + " reason=mktemp: " + err.Error())
		return 2
	}
	defer os.RemoveAll(work)

	nw := runtime.NumCPU()
	if p.Workers > 0 {
		nw = p.Workers
	}
	if s := os.Getenv("VERIF_WORKERS"); s != "" {
		if x, err := strconv.Atoi(s); err == nil && x > 0 {
			nw = x
		}
	}
	csize := (n + nw*6 - 1) / (nw * 6)
	if p.Chunk != nil {
		csize = p.Chunk(tier, n)
	}
	if csize < 1 {
		csize = 1
	}
	if p.SingleProcess {
		csize, nw = n, 1
	}
	var queue []chunk
	for f := 0; f < n; {
		if p.Heavy != nil && !p.SingleProcess && p.Heavy(tier, f) {
			// heavy cases first in the queue: the long poles start at once
			queue = append([]chunk{{f, f + 1}}, queue...)
			f++
			continue
		}
		t := f + csize
		if t > n {
			t = n
		}
		if p.Heavy != nil && !p.SingleProcess {
			for k := f + 1; k < t; k++ {
				if p.Heavy(tier, k) {
					t = k
					break
				}
			}
		}
		queue = append(queue, chunk{f, t})
		f = t
	}
	var qmu sync.Mutex
	pop := func() (chunk, bool) {
		qmu.Lock()
		defer qmu.Unlock()
		if len(queue) == 0 {
			return chunk{}, false
		}
		c := queue[0]
		queue = queue[1:]
		return c, true
	}
	push := func(c chunk) {
		qmu.Lock()
		queue = append([]chunk{c}, queue...)
		qmu.Unlock()
	}
	timeout := p.ChunkTimeout
	if timeout == 0 {
		timeout = 20 * time.Minute
	}
	if v, err := strconv.Atoi(os.Getenv("VERIF_WATCHDOG_SECONDS")); err == nil && v > 0 {
		timeout = time.Duration(v) * time.Second // for testing the watchdog itself
	}
	self, _ := os.Executable()
	var wg sync.WaitGroup
	deaths := 0
	for w := 0; w < nw; w++ {
		wg.Add(1)
		go func(w int) {
			defer wg.Done()
			seq := 0
			for {
				ch, ok := pop()
				if !ok {
					return
				}
				seq++
				base := filepath.Join(work, fmt.Sprintf("w%d-%d", w, seq))
				jpath, opath, epath := base+".journal", base+".out", base+".stderr"
				cmd := exec.Command(self, "worker", "--prop", p.ID, "--tier", tier, "--seed", strconv.FormatInt(seed, 10),
					"--from", strconv.Itoa(ch.from), "--to", strconv.Itoa(ch.to), "--journal", jpath, "--out", opath)
				ef, _ := os.Create(epath)
				cmd.Stdout = ef
				cmd.Stderr = ef
				cmd.Env = append(os.Environ(), p.WorkerEnv...)
				cmd.Env = append(cmd.Env, "VERIF_WORK="+work)
				if p.Extra["race"] != nil {
					cmd.Env = append(cmd.Env, "GORACE=halt_on_error=0 log_path="+filepath.Join(work, "race"))
				}
				if err := cmd.Start(); err != nil {
					agg.Inconclusive("cannot start worker: " + err.Error())
					ef.Close()
					return
				}
				done := make(chan error, 1)
				go func() { done <- cmd.Wait() }()
				// progress watchdog: the worker journals every case before it
				// runs; it is stopped only when the journal has not changed
				// for `timeout` (one case stuck), however long the chunk takes
				// on a loaded machine.
				timedOut := false
				lastJournal, lastChange := "", time.Now()
				tick := time.NewTicker(2 * time.Second)
			wait:
				for {
					select {
					case <-done:
						break wait
					case <-tick.C:
						// a worker that grows beyond 24 GB of resident memory is stopped
						// (attributed to the journalled case like any other death)
						if sm, err := os.ReadFile(fmt.Sprintf("/proc/%d/statm", cmd.Process.Pid)); err == nil {
							if f := strings.Fields(string(sm)); len(f) > 1 {
								if pages, _ := strconv.ParseInt(f[1], 10, 64); pages*4096 > 24<<30 {
									os.WriteFile(epath+".oom", []byte("fatal error: worker exceeded 24 GB of resident memory (stopped by the supervisor)\n"), 0o600)
									cmd.Process.Kill()
								}
							}
						}
						jb, _ := os.ReadFile(jpath)
						if string(jb) != lastJournal {
							lastJournal, lastChange = string(jb), time.Now()
						} else if time.Since(lastChange) > timeout {
							timedOut = true
							cmd.Process.Signal(os.Interrupt)
							time.Sleep(200 * time.Millisecond)
							cmd.Process.Kill()
							<-done
							break wait
						}
					}
				}
				tick.Stop()
				ef.Close()
				var res Result
				b, rerr := os.ReadFile(opath)
				if rerr == nil && json.Unmarshal(b, &res) == nil && res.Done {
					agg.merge(&res)
					if res.HarnessErr != "" {
						// the rest of the chunk was not run
						idx, _, _ := ReadJournal(jpath)
						if idx+1 < ch.to {
							push(chunk{idx + 1, ch.to})
						}
					}
					continue
				}
				idx, label, jok := ReadJournal(jpath)
				stderr, _ := os.ReadFile(epath)
				if oom, err := os.ReadFile(epath + ".oom"); err == nil {
					stderr = append(oom, stderr...)
				}
				if timedOut {
					agg.Inconclusive(fmt.Sprintf("watchdog: no progress for %s in chunk [%d,%d) at case %d (%s)", timeout, ch.from, ch.to, idx, label))
					if jok && idx+1 < ch.to {
						push(chunk{idx + 1, ch.to})
					}
					continue
				}
				if !jok {
					agg.Inconclusive(fmt.Sprintf("worker for [%d,%d) died before journaling: %s", ch.from, ch.to, tail(string(stderr), 400)))
					continue
				}
				kind := fatalKind(string(stderr))
				sig := fmt.Sprintf("%s death kind=%s at=%s", p.ID, kind, label)
				agg.AddViolation(Violation{Prop: p.ID, Sig: sig, What: "worker process died (unrecoverable fault in the code under test): " + kind, Index: idx, Seed: seed, Tier: tier,
					Detail: map[string]any{"label": label, "stderr_head": head(string(stderr), 1500)}})
				agg.mu.Lock()
				agg.Counters["cases"]++
				agg.Counters["worker_deaths"]++
				agg.mu.Unlock()
				qmu.Lock()
				deaths++
				tooMany := deaths > 50
				qmu.Unlock()
				if !tooMany && idx+1 < ch.to {
					push(chunk{idx + 1, ch.to})
				}
				// cases before idx in this chunk ran but their counters are lost:
				// re-run them so that the evidence stays a measurement.
				if !tooMany && idx > ch.from {
					push(chunk{ch.from, idx})
				}
			}
		}(w)
	}
	wg.Wait()
	if p.Post != nil {
		p.Post(agg)
	}
	return finish(agg, n, start)
}

func head(s string, n int) string {
	if len(s) > n {
		return s[:n]
	}
	return s
}

func tail(s string, n int) string {
	if len(s) > n {
		return s[len(s)-n:]
	}
	return s
}

func fatalKind(stderr string) string {
	for _, l := range strings.Split(stderr, "\n") {
		l = strings.TrimSpace(l)
		switch {
		case strings.Contains(l, "stack overflow"), strings.Contains(l, "goroutine stack exceeds"):
			return "stack-overflow"
		case strings.HasPrefix(l, "fatal error:"):
			return strings.ReplaceAll(strings.TrimSpace(strings.TrimPrefix(l, "fatal error:")), " ", "-")
		case strings.HasPrefix(l, "panic:"):
			return "panic"
		case strings.Contains(l, "WARNING: DATA RACE"):
			return "data-race"
		}
	}
	return "unknown"
}

// Known findings -----------------------------------------------------------

type Finding struct {
	Property  string `json:"property"`
	Status    string `json:"status"` // "known" | "fixed"
	Signature string `json:"signature"`
	What      string `json:"what"`
	Commit    string `json:"commit,omitempty"`
}

func loadFindings() []Finding {
	var f struct {
		Findings []Finding `json:"findings"`
	}
	b, err := os.ReadFile(filepath.Join(verifDir(), "known_findings.json"))
	if err != nil {
		return nil
	}
	if err := json.Unmarshal(b, &f); err != nil {
		fmt.Fprintln(os.Stderr, "known_findings.json:", err)
	}
	return f.Findings
}

func sigMatch(pattern, sig string) bool {
	if strings.HasSuffix(pattern, "*") {
		return strings.HasPrefix(sig, strings.TrimSuffix(pattern, "*"))
	}
	return pattern == sig
}

func finish(a *Agg, n int, start time.Time) int {
	p := a.Prop
	findings := loadFindings()
	// de-duplicate by signature
	bySig := map[string][]Violation{}
	var sigs []string
	for _, v := range a.Violations {
		if _, ok := bySig[v.Sig]; !ok {
			sigs = append(sigs, v.Sig)
		}
		bySig[v.Sig] = append(bySig[v.Sig], v)
	}
	sort.Strings(sigs)
	os.MkdirAll(filepath.Join(verifDir(), "replays"), 0o755)
	// replay files of earlier runs of this property are stale (case indices
	// belong to the workload version that wrote them)
	if old, _ := filepath.Glob(filepath.Join(verifDir(), "replays", p.ID+"-*.json")); len(old) > 0 {
		for _, f := range old {
			os.Remove(f)
		}
	}
	nviol := 0
	var knownLines, violLines []string
	for _, sig := range sigs {
		vs := bySig[sig]
		sort.Slice(vs, func(i, j int) bool { return vs[i].Index < vs[j].Index })
		v := vs[0]
		known := false
		for _, f := range findings {
			if f.Property == p.ID && f.Status == "known" && sigMatch(f.Signature, sig) {
				known = true
				knownLines = append(knownLines, fmt.Sprintf("KNOWN-FINDING: property=%s %s [signature %q, seen %d time(s) in this run]", p.ID, f.What, sig, len(vs)))
				break
			}
		}
		if known {
			continue
		}
		nviol++
		if nviol > 20 {
			continue
		}
		path := filepath.Join(verifDir(), "replays", fmt.Sprintf("%s-%08x.json", p.ID, uint32(Hash64(sig))))
		b, _ := json.MarshalIndent(v, "", "  ")
		os.WriteFile(path, b, 0o644)
		fmt.Printf("violation signature: %s\n  what: %s\n  case index %d (seed %d, tier %s)\n", sig, v.What, v.Index, v.Seed, v.Tier)
		if d, err := json.MarshalIndent(v.Detail, "  ", "  "); err == nil {
			fmt.Printf("  detail: %s\n", head(string(d), 3000))
		}
		violLines = append(violLines, fmt.Sprintf("VIOLATION property=%s replay=%s", p.ID, path))
	}
	if nviol > 20 {
		fmt.Printf("... and %d more distinct violation signatures (not listed)\n", nviol-20)
	}
	// reach conditions
	var missing []string
	if p.Required != nil {
		for _, k := range p.Required(a.Tier) {
			if a.Counters[k] <= 0 {
				missing = append(missing, k)
			}
		}
	}
	if len(missing) > 0 {
		a.Inconcl = append(a.Inconcl, "monitors/cells never reached: "+strings.Join(missing, ","))
	}
	if a.Counters["cases"] < int64(n) && nviol == 0 {
		a.Inconcl = append(a.Inconcl, fmt.Sprintf("only %d of %d cases completed", a.Counters["cases"], n))
	}
	verdict := "held_on_observed"
	exit := 0
	if nviol > 0 {
		verdict, exit = "violated", 1
	} else if len(a.Inconcl) > 0 {
		verdict, exit = "inconclusive", 2
	}
	// evidence
	notes := map[string][]string{}
	for k, m := range a.Notes {
		var l []string
		for s := range m {
			l = append(l, s)
		}
		sort.Strings(l)
		notes[k] = l
	}
	samples := a.Samples
	if len(samples) == 0 {
		samples = []any{"(no sample recorded)"}
	}
	evals := a.Counters["evaluations"]
	if evals == 0 {
		evals = a.Counters["cases"]
	}
	cov := map[string]any{
		"evaluations":         evals,
		"distinct_nontrivial": len(a.Distinct),
		"rule":                p.Rule,
		"samples":             samples,
		"cases":               a.Counters["cases"],
		"counters":            a.Counters,
		"observed":            notes,
		"verdict":             verdict,
		"known_findings_seen": len(knownLines),
	}
	if p.Exhaustive != nil && p.Exhaustive(a.Tier) {
		cov["exhaustive"] = true
	}
	if len(a.Inconcl) > 0 {
		cov["inconclusive_reasons"] = a.Inconcl
	}
	for k, v := range a.Extra {
		cov[k] = v
	}
	ev := map[string]any{
		"property_id": p.ID,
		"tier":        a.Tier,
		"seed":        a.Seed,
		"level":       p.Level,
		"coverage":    cov,
		"assumptions": p.Assumptions,
		"wall_s":      time.Since(start).Seconds(),
		"violations":  nviol,
	}
	b, _ := json.MarshalIndent(ev, "", " ")
	os.MkdirAll(filepath.Join(verifDir(), "evidence"), 0o755)
	if err := os.WriteFile(filepath.Join(verifDir(), "evidence", p.ID+".json"), append(b, '\n'), 0o644); err != nil {
		fmt.Println("cannot write evidence:", err)
		if exit == 0 {
			exit = 2
		}
	}
	// summary
	fmt.Printf("%s %s seed=%d: cases=%d evaluations=%d distinct_nontrivial=%d wall=%.1fs verdict=%s\n", p.ID, a.Tier, a.Seed, a.Counters["cases"], evals, len(a.Distinct), time.Since(start).Seconds(), verdict)
	var keys []string
	for k := range a.Counters {
		keys = append(keys, k)
	}
	sort.Strings(keys)
	var sb strings.Builder
	for _, k := range keys {
		fmt.Fprintf(&sb, " %s=%d", k, a.Counters[k])
	}
	fmt.Println("observed:" + head(sb.String(), 6000))
	for _, l := range knownLines {
		fmt.Println(l)
	}
	for _, r := range a.Inconcl {
		fmt.Printf("INCONCLUSIVE property=%s reason=%s\n", p.ID, r)
	}
	for _, l := range violLines {
		fmt.Println(l)
	}
	return exit
}

// Replay re-runs the single case recorded in a replay file.
func Replay(path string) int {
	b, err := os.ReadFile(path)
	if err != nil {
		fmt.Println("replay:", err)
		return 2
	}
	var v Violation
	if err := json.Unmarshal(b, &v); err != nil {
		fmt.Println("replay:", err)
		return 2
	}
	p := Registry[v.Prop]
	if p == nil {
		fmt.Println("replay: unknown property", v.Prop)
		return 2
	}
	fmt.Printf("replaying %s case %d (seed %d, tier %s), recorded signature: %s\n", v.Prop, v.Index, v.Seed, v.Tier, v.Sig)
	c := NewCtx(p.ID, v.Tier, v.Seed, nil)
	c.Verbose = true
	c.Begin(v.Index, "")
	p.Run(c, v.Index)
	res := c.Finish(v.Index, v.Index+1, true, "")
	if len(res.Violations) == 0 {
		fmt.Println("not reproduced: the case ran without violation")
		return 0
	}
	for _, x := range res.Violations {
		fmt.Printf("VIOLATION property=%s replay=%s\n", x.Prop, path)
	}
	return 1
}
