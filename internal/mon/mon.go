// Package mon is the shared runtime-monitoring infrastructure: a supervisor
// that splits a deterministic case range over worker processes, a per-case
// journal so that an unrecoverable death is attributed to the exact case,
// counters / distinct sets / samples for the evidence file, violation
// de-duplication, known-finding matching and replay files.
package mon

import (
	"encoding/binary"
	"encoding/json"
	"fmt"
	"hash/fnv"
	"math/rand"
	"os"
	"runtime/debug"
	"sort"
	"strings"
)

// Violation is one observation outside what an oracle allows.
type Violation struct {
	Prop   string         `json:"property"`
	Sig    string         `json:"signature"`
	What   string         `json:"what"`
	Index  int            `json:"index"`
	Seed   int64          `json:"seed"`
	Tier   string         `json:"tier"`
	Detail map[string]any `json:"detail,omitempty"`
}

// Result is what one worker process reports for its chunk of cases.
type Result struct {
	From       int                 `json:"from"`
	To         int                 `json:"to"`
	Counters   map[string]int64    `json:"counters"`
	Distinct   []uint64            `json:"distinct"`
	Samples    []any               `json:"samples"`
	Violations []Violation         `json:"violations"`
	Notes      map[string][]string `json:"notes"`
	HarnessErr string              `json:"harness_err,omitempty"`
	Done       bool                `json:"done"`
}

// Ctx is handed to a property's Run function.
type Ctx struct {
	Prop    string
	Tier    string
	Seed    int64
	Index   int
	Verbose bool

	res      *Result
	distinct map[uint64]struct{}
	notes    map[string]map[string]struct{}
	journal  *os.File
	nsample  int
	vsigs    map[string]int
}

const (
	maxSamples       = 6
	maxNotesPerKey   = 40
	maxViolPerSig    = 2
	maxViolPerWorker = 200
)

func NewCtx(prop, tier string, seed int64, journal *os.File) *Ctx {
	return &Ctx{Prop: prop, Tier: tier, Seed: seed, journal: journal,
		res:      &Result{Counters: map[string]int64{}, Notes: map[string][]string{}},
		distinct: map[uint64]struct{}{}, notes: map[string]map[string]struct{}{}, vsigs: map[string]int{}}
}

func Hash64(s string) uint64 {
	h := fnv.New64a()
	h.Write([]byte(s))
	return h.Sum64()
}

// RNG returns the deterministic random stream of case idx (optionally a
// sub-stream), independent of worker count and scheduling.
func (c *Ctx) RNG(idx int, sub ...int) *rand.Rand {
	s := fmt.Sprintf("%d/%s/%d", c.Seed, c.Prop, idx)
	for _, x := range sub {
		s += fmt.Sprintf("/%d", x)
	}
	return rand.New(rand.NewSource(int64(Hash64(s))))
}

// Begin journals the case index (and a short label) before the case runs.
func (c *Ctx) Begin(idx int, label string) {
	c.Index = idx
	if c.journal != nil {
		var buf [136]byte
		binary.LittleEndian.PutUint64(buf[:8], uint64(idx))
		copy(buf[8:], label)
		c.journal.WriteAt(buf[:], 0)
	}
}

// Risk re-journals the current case with a label describing what is about to
// be attempted, so that a process death can be given a precise signature.
func (c *Ctx) Risk(label string) { c.Begin(c.Index, label) }

func ReadJournal(path string) (idx int, label string, ok bool) {
	b, err := os.ReadFile(path)
	if err != nil || len(b) < 8 {
		return 0, "", false
	}
	idx = int(binary.LittleEndian.Uint64(b[:8]))
	label = strings.TrimRight(string(b[8:]), "\x00")
	return idx, label, true
}

func (c *Ctx) Count(key string) { c.res.Counters[key]++ }

// FirstViolation returns the first violation recorded so far (nil if none).
func (c *Ctx) FirstViolation() *Violation {
	if len(c.res.Violations) == 0 {
		return nil
	}
	return &c.res.Violations[0]
}

// CounterValue reads a counter of this worker.
func (c *Ctx) CounterValue(key string) int64 { return c.res.Counters[key] }

func (c *Ctx) Add(key string, n int64) { c.res.Counters[key] += n }

// Evals counts n executions of the code under test.
func (c *Ctx) Evals(n int) { c.res.Counters["evaluations"] += int64(n) }

// Distinct records the signature of a case that is non-trivial by the
// property's rule.
func (c *Ctx) Distinct(sig string) { c.distinct[Hash64(sig)] = struct{}{} }

// Note records a small set of strings under a key (e.g. visit orders seen).
func (c *Ctx) Note(key, val string) {
	m := c.notes[key]
	if m == nil {
		m = map[string]struct{}{}
		c.notes[key] = m
	}
	if len(m) < maxNotesPerKey {
		m[val] = struct{}{}
	}
}

// Sample keeps a few of the actual cases for the evidence file.
func (c *Ctx) Sample(v any) {
	c.nsample++
	if len(c.res.Samples) < maxSamples {
		c.res.Samples = append(c.res.Samples, v)
		return
	}
	// keep a spread: replace with decreasing probability, deterministically
	if c.nsample%97 == 0 {
		c.res.Samples[(c.nsample/97)%maxSamples] = v
	}
}

// Violation records an observation outside what the oracle allows.
func (c *Ctx) Violation(sig, what string, detail map[string]any) {
	c.res.Counters["violations_raw"]++
	c.vsigs[sig]++
	if c.vsigs[sig] > maxViolPerSig || len(c.res.Violations) >= maxViolPerWorker {
		return
	}
	c.res.Violations = append(c.res.Violations, Violation{Prop: c.Prop, Sig: sig, What: what, Index: c.Index, Seed: c.Seed, Tier: c.Tier, Detail: detail})
	if c.Verbose {
		b, _ := json.MarshalIndent(c.res.Violations[len(c.res.Violations)-1], "", "  ")
		fmt.Printf("violation: %s\n", b)
	}
}

func (c *Ctx) Finish(from, to int, done bool, herr string) *Result {
	c.res.From, c.res.To, c.res.Done, c.res.HarnessErr = from, to, done, herr
	c.res.Distinct = c.res.Distinct[:0]
	for h := range c.distinct {
		c.res.Distinct = append(c.res.Distinct, h)
	}
	for k, m := range c.notes {
		var l []string
		for s := range m {
			l = append(l, s)
		}
		sort.Strings(l)
		c.res.Notes[k] = l
	}
	return c.res
}

// Outcome of a call into the code under test.
type Outcome struct {
	Panic    bool
	PanicVal string
	Stack    string
}

// Try runs f and converts a panic into an observation.
func Try(f func()) (o Outcome) {
	defer func() {
		if r := recover(); r != nil {
			o.Panic = true
			o.PanicVal = fmt.Sprint(r)
			o.Stack = string(debug.Stack())
		}
	}()
	f()
	return
}

// PanicSite extracts a stable description of where a recovered panic came
// from: the first frames of the stack inside go-bexpr (or reflect).
func PanicSite(stack string) string {
	lines := strings.Split(stack, "\n")
	var frames []string
	seenPanic := false
	for _, l := range lines {
		l = strings.TrimSpace(l)
		if strings.HasPrefix(l, "panic(") {
			seenPanic = true
			continue
		}
		if !seenPanic || strings.HasPrefix(l, "/") || l == "" {
			continue
		}
		if i := strings.LastIndex(l, "("); i > 0 {
			l = l[:i]
		}
		if strings.Contains(l, "verif/") || strings.HasPrefix(l, "main.") {
			break
		}
		if strings.HasPrefix(l, "runtime.") {
			continue
		}
		l = strings.TrimPrefix(l, "github.com/hashicorp/go-bexpr")
		frames = append(frames, l)
		if len(frames) >= 3 {
			break
		}
	}
	return strings.Join(frames, "<")
}
