package pegexec

import (
	"math/rand"
	"sort"
	"strings"
	"unicode"
	"unicode/utf8"

	"verif/internal/pegread"
)

// Gen produces inputs from the grammar itself: random derivations that read
// the PEG as a context-free grammar (predicates are ignored, so a derivation
// is not necessarily accepted), plus the runes that sit on the boundaries of
// every character class, range and literal the grammar mentions.
type Gen struct {
	G      *pegread.Grammar
	rules  map[string]*pegread.Rule
	height map[*pegread.Node]int
	rh     map[string]int
	// Runes: boundary runes of every matcher of the grammar
	Runes []rune
	// members[class] / outsiders[class]
	members map[*pegread.Node][]rune
}

const inf = 1 << 30

func NewGen(g *pegread.Grammar) *Gen {
	x := &Gen{G: g, rules: map[string]*pegread.Rule{}, height: map[*pegread.Node]int{}, rh: map[string]int{}, members: map[*pegread.Node][]rune{}}
	for _, r := range g.Rules {
		x.rules[r.Name] = r
		x.rh[r.Name] = inf
	}
	// least derivation height of every rule, by fixpoint
	for changed := true; changed; {
		changed = false
		for _, r := range g.Rules {
			h := x.h(r.Expr)
			if h < x.rh[r.Name] {
				x.rh[r.Name] = h
				changed = true
			}
		}
	}
	for _, r := range g.Rules {
		x.fill(r.Expr)
	}
	set := map[rune]bool{}
	add := func(rs ...rune) {
		for _, c := range rs {
			if c >= 0 && c <= unicode.MaxRune && !(c >= 0xD800 && c <= 0xDFFF) {
				set[c] = true
			}
		}
	}
	var walk func(n *pegread.Node)
	walk = func(n *pegread.Node) {
		switch n.Kind {
		case "lit":
			for _, c := range n.Val {
				add(c, unicode.ToUpper(c), unicode.ToLower(c), c-1, c+1)
			}
		case "class":
			for _, c := range n.Chars {
				add(c, c-1, c+1, unicode.ToUpper(c))
			}
			for _, c := range n.Ranges {
				add(c, c-1, c+1, unicode.ToUpper(c))
			}
			for _, name := range n.Classes {
				if t := Table(name); t != nil {
					ms, os := classSamples(t)
					add(ms...)
					add(os...)
					x.members[n] = append(x.members[n], ms...)
				}
			}
		}
		for _, k := range n.Kids {
			walk(k)
		}
	}
	for _, r := range g.Rules {
		walk(r.Expr)
	}
	add(0, '\t', '\n', '\v', '\f', '\r', ' ', 0x1c, 0x1f, 0x1680, 0x2000, 0x200a, 0x202f, 0x205f, 0x3000, 0x7f, 0x80, 0x85, 0xa0, 0xff, 0x100, 0x17f, 0x212a, 0x2028, 0x2029, 0xfeff, 0xfffd, 0xfffe, 0xffff, 0x10000, 0x1d7d8, 0x10ffff)
	for c := range set {
		x.Runes = append(x.Runes, c)
	}
	sort.Slice(x.Runes, func(i, j int) bool { return x.Runes[i] < x.Runes[j] })
	return x
}

// classSamples picks members of a Unicode table (first / last of ranges in
// ASCII, Latin-1, the BMP and beyond, and every Latin-1 member) and
// neighbouring non-members.
func classSamples(t *unicode.RangeTable) (members, outsiders []rune) {
	for c := rune(0x80); c <= 0xff; c++ {
		if unicode.Is(t, c) {
			members = append(members, c)
		} else if unicode.Is(t, c-1) || unicode.Is(t, c+1) {
			outsiders = append(outsiders, c)
		}
	}
	pick := func(lo, hi rune) {
		members = append(members, lo, hi)
		for _, c := range []rune{lo - 1, hi + 1} {
			if c >= 0 && !unicode.Is(t, c) {
				outsiders = append(outsiders, c)
			}
		}
	}
	n16 := len(t.R16)
	for i, r := range t.R16 {
		if i < 3 || i >= n16-2 || i%37 == 0 {
			pick(rune(r.Lo), rune(r.Hi))
		}
	}
	n32 := len(t.R32)
	for i, r := range t.R32 {
		if i < 2 || i >= n32-1 || i%53 == 0 {
			pick(rune(r.Lo), rune(r.Hi))
		}
	}
	return
}

func (x *Gen) h(n *pegread.Node) int {
	switch n.Kind {
	case "choice":
		best := inf
		for _, k := range n.Kids {
			if v := x.h(k); v < best {
				best = v
			}
		}
		return best
	case "seq":
		worst := 0
		for _, k := range n.Kids {
			v := x.h(k)
			if v >= inf {
				return inf
			}
			if v > worst {
				worst = v
			}
		}
		return worst
	case "action", "labeled", "oneormore":
		return x.h(n.Kids[0])
	case "ruleref":
		v := x.rh[n.Name]
		if v >= inf {
			return inf
		}
		return v + 1
	}
	return 0
}

func (x *Gen) fill(n *pegread.Node) {
	x.height[n] = x.h(n)
	for _, k := range n.Kids {
		x.fill(k)
	}
}

func (x *Gen) RuleNames() []string {
	var l []string
	for _, r := range x.G.Rules {
		l = append(l, r.Name)
	}
	return l
}

// Sentence derives a string from rule (budget bounds the derivation height).
func (x *Gen) Sentence(rng *rand.Rand, rule string, budget int) string {
	var sb strings.Builder
	r := x.rules[rule]
	if r == nil {
		return ""
	}
	x.gen(rng, &sb, r.Expr, budget)
	return sb.String()
}

func (x *Gen) rune(rng *rand.Rand) rune { return x.Runes[rng.Intn(len(x.Runes))] }

func (x *Gen) gen(rng *rand.Rand, sb *strings.Builder, n *pegread.Node, budget int) {
	if sb.Len() > 600 {
		budget = 0
	}
	switch n.Kind {
	case "choice":
		var ok []*pegread.Node
		for _, k := range n.Kids {
			if x.height[k] <= budget {
				ok = append(ok, k)
			}
		}
		if len(ok) == 0 {
			best := n.Kids[0]
			for _, k := range n.Kids {
				if x.height[k] < x.height[best] {
					best = k
				}
			}
			ok = []*pegread.Node{best}
		}
		x.gen(rng, sb, ok[rng.Intn(len(ok))], budget)
	case "seq":
		for _, k := range n.Kids {
			x.gen(rng, sb, k, budget)
		}
	case "action", "labeled":
		x.gen(rng, sb, n.Kids[0], budget)
	case "ruleref":
		if r := x.rules[n.Name]; r != nil {
			x.gen(rng, sb, r.Expr, budget-1)
		}
	case "lit":
		for _, c := range n.Val {
			if n.IgnoreCase && rng.Intn(2) == 0 {
				c = unicode.ToUpper(c)
			}
			sb.WriteRune(c)
		}
	case "class":
		sb.WriteRune(x.classRune(rng, n))
	case "any":
		sb.WriteRune(x.rune(rng))
	case "zeroorone":
		if rng.Intn(2) == 0 && x.height[n.Kids[0]] <= budget {
			x.gen(rng, sb, n.Kids[0], budget)
		}
	case "zeroormore", "oneormore":
		k := 0
		if n.Kind == "oneormore" {
			k = 1
		}
		if x.height[n.Kids[0]] <= budget {
			for rng.Intn(5) < 2 && k < 6 {
				k++
			}
		}
		for i := 0; i < k; i++ {
			x.gen(rng, sb, n.Kids[0], budget)
		}
	}
}

func inClassNode(n *pegread.Node, c rune) bool {
	if n.IgnoreCase {
		c = unicode.ToLower(c)
	}
	for _, v := range n.Chars {
		if v == c {
			return true
		}
	}
	for i := 0; i+1 < len(n.Ranges); i += 2 {
		if c >= n.Ranges[i] && c <= n.Ranges[i+1] {
			return true
		}
	}
	for _, name := range n.Classes {
		if t := Table(name); t != nil && unicode.Is(t, c) {
			return true
		}
	}
	return false
}

func (x *Gen) classRune(rng *rand.Rand, n *pegread.Node) rune {
	if n.Inverted {
		for i := 0; i < 30; i++ {
			c := x.rune(rng)
			if !inClassNode(n, c) {
				return c
			}
		}
		return 'q'
	}
	var cands []rune
	cands = append(cands, n.Chars...)
	for i := 0; i+1 < len(n.Ranges); i += 2 {
		lo, hi := n.Ranges[i], n.Ranges[i+1]
		cands = append(cands, lo, hi, lo+rune(rng.Intn(int(hi-lo)+1)))
	}
	if ms := x.members[n]; len(ms) > 0 {
		// Unicode classes: mostly ASCII members, sometimes any sampled member
		for k := 0; k < 3; k++ {
			cands = append(cands, ms[rng.Intn(len(ms))])
		}
		for c := rune('0'); c <= 'z'; c++ {
			if inClassNode(n, c) && rng.Intn(6) == 0 {
				cands = append(cands, c)
			}
		}
	}
	if len(cands) == 0 {
		return x.rune(rng)
	}
	c := cands[rng.Intn(len(cands))]
	if n.IgnoreCase && rng.Intn(2) == 0 {
		c = unicode.ToUpper(c)
	}
	return c
}

// Mutate applies k random edits (replace / insert / delete a rune with a
// boundary rune, splice a raw byte, duplicate or drop a span).
func (x *Gen) Mutate(rng *rand.Rand, s string, k int) string {
	b := []byte(s)
	for ; k > 0; k-- {
		if len(b) == 0 {
			b = append(b, string(x.rune(rng))...)
			continue
		}
		i := rng.Intn(len(b))
		for i > 0 && !utf8.RuneStart(b[i]) {
			i--
		}
		_, w := utf8.DecodeRune(b[i:])
		switch rng.Intn(7) {
		case 0, 1:
			b = append(b[:i], append([]byte(string(x.rune(rng))), b[i+w:]...)...)
		case 2, 3:
			b = append(b[:i], append([]byte(string(x.rune(rng))), b[i:]...)...)
		case 4:
			b = append(b[:i], b[i+w:]...)
		case 5:
			raw := []byte{0x80, 0xbf, 0xc0, 0xc3, 0xe2, 0xed, 0xf0, 0xf4, 0xff}[rng.Intn(9)]
			b = append(b[:i], append([]byte{raw}, b[i:]...)...)
		case 6:
			j := i + rng.Intn(len(b)-i+1)
			if rng.Intn(2) == 0 {
				b = append(b[:i], b[j:]...)
			} else if j-i < 64 {
				b = append(b[:j], append(append([]byte(nil), b[i:j]...), b[j:]...)...)
			}
		}
	}
	return string(b)
}
