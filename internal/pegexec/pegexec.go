// Package pegexec interprets a pigeon grammar, as read from grammar.peg by
// package pegread, directly on an input: ordered choice, sequences, greedy
// repetition, syntactic and code predicates, labels with pigeon's variable
// frames, and actions delegated to a callback (for C20: the code blocks of
// grammar.peg compiled at check time). It is written from the PEG definition
// and pigeon's documented value conventions and shares no code with the
// generated parser, so that "what grammar.peg says about this input" can be
// compared with what the shipped parser does with it.
package pegexec

import (
	"fmt"
	"unicode"
	"unicode/utf8"

	"verif/internal/pegread"
)

// ActionFunc runs the code block of an action or code predicate. key is
// <Rule><pre-order index>. For code predicates the value is a bool.
type ActionFunc func(key string, text []byte, labels map[string]any) (any, error)

// ErrRec is an error the grammar's semantics put on record for an input.
type ErrRec struct {
	Kind   string // "code" (returned by a code block), "encoding", "panic"
	Offset int
	Rule   string
	Msg    string
}

type Result struct {
	Val     any
	Matched bool
	Errs    []ErrRec
	Steps   uint64
	Aborted string // non-empty: the interpreter gave up (step / depth budget)
	End     int
}

// Accepted says whether a parser that implements the grammar returns no error.
func (r *Result) Accepted() bool { return r.Aborted == "" && r.Matched && len(r.Errs) == 0 }

type Machine struct {
	G        *pegread.Grammar
	Act      ActionFunc
	rules    map[string]*pegread.Rule
	tables   map[string]*unicode.RangeTable
	MaxSteps uint64
	MaxDepth int
	// Cover[node] = {times matched, times failed}
	Cover map[*pegread.Node]*[2]int64
}

func New(g *pegread.Grammar, act ActionFunc) *Machine {
	m := &Machine{G: g, Act: act, rules: map[string]*pegread.Rule{}, tables: map[string]*unicode.RangeTable{}, MaxSteps: 20_000_000, MaxDepth: 20000, Cover: map[*pegread.Node]*[2]int64{}}
	for _, r := range g.Rules {
		m.rules[r.Name] = r
	}
	return m
}

// Table resolves a Unicode class name the way pigeon does.
func Table(name string) *unicode.RangeTable {
	if t, ok := unicode.Categories[name]; ok {
		return t
	}
	if t, ok := unicode.Properties[name]; ok {
		return t
	}
	if t, ok := unicode.Scripts[name]; ok {
		return t
	}
	return nil
}

type abort struct{ why string }
type actionPanic struct{ val any }

type run struct {
	m      *Machine
	data   []byte
	pos    int
	frames []map[string]any
	rstack []*pegread.Rule
	errs   []ErrRec
	seen   map[string]bool
	steps  uint64
	depth  int
}

func (r *run) addErr(kind string, off int, msg string) {
	rule := ""
	if len(r.rstack) > 0 {
		rl := r.rstack[len(r.rstack)-1]
		rule = rl.Name
		if rl.DisplayName != "" {
			rule = rl.DisplayName
		}
	}
	k := fmt.Sprintf("%s/%d/%s/%s", kind, off, rule, msg)
	if r.seen[k] {
		return
	}
	r.seen[k] = true
	r.errs = append(r.errs, ErrRec{Kind: kind, Offset: off, Rule: rule, Msg: msg})
}

// arrive is called whenever the input position is (re)entered by consuming a
// character: a byte that is not the start of a valid encoding is an error of
// the input, whatever the grammar goes on to do with it.
func (r *run) arrive() {
	if r.pos < len(r.data) {
		if rn, w := utf8.DecodeRune(r.data[r.pos:]); rn == utf8.RuneError && w == 1 {
			r.addErr("encoding", r.pos, "invalid encoding")
		}
	}
}

func (r *run) cur() (rune, int) {
	if r.pos >= len(r.data) {
		return utf8.RuneError, 0
	}
	return utf8.DecodeRune(r.data[r.pos:])
}

func (r *run) push() { r.frames = append(r.frames, map[string]any{}) }
func (r *run) pop()  { r.frames = r.frames[:len(r.frames)-1] }

// Run interprets the grammar on data, starting at rule entry ("" = the first
// rule).
func (m *Machine) Run(entry string, data []byte) (res Result) {
	if entry == "" {
		entry = m.G.Rules[0].Name
	}
	r := &run{m: m, data: data, seen: map[string]bool{}}
	defer func() {
		if x := recover(); x != nil {
			switch x := x.(type) {
			case abort:
				res = Result{Aborted: x.why, Steps: r.steps}
			case actionPanic:
				msg := fmt.Sprintf("%v", x.val)
				if e, ok := x.val.(error); ok {
					msg = e.Error()
				}
				r.addErr("panic", r.pos, msg)
				res = Result{Val: nil, Matched: false, Errs: r.errs, Steps: r.steps, End: r.pos}
			default:
				panic(x)
			}
		}
	}()
	rule := m.rules[entry]
	if rule == nil {
		return Result{Aborted: "no such rule " + entry}
	}
	r.arrive()
	v, ok := r.rule(rule)
	if !ok {
		v = nil
	}
	return Result{Val: v, Matched: ok, Errs: r.errs, Steps: r.steps, End: r.pos}
}

func (r *run) rule(rl *pegread.Rule) (any, bool) {
	r.rstack = append(r.rstack, rl)
	r.push()
	v, ok := r.expr(rl.Expr)
	r.pop()
	r.rstack = r.rstack[:len(r.rstack)-1]
	return v, ok
}

func (r *run) call(n *pegread.Node, text []byte) (v any, err error) {
	key := fmt.Sprintf("%s%d", r.rstack[len(r.rstack)-1].Name, n.Index)
	labels := r.frames[len(r.frames)-1]
	defer func() {
		if x := recover(); x != nil {
			panic(actionPanic{x})
		}
	}()
	return r.m.Act(key, text, labels)
}

func (r *run) expr(n *pegread.Node) (v any, ok bool) {
	r.steps++
	if r.steps > r.m.MaxSteps {
		panic(abort{"step budget"})
	}
	r.depth++
	if r.depth > r.m.MaxDepth {
		panic(abort{"depth budget"})
	}
	v, ok = r.expr1(n)
	r.depth--
	cv := r.m.Cover[n]
	if cv == nil {
		cv = &[2]int64{}
		r.m.Cover[n] = cv
	}
	if ok {
		cv[0]++
	} else {
		cv[1]++
	}
	return
}

func (r *run) consume(w int) []byte {
	st := r.pos
	r.pos += w
	r.arrive()
	return r.data[st:r.pos]
}

func (r *run) expr1(n *pegread.Node) (any, bool) {
	switch n.Kind {
	case "choice":
		for _, k := range n.Kids {
			r.push()
			v, ok := r.expr(k)
			r.pop()
			if ok {
				return v, true
			}
		}
		return nil, false
	case "seq":
		st := r.pos
		vals := make([]any, 0, len(n.Kids))
		for _, k := range n.Kids {
			v, ok := r.expr(k)
			if !ok {
				r.pos = st
				return nil, false
			}
			vals = append(vals, v)
		}
		return vals, true
	case "action":
		st := r.pos
		v, ok := r.expr(n.Kids[0])
		if !ok {
			return v, false
		}
		av, err := r.call(n, r.data[st:r.pos])
		if err != nil {
			r.addErr("code", st, err.Error())
		}
		return av, true
	case "labeled":
		r.push()
		v, ok := r.expr(n.Kids[0])
		r.pop()
		if ok && n.Label != "" {
			r.frames[len(r.frames)-1][n.Label] = v
		}
		return v, ok
	case "ruleref":
		rl := r.m.rules[n.Name]
		if rl == nil {
			panic(abort{"undefined rule " + n.Name})
		}
		return r.rule(rl)
	case "lit":
		st := r.pos
		for _, want := range n.Val {
			c, w := r.cur()
			if n.IgnoreCase {
				c = unicode.ToLower(c)
			}
			if c != want || w == 0 && want != utf8.RuneError {
				r.pos = st
				return nil, false
			}
			if w == 0 {
				// a literal U+FFFD cannot match the end of input
				r.pos = st
				return nil, false
			}
			r.consume(w)
		}
		return r.data[st:r.pos], true
	case "class":
		c, w := r.cur()
		if w == 0 {
			return nil, false
		}
		if n.IgnoreCase {
			c = unicode.ToLower(c)
		}
		in := false
		for _, x := range n.Chars {
			if x == c {
				in = true
			}
		}
		for i := 0; i+1 < len(n.Ranges); i += 2 {
			if c >= n.Ranges[i] && c <= n.Ranges[i+1] {
				in = true
			}
		}
		for _, name := range n.Classes {
			t := r.m.tables[name]
			if t == nil {
				t = Table(name)
				if t == nil {
					panic(abort{"unknown Unicode class " + name})
				}
				r.m.tables[name] = t
			}
			if unicode.Is(t, c) {
				in = true
			}
		}
		if in == n.Inverted {
			return nil, false
		}
		return r.consume(w), true
	case "any":
		_, w := r.cur()
		if w == 0 {
			return nil, false
		}
		return r.consume(w), true
	case "and", "not":
		st := r.pos
		r.push()
		_, ok := r.expr(n.Kids[0])
		r.pop()
		r.pos = st
		if n.Kind == "not" {
			ok = !ok
		}
		return nil, ok
	case "andcode", "notcode":
		v, err := r.call(n, nil)
		if err != nil {
			r.addErr("code", r.pos, err.Error())
		}
		b, _ := v.(bool)
		if n.Kind == "notcode" {
			b = !b
		}
		return nil, b
	case "zeroorone":
		r.push()
		v, ok := r.expr(n.Kids[0])
		r.pop()
		if !ok {
			v = nil
		}
		return v, true
	case "zeroormore", "oneormore":
		var vals []any
		for {
			st := r.pos
			r.push()
			v, ok := r.expr(n.Kids[0])
			r.pop()
			if !ok {
				break
			}
			vals = append(vals, v)
			if r.pos == st && len(vals) > 1_000_000 {
				panic(abort{"repetition of an expression that consumes nothing"})
			}
		}
		if n.Kind == "oneormore" && len(vals) == 0 {
			return nil, false
		}
		return vals, true
	}
	panic(abort{"unknown node kind " + n.Kind})
}
