package univ

import "math"

// ZooEntry is one named value shape of the deterministic matrix.
type ZooEntry struct {
	Name string
	N    *Node
}

// Zoo lists one value of every shape the reference semantics distinguish:
// the 14 scalar kinds, named types, json.Number, nil, pointers (levels, nil),
// typed and interface slices / arrays (with nil and odd elements), string and
// non-string keyed maps, structs with tags.
func Zoo() []ZooEntry {
	var z []ZooEntry
	add := func(name string, n *Node) { z = append(z, ZooEntry{name, n}) }
	add("bool", Bool(true))
	for _, t := range []*Type{TInt, TInt8, TInt16, TInt32, TInt64} {
		add(t.K.String(), IntOf(t, 5))
	}
	add("int8-min", IntOf(TInt8, math.MinInt8))
	add("int64-max", IntOf(TInt64, math.MaxInt64))
	add("int64-2^53+1", IntOf(TInt64, 1<<53+1))
	for _, t := range []*Type{TUint, TUint8, TUint16, TUint32, TUint64} {
		add(t.K.String(), UintOf(t, 5))
	}
	add("uint64-max", UintOf(TUint64, math.MaxUint64))
	add("float32", FloatOf(TFloat32, 1.5))
	add("float32-inexact", FloatOf(TFloat32, 0.1))
	add("float64", Float(1.5))
	add("float64-int-valued", Float(5))
	add("float64-zero", Float(0))
	add("string", Str("abc"))
	add("string-empty", Str(""))
	add("string-number-like", Str("5"))
	add("string-slash", Str("/usr/bin"))
	for _, t := range NamedScalarTypes {
		switch {
		case t.K == KBool:
			add("named:"+t.Named, &Node{T: t, B: true})
		case t.K.IsInt():
			add("named:"+t.Named, IntOf(t, 5))
		case t.K.IsUint():
			add("named:"+t.Named, UintOf(t, 5))
		case t.K.IsFloat():
			add("named:"+t.Named, FloatOf(t, 1.5))
		default:
			add("named:"+t.Named, StrOf(t, "abc"))
		}
	}
	add("json.Number-int", JSONNum("5"))
	add("json.Number-float", JSONNum("1.5"))
	add("json.Number-exp", JSONNum("1e2"))
	add("json.Number-huge-int", JSONNum("99999999999999999999"))
	add("json.Number-bad", JSONNum("abc"))
	add("nil", NilIface())
	add("*int", Ptr(Int(5)))
	add("**int", Ptr(Ptr(Int(5))))
	add("nil-*int", NilPtr(TInt))
	add("*string", Ptr(Str("abc")))
	add("*json.Number", Ptr(JSONNum("5")))
	add("*[]int", Ptr(Slice(SliceOf(TInt), Int(5), Int(7))))
	add("*map", Ptr(MapNode(MapOf(TString, TInt), []*Node{Str("abc")}, []*Node{Int(5)})))
	add("[]int", Slice(SliceOf(TInt), Int(5), Int(7)))
	add("[]int8", Slice(SliceOf(TInt8), IntOf(TInt8, 5)))
	add("[]uint16", Slice(SliceOf(TUint16), UintOf(TUint16, 5)))
	add("[]string", Slice(SliceOf(TString), Str("abc"), Str("x")))
	add("[]float64", Slice(SliceOf(TFloat64), Float(1.5), Float(5)))
	add("[]float32", Slice(SliceOf(TFloat32), FloatOf(TFloat32, 1.5)))
	add("[]bool", Slice(SliceOf(TBool), Bool(true)))
	add("[]byte", Slice(SliceOf(TUint8), UintOf(TUint8, 'a'), UintOf(TUint8, 'b'), UintOf(TUint8, 'c')))
	add("NBytes", &Node{T: NamedType("NBytes"), Items: []*Node{UintOf(TUint8, 'a'), UintOf(TUint8, 'b'), UintOf(TUint8, 'c')}})
	// slices whose element type is a NAMED uint8 (not convertible to []byte), int8, uint16 "bytes"
	add("[]NUint8", Slice(SliceOf(NamedType("NUint8")), UintOf(NamedType("NUint8"), 'a'), UintOf(NamedType("NUint8"), 'b'), UintOf(NamedType("NUint8"), 'c')))
	add("[]int8-as-text", Slice(SliceOf(TInt8), IntOf(TInt8, 'a'), IntOf(TInt8, 'b')))
	add("[]uint16-as-text", Slice(SliceOf(TUint16), UintOf(TUint16, 'a'), UintOf(TUint16, 'b')))
	add("[3]NUint8", &Node{T: ArrayOf(3, NamedType("NUint8")), Items: []*Node{UintOf(NamedType("NUint8"), 'a'), UintOf(NamedType("NUint8"), 'b'), UintOf(NamedType("NUint8"), 'c')}})
	add("NStrSlice", &Node{T: NamedType("NStrSlice"), Items: []*Node{Str("abc")}})
	add("NIntSlice", &Node{T: NamedType("NIntSlice"), Items: []*Node{Int(5)}})
	add("[]NString", Slice(SliceOf(NamedScalarTypes[9]), StrOf(NamedScalarTypes[9], "abc")))
	add("[]json.Number", Slice(SliceOf(TJSONNum), JSONNum("5")))
	add("[3]int", &Node{T: ArrayOf(3, TInt), Items: []*Node{Int(5), Int(7), Int(9)}})
	add("[0]string", &Node{T: ArrayOf(0, TString)})
	add("[2]byte", &Node{T: ArrayOf(2, TUint8), Items: []*Node{UintOf(TUint8, 'a'), UintOf(TUint8, 'b')}})
	add("[]interface{}-mixed", IfaceSlice(Int(5), Str("abc"), NilIface(), Float(1.5), Bool(true)))
	add("[]interface{}-ints", IfaceSlice(Float(5), Float(7)))
	add("[]interface{}-nested-first", IfaceSlice(IfaceSlice(Int(5)), Int(5)))
	add("[]interface{}-nested-last", IfaceSlice(Int(5), IfaceMap("a", Int(1))))
	add("[]interface{}-empty", IfaceSlice())
	add("[]interface{}-nil", NilOf(SliceOf(TIface)))
	add("[]interface{}-ptrs", IfaceSlice(Ptr(Int(5)), NilPtr(TInt), Ptr(Ptr(Str("abc")))))
	add("NIfaceSlice", &Node{T: NamedType("NIfaceSlice"), Items: []*Node{Iface(Int(5)), Iface(Str("abc"))}})
	add("[]*int-with-nil", Slice(SliceOf(PtrTo(TInt)), Ptr(Int(5)), NilPtr(TInt)))
	add("[]**int", Slice(SliceOf(PtrTo(PtrTo(TInt))), Ptr(Ptr(Int(5)))))
	add("[]*string", Slice(SliceOf(PtrTo(TString)), Ptr(Str("abc"))))
	add("[][]int", Slice(SliceOf(SliceOf(TInt)), Slice(SliceOf(TInt), Int(5))))
	st := StructOf(Field{Name: "A", Type: TInt}, Field{Name: "B", Tag: `bexpr:"abc"`, Type: TString}, Field{Name: "hidden", Type: TString, Unexported: true}, Field{Name: "H", Tag: `bexpr:"-"`, Type: TInt})
	sv := Struct(st, Int(5), Str("abc"), Str("h"), Int(1))
	add("[]struct", Slice(SliceOf(st), sv))
	add("struct", sv)
	add("*struct", Ptr(sv))
	add("nil-*struct", NilPtr(st))
	add("struct-empty", Struct(StructOf()))
	add("map[string]int", MapNode(MapOf(TString, TInt), []*Node{Str("abc"), Str("5")}, []*Node{Int(5), Int(7)}))
	add("map[string]string", MapNode(MapOf(TString, TString), []*Node{Str("abc")}, []*Node{Str("x")}))
	add("NStrMap", &Node{T: NamedType("NStrMap"), Keys: []*Node{Str("abc")}, Items: []*Node{Str("x")}})
	add("map[string]interface{}", IfaceMap("abc", Int(5), "5", NilIface(), "l", IfaceSlice(Int(5))))
	add("NMap", &Node{T: NamedType("NMap"), Keys: []*Node{Str("abc")}, Items: []*Node{Iface(Int(5))}})
	add("map-empty", IfaceMap())
	add("map-nil", NilOf(MapOf(TString, TInt)))
	add("map[NString]int", MapNode(MapOf(NamedScalarTypes[9], TInt), []*Node{StrOf(NamedScalarTypes[9], "abc")}, []*Node{Int(5)}))
	add("map[int]string", MapNode(MapOf(TInt, TString), []*Node{Int(5), Int(7)}, []*Node{Str("abc"), Str("x")}))
	add("map[int8]string", MapNode(MapOf(TInt8, TString), []*Node{IntOf(TInt8, 5)}, []*Node{Str("abc")}))
	add("map[uint]string", MapNode(MapOf(TUint, TString), []*Node{UintOf(TUint, 5)}, []*Node{Str("abc")}))
	add("map[bool]int", MapNode(MapOf(TBool, TInt), []*Node{Bool(true)}, []*Node{Int(5)}))
	add("map[float64]int", MapNode(MapOf(TFloat64, TInt), []*Node{Float(1.5), Float(5)}, []*Node{Int(5), Int(7)}))
	add("map[interface{}]int", MapNode(MapOf(TIface, TInt), []*Node{Iface(Str("abc")), Iface(Int(5)), Iface(StrOf(NamedScalarTypes[9], "x"))}, []*Node{Int(5), Int(7), Int(9)}))
	add("map[int]string-empty", MapNode(MapOf(TInt, TString), nil, nil))
	add("map[bool]int-nil", NilOf(MapOf(TBool, TInt)))
	add("map[interface{}]int-empty", MapNode(MapOf(TIface, TInt), nil, nil))
	add("[]int-empty", Slice(SliceOf(TInt)))
	add("[]string-nil", NilOf(SliceOf(TString)))
	add("map[string][]int", MapNode(MapOf(TString, SliceOf(TInt)), []*Node{Str("abc")}, []*Node{Slice(SliceOf(TInt), Int(5))}))
	add("map[string]struct", MapNode(MapOf(TString, st), []*Node{Str("abc")}, []*Node{sv}))
	// unusual but legal shapes
	add("[2][2]int", &Node{T: ArrayOf(2, ArrayOf(2, TInt)), Items: []*Node{{T: ArrayOf(2, TInt), Items: []*Node{Int(5), Int(7)}}, {T: ArrayOf(2, TInt), Items: []*Node{Int(9), Int(5)}}}})
	add("[][]string", Slice(SliceOf(SliceOf(TString)), Slice(SliceOf(TString), Str("abc")), NilOf(SliceOf(TString))))
	add("map[string]map[string]int", MapNode(MapOf(TString, MapOf(TString, TInt)), []*Node{Str("abc"), Str("0")}, []*Node{MapNode(MapOf(TString, TInt), []*Node{Str("abc")}, []*Node{Int(5)}), NilOf(MapOf(TString, TInt))}))
	add("map[string]map[int]string", MapNode(MapOf(TString, MapOf(TInt, TString)), []*Node{Str("abc")}, []*Node{MapNode(MapOf(TInt, TString), []*Node{Int(5)}, []*Node{Str("abc")})}))
	add("[]map[string]int", Slice(SliceOf(MapOf(TString, TInt)), MapNode(MapOf(TString, TInt), []*Node{Str("abc")}, []*Node{Int(5)}), NilOf(MapOf(TString, TInt))))
	add("interface-holding-**int", Iface(Ptr(Ptr(Int(5)))))
	add("interface-holding-*[]int", Iface(Ptr(Slice(SliceOf(TInt), Int(5)))))
	add("*[2]int", Ptr(&Node{T: ArrayOf(2, TInt), Items: []*Node{Int(5), Int(7)}}))
	add("***string", Ptr(Ptr(Ptr(Str("abc")))))
	add("[]*[]int", Slice(SliceOf(PtrTo(SliceOf(TInt))), Ptr(Slice(SliceOf(TInt), Int(5)))))
	add("map[string]*int", MapNode(MapOf(TString, PtrTo(TInt)), []*Node{Str("abc"), Str("5")}, []*Node{Ptr(Int(5)), NilPtr(TInt)}))
	add("map[string]**int", MapNode(MapOf(TString, PtrTo(PtrTo(TInt))), []*Node{Str("abc")}, []*Node{Ptr(Ptr(Int(5)))}))
	base := StructOf(Field{Name: "A", Type: TInt}, Field{Name: "Abc", Tag: `bexpr:"abc"`, Type: TString})
	add("struct-embedded", Struct(StructOf(Field{Name: "Base", Type: base, Embedded: true}, Field{Name: "X", Type: TInt}), Struct(base, Int(5), Str("abc")), Int(5)))
	add("struct-embedded-ptr", Struct(StructOf(Field{Name: "Base", Type: PtrTo(base), Embedded: true}, Field{Name: "A", Type: TString}), Ptr(Struct(base, Int(5), Str("abc"))), Str("abc")))
	add("struct-tag-collision", Struct(StructOf(Field{Name: "A", Tag: `bexpr:"B"`, Type: TInt}, Field{Name: "B", Type: TString}, Field{Name: "C", Tag: `bexpr:"-"`, Type: TInt}, Field{Name: "D", Tag: `bexpr:"C"`, Type: TInt}),
		Int(5), Str("abc"), Int(7), Int(5)))
	add("struct-of-containers", Struct(StructOf(Field{Name: "L", Tag: `bexpr:"0"`, Type: SliceOf(TInt)}, Field{Name: "M", Tag: `bexpr:"abc"`, Type: MapOf(TString, TInt)}),
		Slice(SliceOf(TInt), Int(5)), MapNode(MapOf(TString, TInt), []*Node{Str("abc")}, []*Node{Int(5)})))
	add("uint8-max", UintOf(TUint8, 255))
	add("int32-min", IntOf(TInt32, math.MinInt32))
	add("float64-max", Float(math.MaxFloat64))
	add("float64-subnormal", Float(math.SmallestNonzeroFloat64))
	add("float32-max", FloatOf(TFloat32, math.MaxFloat32))
	add("string-unicode", Str("日本語 é 😀"))
	add("string-nul", Str("a\x00b"))
	add("string-invalid-utf8", Str("a\xffb"))
	add("[]int64-extremes", Slice(SliceOf(TInt64), IntOf(TInt64, math.MinInt64), IntOf(TInt64, math.MaxInt64), IntOf(TInt64, 5)))
	add("[]uint64-extremes", Slice(SliceOf(TUint64), UintOf(TUint64, math.MaxUint64), UintOf(TUint64, 0), UintOf(TUint64, 5)))
	add("[]float64-extremes", Slice(SliceOf(TFloat64), Float(math.Copysign(0, -1)), Float(math.SmallestNonzeroFloat64), Float(math.MaxFloat64), Float(math.Inf(1)), Float(5)))
	add("[]interface{}-extremes", IfaceSlice(IntOf(TInt64, math.MinInt64), UintOf(TUint64, math.MaxUint64), Float(math.Copysign(0, -1)), Float(math.Inf(-1)), IntOf(TInt8, -128), Str("5")))
	add("map[int64]string-extremes", MapNode(MapOf(TInt64, TString), []*Node{IntOf(TInt64, math.MinInt64), IntOf(TInt64, math.MaxInt64), IntOf(TInt64, 5)}, []*Node{Str("abc"), Str("x"), Str("abc")}))
	add("map[uint64]string-extremes", MapNode(MapOf(TUint64, TString), []*Node{UintOf(TUint64, math.MaxUint64), UintOf(TUint64, 5)}, []*Node{Str("abc"), Str("x")}))
	add("map[float64]string-extremes", MapNode(MapOf(TFloat64, TString), []*Node{Float(0), Float(math.Inf(1)), Float(5)}, []*Node{Str("abc"), Str("x"), Str("y")}))
	add("map[string]float64-negzero", MapNode(MapOf(TString, TFloat64), []*Node{Str("abc"), Str("5")}, []*Node{Float(math.Copysign(0, -1)), Float(math.SmallestNonzeroFloat64)}))
	add("float64-negzero", Float(math.Copysign(0, -1)))
	add("float64-inf", Float(math.Inf(1)))
	add("int64-min", IntOf(TInt64, math.MinInt64))
	add("chan", &Node{T: &Type{K: KChan}, I: 1})
	add("func", &Node{T: &Type{K: KFunc}})
	add("complex128", &Node{T: &Type{K: KComplex128}, F: 1})
	add("uintptr", &Node{T: &Type{K: KUintptr}, U: 5})
	return z
}
