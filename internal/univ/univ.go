// Package univ is the typed data universe: a datum is first built as a Node
// tree that records its Go representation explicitly, then materialised with
// reflect. The reference semantics run on the Node tree and never touch
// go-bexpr or pointerstructure.
package univ

import (
	"encoding/json"
	"fmt"
	"reflect"
	"sort"
	"strconv"
	"strings"
	"unsafe"
)

type Kind int

const (
	KInvalid Kind = iota
	KBool
	KInt
	KInt8
	KInt16
	KInt32
	KInt64
	KUint
	KUint8
	KUint16
	KUint32
	KUint64
	KFloat32
	KFloat64
	KString
	KPtr
	KIface
	KSlice
	KArray
	KMap
	KStruct
	KChan
	KFunc
	KComplex64
	KComplex128
	KUintptr
	KUnsafePtr
)

var kindNames = []string{"invalid", "bool", "int", "int8", "int16", "int32", "int64", "uint", "uint8", "uint16", "uint32", "uint64", "float32", "float64", "string",
	"ptr", "interface", "slice", "array", "map", "struct", "chan", "func", "complex64", "complex128", "uintptr", "unsafe.Pointer"}

func (k Kind) String() string { return kindNames[k] }

func (k Kind) IsInt() bool   { return k >= KInt && k <= KInt64 }
func (k Kind) IsUint() bool  { return k >= KUint && k <= KUint64 }
func (k Kind) IsFloat() bool { return k == KFloat32 || k == KFloat64 }
func (k Kind) IsScalar() bool {
	return k >= KBool && k <= KString
}

// Bits returns the width of an integer / float kind.
func (k Kind) Bits() int {
	switch k {
	case KInt8, KUint8:
		return 8
	case KInt16, KUint16:
		return 16
	case KInt32, KUint32, KFloat32:
		return 32
	}
	return 64
}

// Named Go types (reflect cannot create named types at run time).
type (
	NBool       bool
	NInt        int
	NInt8       int8
	NInt64      int64
	NUint       uint
	NUint8      uint8
	NUint64     uint64
	NFloat32    float32
	NFloat64    float64
	NString     string
	NBytes      []byte
	NStrSlice   []string
	NIntSlice   []int
	NIfaceSlice []interface{}
	NMap        map[string]interface{}
	NStrMap     map[string]string
)

var namedTypes = map[string]reflect.Type{
	"NBool": reflect.TypeOf(NBool(false)), "NInt": reflect.TypeOf(NInt(0)), "NInt8": reflect.TypeOf(NInt8(0)), "NInt64": reflect.TypeOf(NInt64(0)),
	"NUint": reflect.TypeOf(NUint(0)), "NUint8": reflect.TypeOf(NUint8(0)), "NUint64": reflect.TypeOf(NUint64(0)),
	"NFloat32": reflect.TypeOf(NFloat32(0)), "NFloat64": reflect.TypeOf(NFloat64(0)), "NString": reflect.TypeOf(NString("")),
	"JSONNumber": reflect.TypeOf(json.Number("")),
	"NBytes":     reflect.TypeOf(NBytes(nil)), "NStrSlice": reflect.TypeOf(NStrSlice(nil)), "NIntSlice": reflect.TypeOf(NIntSlice(nil)),
	"NIfaceSlice": reflect.TypeOf(NIfaceSlice(nil)), "NMap": reflect.TypeOf(NMap(nil)), "NStrMap": reflect.TypeOf(NStrMap(nil)),
}

type Field struct {
	Name       string
	Tag        string // the complete struct tag, e.g. `bexpr:"x" alt:"y"`
	Type       *Type
	Unexported bool
	Embedded   bool // anonymous field (pointerstructure does not promote its fields)
}

type Type struct {
	K      Kind
	Named  string
	Elem   *Type
	Key    *Type
	Len    int
	Fields []Field
	rt     reflect.Type
}

var (
	TBool    = &Type{K: KBool}
	TInt     = &Type{K: KInt}
	TInt8    = &Type{K: KInt8}
	TInt16   = &Type{K: KInt16}
	TInt32   = &Type{K: KInt32}
	TInt64   = &Type{K: KInt64}
	TUint    = &Type{K: KUint}
	TUint8   = &Type{K: KUint8}
	TUint16  = &Type{K: KUint16}
	TUint32  = &Type{K: KUint32}
	TUint64  = &Type{K: KUint64}
	TFloat32 = &Type{K: KFloat32}
	TFloat64 = &Type{K: KFloat64}
	TString  = &Type{K: KString}
	TIface   = &Type{K: KIface}
	TJSONNum = &Type{K: KString, Named: "JSONNumber"}
)

var ScalarTypes = []*Type{TBool, TInt, TInt8, TInt16, TInt32, TInt64, TUint, TUint8, TUint16, TUint32, TUint64, TFloat32, TFloat64, TString}

var NamedScalarTypes = []*Type{{K: KBool, Named: "NBool"}, {K: KInt, Named: "NInt"}, {K: KInt8, Named: "NInt8"}, {K: KInt64, Named: "NInt64"}, {K: KUint, Named: "NUint"},
	{K: KUint8, Named: "NUint8"}, {K: KUint64, Named: "NUint64"}, {K: KFloat32, Named: "NFloat32"}, {K: KFloat64, Named: "NFloat64"}, {K: KString, Named: "NString"}}

func PtrTo(t *Type) *Type   { return &Type{K: KPtr, Elem: t} }
func SliceOf(t *Type) *Type { return &Type{K: KSlice, Elem: t} }
func ArrayOf(n int, t *Type) *Type {
	return &Type{K: KArray, Elem: t, Len: n}
}
func MapOf(k, v *Type) *Type { return &Type{K: KMap, Key: k, Elem: v} }
func StructOf(f ...Field) *Type {
	return &Type{K: KStruct, Fields: f}
}
func NamedType(name string) *Type {
	rt := namedTypes[name]
	t := fromReflect(rt)
	t.Named = name
	return t
}

func fromReflect(rt reflect.Type) *Type {
	switch rt.Kind() {
	case reflect.Slice:
		return &Type{K: KSlice, Elem: fromReflect(rt.Elem())}
	case reflect.Map:
		return &Type{K: KMap, Key: fromReflect(rt.Key()), Elem: fromReflect(rt.Elem())}
	case reflect.Interface:
		return &Type{K: KIface}
	}
	for _, t := range ScalarTypes {
		if t.RType().Kind() == rt.Kind() {
			return &Type{K: t.K}
		}
	}
	panic("univ: fromReflect " + rt.String())
}

var basicRT = map[Kind]reflect.Type{
	KBool: reflect.TypeOf(false), KInt: reflect.TypeOf(int(0)), KInt8: reflect.TypeOf(int8(0)), KInt16: reflect.TypeOf(int16(0)), KInt32: reflect.TypeOf(int32(0)), KInt64: reflect.TypeOf(int64(0)),
	KUint: reflect.TypeOf(uint(0)), KUint8: reflect.TypeOf(uint8(0)), KUint16: reflect.TypeOf(uint16(0)), KUint32: reflect.TypeOf(uint32(0)), KUint64: reflect.TypeOf(uint64(0)),
	KFloat32: reflect.TypeOf(float32(0)), KFloat64: reflect.TypeOf(float64(0)), KString: reflect.TypeOf(""),
	KIface: reflect.TypeOf((*interface{})(nil)).Elem(), KChan: reflect.TypeOf((chan int)(nil)), KFunc: reflect.TypeOf((func())(nil)),
	KComplex64: reflect.TypeOf(complex64(0)), KComplex128: reflect.TypeOf(complex128(0)), KUintptr: reflect.TypeOf(uintptr(0)), KUnsafePtr: reflect.TypeOf(unsafe.Pointer(nil)),
}

// PkgPath used for unexported fields of generated struct types.
const unexportedPkg = "verif/internal/univ"

// RType returns the Go type.
func (t *Type) RType() reflect.Type {
	if t.rt != nil {
		return t.rt
	}
	if t.Named != "" {
		t.rt = namedTypes[t.Named]
		if t.rt == nil {
			panic("univ: unknown named type " + t.Named)
		}
		return t.rt
	}
	switch t.K {
	case KPtr:
		t.rt = reflect.PtrTo(t.Elem.RType())
	case KSlice:
		t.rt = reflect.SliceOf(t.Elem.RType())
	case KArray:
		t.rt = reflect.ArrayOf(t.Len, t.Elem.RType())
	case KMap:
		t.rt = reflect.MapOf(t.Key.RType(), t.Elem.RType())
	case KStruct:
		var fs []reflect.StructField
		for _, f := range t.Fields {
			sf := reflect.StructField{Name: f.Name, Type: f.Type.RType(), Tag: reflect.StructTag(f.Tag), Anonymous: f.Embedded}
			if f.Unexported {
				sf.PkgPath = unexportedPkg
			}
			fs = append(fs, sf)
		}
		t.rt = reflect.StructOf(fs)
	default:
		t.rt = basicRT[t.K]
		if t.rt == nil {
			panic(fmt.Sprintf("univ: no reflect type for kind %v", t.K))
		}
	}
	return t.rt
}

func (t *Type) String() string {
	if t.Named != "" {
		return t.Named
	}
	switch t.K {
	case KPtr:
		return "*" + t.Elem.String()
	case KSlice:
		return "[]" + t.Elem.String()
	case KArray:
		return fmt.Sprintf("[%d]%s", t.Len, t.Elem)
	case KMap:
		return "map[" + t.Key.String() + "]" + t.Elem.String()
	case KStruct:
		var sb strings.Builder
		sb.WriteString("struct{")
		for i, f := range t.Fields {
			if i > 0 {
				sb.WriteString("; ")
			}
			sb.WriteString(f.Name + " " + f.Type.String())
			if f.Tag != "" {
				sb.WriteString(" `" + f.Tag + "`")
			}
		}
		sb.WriteString("}")
		return sb.String()
	case KIface:
		return "interface{}"
	}
	return t.K.String()
}

// Node is one value with its Go representation.
type Node struct {
	T     *Type
	B     bool
	I     int64
	U     uint64
	F     float64
	S     string
	Nil   bool    // nil pointer / slice / map / interface / chan / func
	Elem  *Node   // pointer target, interface content
	Items []*Node // slice / array elements, struct field values, map values
	Keys  []*Node // map keys (parallel to Items)
}

func Bool(b bool) *Node            { return &Node{T: TBool, B: b} }
func Int(i int64) *Node            { return &Node{T: TInt, I: i} }
func IntOf(t *Type, i int64) *Node { return &Node{T: t, I: i} }
func UintOf(t *Type, u uint64) *Node {
	return &Node{T: t, U: u}
}
func Float(f float64) *Node { return &Node{T: TFloat64, F: f} }
func FloatOf(t *Type, f float64) *Node {
	if t.K == KFloat32 {
		f = float64(float32(f))
	}
	return &Node{T: t, F: f}
}
func Str(s string) *Node                  { return &Node{T: TString, S: s} }
func StrOf(t *Type, s string) *Node       { return &Node{T: t, S: s} }
func JSONNum(s string) *Node              { return &Node{T: TJSONNum, S: s} }
func NilIface() *Node                     { return &Node{T: TIface, Nil: true} }
func Iface(n *Node) *Node                 { return &Node{T: TIface, Elem: n} }
func Ptr(n *Node) *Node                   { return &Node{T: PtrTo(n.T), Elem: n} }
func NilPtr(t *Type) *Node                { return &Node{T: PtrTo(t), Nil: true} }
func Slice(t *Type, items ...*Node) *Node { return &Node{T: t, Items: items} }
func NilOf(t *Type) *Node                 { return &Node{T: t, Nil: true} }

// Wrap converts a node to the static type want (only interface wrapping).
func Wrap(n *Node, want *Type) *Node {
	if want.K == KIface && n.T.K != KIface {
		return Iface(n)
	}
	return n
}

// IfaceSlice builds a []interface{}.
func IfaceSlice(items ...*Node) *Node {
	n := &Node{T: SliceOf(TIface)}
	for _, it := range items {
		n.Items = append(n.Items, Wrap(it, TIface))
	}
	return n
}

// IfaceMap builds a map[string]interface{} from alternating key, value.
func IfaceMap(kv ...interface{}) *Node {
	n := &Node{T: MapOf(TString, TIface)}
	for i := 0; i+1 < len(kv); i += 2 {
		n.Keys = append(n.Keys, Str(kv[i].(string)))
		n.Items = append(n.Items, Wrap(kv[i+1].(*Node), TIface))
	}
	return n
}

// MapNode builds a map of the given type.
func MapNode(t *Type, keys []*Node, vals []*Node) *Node {
	n := &Node{T: t}
	for i := range keys {
		n.Keys = append(n.Keys, keys[i])
		n.Items = append(n.Items, Wrap(vals[i], t.Elem))
	}
	return n
}

// Struct builds a struct value of type t.
func Struct(t *Type, vals ...*Node) *Node {
	n := &Node{T: t}
	for i, v := range vals {
		n.Items = append(n.Items, Wrap(v, t.Fields[i].Type))
	}
	return n
}

var funcVal = func() {}

// Value materialises the node as a reflect.Value of its static type.
func (n *Node) Value() reflect.Value {
	rt := n.T.RType()
	v := reflect.New(rt).Elem()
	switch n.T.K {
	case KBool:
		v.SetBool(n.B)
	case KInt, KInt8, KInt16, KInt32, KInt64:
		v.SetInt(n.I)
	case KUint, KUint8, KUint16, KUint32, KUint64, KUintptr:
		v.SetUint(n.U)
	case KFloat32, KFloat64:
		v.SetFloat(n.F)
	case KComplex64, KComplex128:
		v.SetComplex(complex(n.F, n.F/2))
	case KString:
		v.SetString(n.S)
	case KIface:
		if !n.Nil {
			v.Set(n.Elem.Value())
		}
	case KPtr:
		if !n.Nil {
			p := reflect.New(n.T.Elem.RType())
			p.Elem().Set(n.Elem.Value())
			v.Set(p)
		}
	case KSlice:
		if !n.Nil {
			s := reflect.MakeSlice(rt, len(n.Items), len(n.Items))
			for i, it := range n.Items {
				s.Index(i).Set(it.Value())
			}
			v.Set(s)
		}
	case KArray:
		for i, it := range n.Items {
			v.Index(i).Set(it.Value())
		}
	case KMap:
		if !n.Nil {
			m := reflect.MakeMapWithSize(rt, len(n.Items))
			for i, it := range n.Items {
				m.SetMapIndex(n.Keys[i].Value(), it.Value())
			}
			v.Set(m)
		}
	case KStruct:
		for i, it := range n.Items {
			f := v.Field(i)
			if n.T.Fields[i].Unexported {
				f = reflect.NewAt(f.Type(), unsafe.Pointer(f.UnsafeAddr())).Elem()
			}
			f.Set(it.Value())
		}
	case KChan:
		if !n.Nil {
			v.Set(reflect.MakeChan(rt, int(n.I)))
		}
	case KFunc:
		if !n.Nil {
			v.Set(reflect.ValueOf(funcVal))
		}
	case KUnsafePtr:
		if !n.Nil {
			x := new(int)
			v.SetPointer(unsafe.Pointer(x))
		}
	}
	return v
}

// Datum materialises the node as the interface{} handed to Evaluate.
func (n *Node) Datum() interface{} {
	if n == nil {
		return nil
	}
	if n.T.K == KIface && n.Nil {
		return nil
	}
	return n.Value().Interface()
}

// Describe renders the node in a Go-like notation (for replay files).
func (n *Node) Describe() string {
	var sb strings.Builder
	n.describe(&sb, 0)
	return sb.String()
}

func (n *Node) describe(sb *strings.Builder, depth int) {
	if sb.Len() > 4000 {
		sb.WriteString("…")
		return
	}
	if n == nil {
		sb.WriteString("<nil node>")
		return
	}
	switch n.T.K {
	case KBool:
		fmt.Fprintf(sb, "%s(%v)", n.T, n.B)
	case KInt, KInt8, KInt16, KInt32, KInt64:
		fmt.Fprintf(sb, "%s(%d)", n.T, n.I)
	case KUint, KUint8, KUint16, KUint32, KUint64, KUintptr:
		fmt.Fprintf(sb, "%s(%d)", n.T, n.U)
	case KFloat32, KFloat64:
		fmt.Fprintf(sb, "%s(%s)", n.T, strconv.FormatFloat(n.F, 'g', -1, 64))
	case KString:
		if n.T.Named == "" {
			fmt.Fprintf(sb, "%q", n.S)
		} else {
			fmt.Fprintf(sb, "%s(%q)", n.T, n.S)
		}
	case KIface:
		if n.Nil {
			sb.WriteString("nil")
		} else {
			sb.WriteString("any(")
			n.Elem.describe(sb, depth+1)
			sb.WriteString(")")
		}
	case KPtr:
		if n.Nil {
			fmt.Fprintf(sb, "(%s)(nil)", n.T)
		} else {
			sb.WriteString("&")
			n.Elem.describe(sb, depth+1)
		}
	case KSlice, KArray:
		if n.Nil {
			fmt.Fprintf(sb, "%s(nil)", n.T)
			return
		}
		fmt.Fprintf(sb, "%s{", n.T)
		for i, it := range n.Items {
			if i > 0 {
				sb.WriteString(", ")
			}
			if i > 12 {
				fmt.Fprintf(sb, "…(%d items)", len(n.Items))
				break
			}
			it.describe(sb, depth+1)
		}
		sb.WriteString("}")
	case KMap:
		if n.Nil {
			fmt.Fprintf(sb, "%s(nil)", n.T)
			return
		}
		fmt.Fprintf(sb, "%s{", n.T)
		for i, it := range n.Items {
			if i > 0 {
				sb.WriteString(", ")
			}
			if i > 12 {
				fmt.Fprintf(sb, "…(%d entries)", len(n.Items))
				break
			}
			n.Keys[i].describe(sb, depth+1)
			sb.WriteString(": ")
			it.describe(sb, depth+1)
		}
		sb.WriteString("}")
	case KStruct:
		sb.WriteString("struct{")
		for i, it := range n.Items {
			if i > 0 {
				sb.WriteString(", ")
			}
			f := n.T.Fields[i]
			sb.WriteString(f.Name)
			if f.Tag != "" {
				sb.WriteString("`" + f.Tag + "`")
			}
			sb.WriteString(": ")
			it.describe(sb, depth+1)
		}
		sb.WriteString("}")
	default:
		if n.Nil {
			fmt.Fprintf(sb, "%s(nil)", n.T)
		} else {
			fmt.Fprintf(sb, "%s(…)", n.T)
		}
	}
}

// Shape is a representation signature (types only) used for distinctness.
func (n *Node) Shape() string {
	if n == nil {
		return "nil"
	}
	switch n.T.K {
	case KIface:
		if n.Nil {
			return "nil"
		}
		return "any(" + n.Elem.Shape() + ")"
	case KPtr:
		if n.Nil {
			return "nil" + n.T.String()
		}
		return "&" + n.Elem.Shape()
	case KSlice, KArray, KMap:
		if n.T.Elem.K != KIface {
			return fmt.Sprintf("%s#%d", n.T, len(n.Items))
		}
		var parts []string
		for _, it := range n.Items {
			parts = append(parts, it.Shape())
		}
		if n.T.K == KMap {
			sort.Strings(parts)
		}
		if len(parts) > 6 {
			parts = parts[:6]
		}
		return n.T.String() + "{" + strings.Join(parts, ",") + "}"
	case KStruct:
		var parts []string
		for _, it := range n.Items {
			parts = append(parts, it.Shape())
		}
		return "struct{" + strings.Join(parts, ",") + "}"
	}
	return n.T.String()
}

// Clone deep-copies a node (types are shared).
func (n *Node) Clone() *Node {
	if n == nil {
		return nil
	}
	c := *n
	c.Elem = n.Elem.Clone()
	c.Items = nil
	for _, it := range n.Items {
		c.Items = append(c.Items, it.Clone())
	}
	c.Keys = nil
	for _, k := range n.Keys {
		c.Keys = append(c.Keys, k.Clone())
	}
	return &c
}
