package univ

import (
	"fmt"
	"math"
	"math/rand"
	"strconv"
	"strings"
	"unicode"
)

// Doc is a logical JSON-like document; Represent materialises it under a
// representation policy ("the same logical document in every Go
// representation").
type DocKind int

const (
	DNull DocKind = iota
	DBool
	DInt
	DFloat
	DStr
	DList
	DObj
)

type Doc struct {
	K     DocKind
	B     bool
	I     int64
	F     float64
	S     string
	Keys  []string
	Vals  []*Doc
	Items []*Doc
}

var BoundaryInts = []int64{0, 1, -1, 2, 5, 7, 10, 42, 100, 127, 128, -128, -129, 255, 256, 32767, 32768, 65535, 65536, math.MaxInt32, math.MaxInt32 + 1, math.MinInt32,
	math.MaxUint32, 1 << 53, 1<<53 + 1, -(1<<53 + 1), math.MaxInt64, math.MinInt64, 8080, 443}

var BoundaryFloats = []float64{0, 1, -1, 0.5, 0.1, 1.5, -2.25, 3.14, 1e10, 1e-10, 16777216, 16777217, math.MaxFloat32, math.SmallestNonzeroFloat32, math.MaxFloat64, math.SmallestNonzeroFloat64, 1e100, 123456.789, 0.30000000000000004}

var BoundaryStrings = []string{"", "a", "b", "foo", "Foo", "FOO", "bar", "true", "false", "1", "0", "-1", "1.0", "1.5", " x", "x ", "é", "日本", "/a/b", "a b", "a.b", "web", "web-01", "primary", "null", "nil", "0x10", "1e3", "a\"b", "tab\t", "^a", "(", "x\x00y", "host.eu west", "v1.2", "cfg.a.b", "srv.(", "a\ufffdb"}

var KeyPool = []string{"a", "b", "c", "d", "name", "port", "tags", "meta", "x1", "Foo", "id", "k", "v", "item", "labels", "zone", "n", "list", "m", "s"}
var OddKeys = []string{" a", "A", "a.b", "a/b", "~", "~1", "0", "1", "", "x y", "é", "a-b", "k:v", "not", "in", "007", "-"}

func pick(r *rand.Rand, l []string) string { return l[r.Intn(len(l))] }

func genScalar(r *rand.Rand) *Doc {
	switch r.Intn(10) {
	case 0:
		return &Doc{K: DNull}
	case 1, 2:
		return &Doc{K: DBool, B: r.Intn(2) == 0}
	case 3, 4, 5:
		if r.Intn(3) == 0 {
			return &Doc{K: DInt, I: int64(r.Intn(20)) - 5}
		}
		return &Doc{K: DInt, I: BoundaryInts[r.Intn(len(BoundaryInts))]}
	case 6:
		if r.Intn(3) == 0 {
			return &Doc{K: DFloat, F: float64(r.Intn(1000))/8 - 20}
		}
		return &Doc{K: DFloat, F: BoundaryFloats[r.Intn(len(BoundaryFloats))]}
	default:
		return &Doc{K: DStr, S: pick(r, BoundaryStrings)}
	}
}

// GenValue draws a logical value of bounded depth.
func GenValue(r *rand.Rand, depth int) *Doc {
	if depth <= 0 || r.Intn(3) == 0 {
		return genScalar(r)
	}
	switch r.Intn(5) {
	case 0, 1:
		return GenObj(r, depth-1, false)
	case 2, 3:
		n := r.Intn(5)
		if r.Intn(6) == 0 {
			n = 0
		}
		if r.Intn(14) == 0 {
			n = 11 + r.Intn(4) // long enough for "10" < "2" to matter
		}
		d := &Doc{K: DList}
		homo := r.Intn(3) > 0
		var first *Doc
		for i := 0; i < n; i++ {
			var it *Doc
			if homo && first != nil {
				it = sameKindAs(r, first, depth-1)
			} else {
				it = GenValue(r, depth-1)
			}
			if first == nil {
				first = it
			}
			d.Items = append(d.Items, it)
		}
		return d
	default:
		return genScalar(r)
	}
}

func sameKindAs(r *rand.Rand, d *Doc, depth int) *Doc {
	switch d.K {
	case DObj:
		o := &Doc{K: DObj, Keys: append([]string(nil), d.Keys...)}
		for _, v := range d.Vals {
			o.Vals = append(o.Vals, sameKindAs(r, v, depth-1))
		}
		return o
	case DList:
		l := &Doc{K: DList}
		for i, n := 0, r.Intn(4); i < n; i++ {
			if len(d.Items) > 0 {
				l.Items = append(l.Items, sameKindAs(r, d.Items[0], depth-1))
			} else {
				l.Items = append(l.Items, genScalar(r))
			}
		}
		return l
	}
	for i := 0; i < 20; i++ {
		s := genScalar(r)
		if s.K == d.K {
			return s
		}
	}
	c := *d
	return &c
}

// GenObj draws an object; top-level objects use identifier-like keys so that
// selectors can start with them.
func GenObj(r *rand.Rand, depth int, top bool) *Doc {
	n := 1 + r.Intn(5)
	if !top && r.Intn(8) == 0 {
		n = 0
	}
	o := &Doc{K: DObj}
	seen := map[string]bool{}
	for len(o.Keys) < n {
		k := pick(r, KeyPool)
		if !top && r.Intn(6) == 0 {
			k = pick(r, OddKeys)
		}
		if seen[k] {
			continue
		}
		seen[k] = true
		o.Keys = append(o.Keys, k)
		o.Vals = append(o.Vals, GenValue(r, depth))
	}
	return o
}

// Policy chooses Go representations.
type Policy struct {
	// Mode: 0 = all interface{} (encoding/json shapes, float64 numbers),
	// 1 = same with json.Number, 2 = typed containers and structs,
	// 3 = typed with pointers inserted, 4 = per-node random mix.
	Mode int
	// Hidden adds hidden / unexported fields (with the given content seed)
	// to generated structs.
	Hidden bool
	// HiddenSeed varies only the content of hidden / unexported fields.
	HiddenSeed int64
	// AltTag is the key of the alternate struct tag ("" = "alt"); any key
	// reflect.StructTag accepts is allowed (x-filter, bexpr.v2, BEXPR, ...).
	AltTag string
}

func (p Policy) altTag() string {
	if p.AltTag == "" {
		return "alt"
	}
	return p.AltTag
}

var PolicyNames = []string{"iface", "iface+json.Number", "typed", "typed+pointers", "mixed"}

type repr struct {
	r   *rand.Rand
	pol Policy
	hr  *rand.Rand // content of hidden fields
}

// Represent materialises a logical document under a policy. Choices are drawn
// from r, hidden-field contents from Policy.HiddenSeed, so that two calls with
// the same r-seed and different HiddenSeed give data equal on visible fields.
func Represent(r *rand.Rand, d *Doc, pol Policy) *Node {
	rp := &repr{r: r, pol: pol, hr: rand.New(rand.NewSource(pol.HiddenSeed))}
	return rp.node(d)
}

func (rp *repr) mode() int {
	if rp.pol.Mode == 4 {
		return rp.r.Intn(4)
	}
	return rp.pol.Mode
}

func intTypesFor(i int64) []*Type {
	var l []*Type
	for _, t := range []*Type{TInt, TInt8, TInt16, TInt32, TInt64, NamedScalarTypes[1], NamedScalarTypes[2], NamedScalarTypes[3]} {
		if fitsIntKind(i, t.K) {
			l = append(l, t)
		}
	}
	return l
}

func fitsIntKind(x int64, k Kind) bool {
	switch k {
	case KInt8:
		return x >= math.MinInt8 && x <= math.MaxInt8
	case KInt16:
		return x >= math.MinInt16 && x <= math.MaxInt16
	case KInt32:
		return x >= math.MinInt32 && x <= math.MaxInt32
	}
	return true
}

func fitsUintKind(x uint64, k Kind) bool {
	switch k {
	case KUint8:
		return x <= math.MaxUint8
	case KUint16:
		return x <= math.MaxUint16
	case KUint32:
		return x <= math.MaxUint32
	}
	return true
}

func (rp *repr) scalar(d *Doc, mode int) *Node {
	r := rp.r
	switch d.K {
	case DNull:
		if mode >= 2 && r.Intn(2) == 0 {
			return NilPtr(ScalarTypes[r.Intn(len(ScalarTypes))])
		}
		return NilIface()
	case DBool:
		if mode >= 2 && r.Intn(4) == 0 {
			return &Node{T: NamedScalarTypes[0], B: d.B}
		}
		return Bool(d.B)
	case DInt:
		switch mode {
		case 0:
			return Float(float64(d.I))
		case 1:
			return JSONNum(strconv.FormatInt(d.I, 10))
		}
		if d.I >= 0 && r.Intn(3) == 0 {
			var l []*Type
			for _, t := range []*Type{TUint, TUint8, TUint16, TUint32, TUint64, NamedScalarTypes[4], NamedScalarTypes[5], NamedScalarTypes[6]} {
				if fitsUintKind(uint64(d.I), t.K) {
					l = append(l, t)
				}
			}
			return UintOf(l[r.Intn(len(l))], uint64(d.I))
		}
		l := intTypesFor(d.I)
		return IntOf(l[r.Intn(len(l))], d.I)
	case DFloat:
		switch mode {
		case 1:
			return JSONNum(strconv.FormatFloat(d.F, 'g', -1, 64))
		case 0:
			return Float(d.F)
		}
		if float64(float32(d.F)) == d.F && r.Intn(2) == 0 {
			if r.Intn(3) == 0 {
				return FloatOf(NamedScalarTypes[7], d.F)
			}
			return FloatOf(TFloat32, d.F)
		}
		if r.Intn(4) == 0 {
			return FloatOf(NamedScalarTypes[8], d.F)
		}
		return Float(d.F)
	default:
		if mode >= 2 {
			switch r.Intn(6) {
			case 0:
				return StrOf(NamedScalarTypes[9], d.S)
			case 1:
				// []byte
				n := &Node{T: SliceOf(TUint8)}
				if r.Intn(2) == 0 {
					n.T = NamedType("NBytes")
				}
				for i := 0; i < len(d.S); i++ {
					n.Items = append(n.Items, UintOf(TUint8, uint64(d.S[i])))
				}
				return n
			}
		}
		return Str(d.S)
	}
}

func (rp *repr) maybePtr(n *Node, mode int) *Node {
	if mode == 3 && n.T.K != KIface && rp.r.Intn(3) == 0 {
		p := Ptr(n)
		if rp.r.Intn(6) == 0 {
			return Ptr(p)
		}
		return p
	}
	return n
}

func (rp *repr) node(d *Doc) *Node {
	mode := rp.mode()
	switch d.K {
	case DList:
		return rp.list(d, mode)
	case DObj:
		return rp.obj(d, mode)
	}
	return rp.maybePtr(rp.scalar(d, mode), mode)
}

func sameType(items []*Node) bool {
	for _, it := range items[1:] {
		if it.T.String() != items[0].T.String() {
			return false
		}
	}
	return true
}

func (rp *repr) list(d *Doc, mode int) *Node {
	r := rp.r
	var items []*Node
	if mode >= 2 && len(d.Items) > 0 {
		// try a homogeneous typed representation: represent the first, then
		// coerce the others to the same type when possible
		first := rp.node(d.Items[0])
		items = append(items, first)
		ok := true
		for _, it := range d.Items[1:] {
			n := rp.as(it, first.T)
			if n == nil {
				ok = false
				break
			}
			items = append(items, n)
		}
		if ok && first.T.K != KIface {
			var t *Type
			switch r.Intn(5) {
			case 0:
				t = ArrayOf(len(items), first.T)
			default:
				t = SliceOf(first.T)
				if first.T.K == KString && first.T.Named == "" && r.Intn(3) == 0 {
					t = NamedType("NStrSlice")
				}
				if first.T.K == KInt && first.T.Named == "" && r.Intn(3) == 0 {
					t = NamedType("NIntSlice")
				}
			}
			return rp.maybePtr(&Node{T: t, Items: items}, mode)
		}
		items = nil
	}
	for _, it := range d.Items {
		items = append(items, Wrap(rp.node(it), TIface))
	}
	t := SliceOf(TIface)
	if mode >= 2 && r.Intn(4) == 0 {
		t = NamedType("NIfaceSlice")
	}
	n := &Node{T: t, Items: items}
	if len(items) == 0 && r.Intn(4) == 0 {
		n.Nil = true
	}
	return n
}

// as represents d with exactly the type t, or returns nil.
func (rp *repr) as(d *Doc, t *Type) *Node {
	switch {
	case t.K == KIface:
		return Wrap(rp.node(d), TIface)
	case t.K == KPtr:
		if d.K == DNull {
			return NilOf(t)
		}
		e := rp.as(d, t.Elem)
		if e == nil {
			return nil
		}
		return &Node{T: t, Elem: e}
	case t.K == KBool && d.K == DBool:
		return &Node{T: t, B: d.B}
	case t.K.IsInt() && d.K == DInt && fitsIntKind(d.I, t.K):
		return IntOf(t, d.I)
	case t.K.IsUint() && d.K == DInt && d.I >= 0 && fitsUintKind(uint64(d.I), t.K):
		return UintOf(t, uint64(d.I))
	case t.K == KFloat64 && (d.K == DFloat || d.K == DInt):
		f := d.F
		if d.K == DInt {
			f = float64(d.I)
		}
		return FloatOf(t, f)
	case t.K == KFloat32 && d.K == DFloat && float64(float32(d.F)) == d.F:
		return FloatOf(t, d.F)
	case t.K == KString && d.K == DStr && t.Named != "JSONNumber":
		return StrOf(t, d.S)
	case t.K == KString && t.Named == "JSONNumber" && d.K == DInt:
		return JSONNum(strconv.FormatInt(d.I, 10))
	case t.K == KString && t.Named == "JSONNumber" && d.K == DFloat:
		return JSONNum(strconv.FormatFloat(d.F, 'g', -1, 64))
	case t.K == KStruct && d.K == DObj:
		// same keys in the same order
		vis := 0
		for _, f := range t.Fields {
			if !IsExtraField(f) {
				vis++
			}
		}
		if vis != len(d.Keys) {
			return nil
		}
		n := &Node{T: t}
		vi := 0
		for _, f := range t.Fields {
			if IsExtraField(f) {
				n.Items = append(n.Items, rp.extraValue(f))
				continue
			}
			if fieldKey(f) != d.Keys[vi] {
				return nil
			}
			v := rp.as(d.Vals[vi], f.Type)
			if v == nil {
				return nil
			}
			n.Items = append(n.Items, v)
			vi++
		}
		return n
	case t.K == KMap && d.K == DObj && t.Key.K == KString:
		n := &Node{T: t}
		for i, k := range d.Keys {
			v := rp.as(d.Vals[i], t.Elem)
			if v == nil {
				return nil
			}
			n.Keys = append(n.Keys, StrOf(t.Key, k))
			n.Items = append(n.Items, v)
		}
		return n
	case (t.K == KSlice || t.K == KArray) && d.K == DList:
		if t.K == KArray && t.Len != len(d.Items) {
			return nil
		}
		if t.Elem.K == KUint8 && t.K == KSlice {
			return nil
		}
		n := &Node{T: t}
		for _, it := range d.Items {
			v := rp.as(it, t.Elem)
			if v == nil {
				return nil
			}
			n.Items = append(n.Items, v)
		}
		return n
	}
	return nil
}

// fieldKey returns the name a field is addressed by under the default tag.
func fieldKey(f Field) string {
	if i := strings.Index(f.Tag, `bexpr:"`); i >= 0 {
		rest := f.Tag[i+7:]
		if j := strings.Index(rest, `"`); j >= 0 {
			return rest[:j]
		}
	}
	return f.Name
}

func tagSafe(k string) bool {
	if k == "" || k == "-" {
		return false
	}
	for _, c := range k {
		if c == '"' || c == ',' || c == '|' || c == '\\' || c == '`' || c < 0x20 || c == 0x7f {
			return false
		}
	}
	return true
}

func goFieldName(k string, i int) string {
	var sb strings.Builder
	for _, c := range k {
		if unicode.IsLetter(c) || unicode.IsDigit(c) || c == '_' {
			sb.WriteRune(c)
		}
	}
	s := sb.String()
	if s == "" || !unicode.IsLetter(rune(s[0])) || s[0] >= 0x80 {
		return fmt.Sprintf("F%d%s", i, s)
	}
	return strings.ToUpper(s[:1]) + s[1:]
}

// IsExtraField: fields the generator adds on top of the logical document:
// Hidden* (hidden under both tag names), unexported, BHidden* (hidden under
// the default tag only), AHidden* (hidden under the alternate tag only).
func IsExtraField(f Field) bool {
	return f.Unexported || strings.HasPrefix(f.Name, "Hidden") || strings.HasPrefix(f.Name, "BHidden") || strings.HasPrefix(f.Name, "AHidden")
}

// extraValue: content of an extra field. Fields hidden under BOTH tag names
// and unexported fields draw from the hidden stream (they differ between the
// two data of a C08 pair); fields hidden under one tag only are visible under
// the other and therefore get content that depends on the name only.
func (rp *repr) extraValue(f Field) *Node {
	if f.Unexported || strings.HasPrefix(f.Name, "Hidden") {
		return rp.hiddenValue(f.Type)
	}
	switch f.Type.K {
	case KString:
		return Str("vis-" + f.Name)
	case KInt:
		return Int(int64(len(f.Name)))
	}
	return NilOf(f.Type)
}

func (rp *repr) hiddenValue(t *Type) *Node {
	switch t.K {
	case KString:
		return Str(pick(rp.hr, BoundaryStrings) + strconv.Itoa(rp.hr.Intn(1000)))
	case KInt:
		return Int(int64(rp.hr.Intn(1000)))
	case KSlice:
		n := &Node{T: t}
		for i, c := 0, rp.hr.Intn(3); i < c; i++ {
			n.Items = append(n.Items, Str(pick(rp.hr, BoundaryStrings)))
		}
		return n
	}
	return NilOf(t)
}

func (rp *repr) obj(d *Doc, mode int) *Node {
	r := rp.r
	if mode >= 2 {
		allSafe := true
		for _, k := range d.Keys {
			if !tagSafe(k) {
				allSafe = false
			}
		}
		choice := r.Intn(4)
		if choice <= 1 && allSafe && len(d.Keys) > 0 {
			// struct
			var fields []Field
			var vals []*Node
			used := map[string]bool{}
			addHidden := func() {
				if !rp.pol.Hidden {
					return
				}
				var f Field
				switch r.Intn(6) {
				case 0:
					f = Field{Name: fmt.Sprintf("Hidden%d", len(fields)), Tag: `bexpr:"-" ` + rp.pol.altTag() + `:"-"`, Type: []*Type{TString, TInt, SliceOf(TString)}[r.Intn(3)]}
				case 1:
					f = Field{Name: fmt.Sprintf("secret%d", len(fields)), Type: []*Type{TString, TInt}[r.Intn(2)], Unexported: true}
				case 2:
					name := fmt.Sprintf("BHidden%d", len(fields))
					f = Field{Name: name, Tag: `bexpr:"-" ` + rp.pol.altTag() + `:"` + strings.ToLower(name) + `"`, Type: []*Type{TString, TInt}[r.Intn(2)]}
				case 3:
					name := fmt.Sprintf("AHidden%d", len(fields))
					f = Field{Name: name, Tag: `bexpr:"` + strings.ToLower(name) + `" ` + rp.pol.altTag() + `:"-"`, Type: []*Type{TString, TInt}[r.Intn(2)]}
				default:
					return
				}
				if !used[f.Name] {
					used[f.Name] = true
					fields = append(fields, f)
					vals = append(vals, rp.extraValue(f))
				}
			}
			for i, k := range d.Keys {
				addHidden()
				v := rp.node(d.Vals[i])
				name := goFieldName(k, i)
				for used[name] {
					name += "X"
				}
				used[name] = true
				tag := `bexpr:"` + k + `"`
				if name == k && r.Intn(2) == 0 {
					tag = "" // reachable by its Go name
				} else if r.Intn(5) == 0 {
					tag = `bexpr:"` + k + `,omitempty"`
				}
				if r.Intn(3) == 0 {
					if tag != "" {
						tag += " "
					}
					tag += rp.pol.altTag() + `:"alt_` + k + `"`
				}
				fields = append(fields, Field{Name: name, Tag: tag, Type: v.T})
				vals = append(vals, v)
			}
			addHidden()
			n := &Node{T: StructOf(fields...), Items: vals}
			if mode == 3 || r.Intn(4) == 0 {
				if r.Intn(2) == 0 {
					return Ptr(n)
				}
			}
			return n
		}
		if choice == 2 && len(d.Keys) > 0 {
			// typed map
			first := rp.node(d.Vals[0])
			if first.T.K != KIface {
				kt := TString
				if r.Intn(5) == 0 {
					kt = NamedScalarTypes[9]
				}
				t := MapOf(kt, first.T)
				if first.T.K == KString && first.T.Named == "" && kt == TString && r.Intn(3) == 0 {
					t = NamedType("NStrMap")
				}
				n := &Node{T: t, Keys: []*Node{StrOf(t.Key, d.Keys[0])}, Items: []*Node{first}}
				ok := true
				for i := 1; i < len(d.Keys); i++ {
					v := rp.as(d.Vals[i], first.T)
					if v == nil {
						ok = false
						break
					}
					n.Keys = append(n.Keys, StrOf(t.Key, d.Keys[i]))
					n.Items = append(n.Items, v)
				}
				if ok {
					return rp.maybePtr(n, mode)
				}
			}
		}
		// int-keyed map when every key is a canonical integer
		if choice == 3 && len(d.Keys) > 0 {
			allInt := true
			for _, k := range d.Keys {
				if _, err := strconv.Atoi(k); err != nil || strconv.Itoa(atoi(k)) != k {
					allInt = false
				}
			}
			if allInt {
				n := &Node{T: MapOf(TInt, TIface)}
				for i, k := range d.Keys {
					n.Keys = append(n.Keys, Int(int64(atoi(k))))
					n.Items = append(n.Items, Wrap(rp.node(d.Vals[i]), TIface))
				}
				return n
			}
		}
	}
	t := MapOf(TString, TIface)
	if mode >= 2 && r.Intn(5) == 0 {
		t = NamedType("NMap")
	}
	n := &Node{T: t}
	for i, k := range d.Keys {
		n.Keys = append(n.Keys, Str(k))
		n.Items = append(n.Items, Wrap(rp.node(d.Vals[i]), TIface))
	}
	if len(d.Keys) == 0 && r.Intn(4) == 0 {
		n.Nil = true
	}
	return n
}

func atoi(s string) int { x, _ := strconv.Atoi(s); return x }

// RenderScalar renders a scalar node as literal text that denotes its value
// when read in its own kind.
func RenderScalar(n *Node) (string, bool) {
	if n == nil {
		return "", false
	}
	switch {
	case n.T.K == KBool:
		return strconv.FormatBool(n.B), true
	case n.T.K.IsInt():
		return strconv.FormatInt(n.I, 10), true
	case n.T.K.IsUint():
		return strconv.FormatUint(n.U, 10), true
	case n.T.K == KFloat32:
		return strconv.FormatFloat(n.F, 'g', -1, 32), true
	case n.T.K == KFloat64:
		return strconv.FormatFloat(n.F, 'g', -1, 64), true
	case n.T.K == KString:
		return n.S, true
	}
	return "", false
}
