// Package xgen is the harness's own expression AST, its renderer (which
// draws, per node, from every layout the bexpr grammar admits) and helpers to
// compare it with trees produced by the real parser.
package xgen

import (
	"fmt"
	"math/rand"
	"regexp"
	"strconv"
	"strings"
	"unicode"
	"unicode/utf8"

	"github.com/hashicorp/go-bexpr/grammar"
)

type Op int

const (
	OpEq Op = iota
	OpNe
	OpIn
	OpNotIn
	OpEmpty
	OpNotEmpty
	OpMatches
	OpNotMatches
)

var OpNames = []string{"==", "!=", "in", "not in", "is empty", "is not empty", "matches", "not matches"}

func (o Op) String() string { return OpNames[o] }

// Negation returns the negated counterpart of an operator.
func (o Op) Negation() Op { return o ^ 1 }

func (o Op) Negative() bool { return o&1 == 1 }

func (o Op) HasValue() bool { return o != OpEmpty && o != OpNotEmpty }

// Selector spelling of one part.
const (
	SpDot      = iota // .ident or .digits (first part: bare identifier)
	SpBrackDQ         // ["..."]
	SpBrackRaw        // [`...`]
)

type Sel struct {
	Parts []string
	// JSONPointer: rendered as "/a/b" and parsed to SelectorTypeJsonPointer.
	JSONPointer bool
	// Spell gives the spelling per part for non-pointer selectors (nil =
	// choose at render time).
	Spell []int
}

func (s Sel) Clone() Sel {
	return Sel{Parts: append([]string(nil), s.Parts...), JSONPointer: s.JSONPointer, Spell: append([]int(nil), s.Spell...)}
}

const (
	StyleAuto = iota
	StyleBare
	StyleNumber
	StyleQuoted
	StyleBacktick
)

type Lit struct {
	S     string
	Style int
}

type Expr interface{}

type Match struct {
	Sel Sel
	Op  Op
	Lit *Lit
	// Contains renders in / not in as `sel contains lit`.
	Contains bool
}

type Not struct{ X Expr }
type And struct{ L, R Expr }
type Or struct{ L, R Expr }

type BindMode int

const (
	BindDefault BindMode = iota
	BindIndex
	BindValue
	BindIndexValue
)

type Quant struct {
	All   bool
	Sel   Sel
	Mode  BindMode
	Name  string // default / index name
	Name2 string // value name (BindValue, BindIndexValue)
	Body  Expr
}

// ---------------------------------------------------------------------------
// classification of strings

var (
	reIdent   = regexp.MustCompile(`^[a-zA-Z][a-zA-Z0-9_/]*$`)
	reDigits  = regexp.MustCompile(`^[0-9]+$`)
	reNumber  = regexp.MustCompile(`^-?(0|[1-9][0-9]*)(\.[0-9]+)?$`)
	reBareLit = regexp.MustCompile(`^[a-zA-Z][a-zA-Z0-9_/]*(\.([a-zA-Z][a-zA-Z0-9_/]*|[0-9]+))*$`)
)

var Keywords = map[string]bool{"not": true, "and": true, "or": true, "in": true, "is": true, "empty": true,
	"contains": true, "matches": true, "any": true, "all": true, "as": true}

func IsIdent(s string) bool  { return reIdent.MatchString(s) }
func IsDigits(s string) bool { return reDigits.MatchString(s) }
func IsNumber(s string) bool { return reNumber.MatchString(s) }

// IsSafeIdent: an identifier that is not a keyword.
func IsSafeIdent(s string) bool { return IsIdent(s) && !Keywords[s] }

// IsBareLit: can be written as an unquoted value (parsed through Selector):
// the first "."-separated segment must be an identifier; later segments can
// be anything, because an index expression (x["any string"]) can spell them.
func IsBareLit(s string) bool {
	parts := strings.Split(s, ".")
	if !IsSafeIdent(parts[0]) {
		return false
	}
	return true
}

// isPlainBare: every segment can be written in the dotted form.
func isPlainBare(s string) bool {
	if !reBareLit.MatchString(s) {
		return false
	}
	for _, p := range strings.Split(s, ".") {
		if Keywords[p] {
			return false
		}
	}
	return true
}

// pointerPartOK: can the part be written inside a JSON-Pointer selector?
func pointerPartOK(p string) bool {
	if p == "" || !utf8.ValidString(p) {
		return false
	}
	for _, r := range p {
		switch {
		case r == '-' || r == '_' || r == '.' || r == '~' || r == ':' || r == '|' || r == '/':
		case isLN(r):
		default:
			return false
		}
	}
	return true
}

// CanPointer reports whether the whole selector can be spelled as a JSON
// Pointer.
func CanPointer(parts []string) bool {
	if len(parts) == 1 && parts[0] == "" {
		return true // the empty pointer "" has the single part ""
	}
	if len(parts) == 0 {
		return false
	}
	for _, p := range parts {
		if !pointerPartOK(p) {
			return false
		}
	}
	return true
}

// CanBexpr reports whether the selector can be spelled in the dotted/bracket
// syntax (first part must be an identifier; later parts anything).
func CanBexpr(parts []string) bool {
	return len(parts) > 0 && IsSafeIdent(parts[0])
}

// ---------------------------------------------------------------------------
// rendering

type Renderer struct {
	R *rand.Rand
	// MaxRedundantParens bounds extra parentheses per path from the root.
	MaxRedundantParens int
	// Plain: deterministic, minimal layout (single spaces, no extras).
	Plain bool
	// KeepSpell: never change the spelling / style chosen in the tree
	// (unset spellings fall back to the plainest admissible one).
	KeepSpell bool
	// counters (observability for reach conditions)
	NeededParens    int
	RedundantParens int
}

func (r *Renderer) chance(p float64) bool {
	return !r.Plain && r.R != nil && r.R.Float64() < p
}

var wsChoices = []string{" ", " ", " ", "  ", "\t", "\n", "\r\n", " \t ", "\r"}

func (r *Renderer) ws() string {
	if r.Plain || r.R == nil {
		return " "
	}
	return wsChoices[r.R.Intn(len(wsChoices))]
}

func (r *Renderer) ows() string {
	if r.Plain || r.R == nil {
		return ""
	}
	if r.R.Intn(2) == 0 {
		return ""
	}
	return r.ws()
}

// ows1 is optional whitespace that a plain rendering prints as one space.
func (r *Renderer) ows1() string {
	if r.Plain || r.R == nil {
		return " "
	}
	return r.ows()
}

func level(e Expr) int {
	switch e.(type) {
	case *Or, *Quant:
		return 1
	case *And:
		return 2
	case *Not:
		return 3
	default:
		return 4
	}
}

// Render returns the text of e as a complete input.
func (r *Renderer) Render(e Expr) string {
	body := r.render(e, 1, r.MaxRedundantParens)
	return r.ows() + body + r.ows()
}

func (r *Renderer) render(e Expr, min int, parens int) string {
	need := level(e) < min
	if need {
		r.NeededParens++
	}
	if !need && parens > 0 && r.chance(0.12) {
		need = true
		parens--
		r.RedundantParens++
	}
	if need {
		return "(" + r.ows() + r.render(e, 1, parens) + r.ows() + ")"
	}
	switch n := e.(type) {
	case *Or:
		return r.render(n.L, 2, parens) + r.ws() + "or" + r.ws() + r.render(n.R, 1, parens)
	case *And:
		return r.render(n.L, 3, parens) + r.ws() + "and" + r.ws() + r.render(n.R, 2, parens)
	case *Not:
		return "not" + r.ws() + r.render(n.X, 3, parens)
	case *Quant:
		op := "any"
		if n.All {
			op = "all"
		}
		var b string
		switch n.Mode {
		case BindDefault:
			b = n.Name
		case BindIndex:
			b = n.Name + r.ows() + "," + r.ows1() + "_"
		case BindValue:
			b = "_" + r.ows() + "," + r.ows1() + n.Name2
		case BindIndexValue:
			b = n.Name + r.ows() + "," + r.ows1() + n.Name2
		}
		body := r.render(n.Body, 1, parens)
		closeWS := r.ows1()
		if closeWS == "" && len(body) > 0 && body[len(body)-1] >= '0' && body[len(body)-1] <= '9' {
			// a number literal must be followed by whitespace, ")" or the end
			// of input - "}" is not in that set
			closeWS = r.ws()
		}
		return op + r.ws() + r.RenderSel(n.Sel) + r.ws() + "as" + r.ws() + b + r.ows1() + "{" + r.ows1() + body + closeWS + "}"
	case *Match:
		return r.renderMatch(n)
	}
	panic(fmt.Sprintf("xgen: unknown node %T", e))
}

func (r *Renderer) renderMatch(m *Match) string {
	sel := r.RenderSel(m.Sel)
	switch m.Op {
	case OpEq:
		return sel + r.ows1() + "==" + r.ows1() + r.RenderLit(m.Lit, true)
	case OpNe:
		return sel + r.ows1() + "!=" + r.ows1() + r.RenderLit(m.Lit, true)
	case OpIn, OpNotIn:
		kw := ""
		if m.Op == OpNotIn {
			kw = "not" + r.ws()
		}
		if m.Contains {
			return sel + r.ws() + kw + "contains" + r.ws() + r.RenderLit(m.Lit, true)
		}
		return r.RenderLit(m.Lit, true) + r.ws() + kw + "in" + r.ws() + sel
	case OpEmpty:
		return sel + r.ws() + "is" + r.ws() + "empty"
	case OpNotEmpty:
		return sel + r.ws() + "is" + r.ws() + "not" + r.ws() + "empty"
	case OpMatches:
		return sel + r.ws() + "matches" + r.ws() + r.RenderLit(m.Lit, true)
	case OpNotMatches:
		return sel + r.ws() + "not" + r.ws() + "matches" + r.ws() + r.RenderLit(m.Lit, true)
	}
	panic("xgen: bad op")
}

// EscapePointerPart applies the RFC 6901 escapes.
func EscapePointerPart(p string) string {
	return strings.ReplaceAll(strings.ReplaceAll(p, "~", "~0"), "/", "~1")
}

func (r *Renderer) RenderSel(s Sel) string {
	if s.JSONPointer {
		if len(s.Parts) == 1 && s.Parts[0] == "" {
			return `""`
		}
		var sb strings.Builder
		sb.WriteByte('"')
		for _, p := range s.Parts {
			sb.WriteByte('/')
			sb.WriteString(EscapePointerPart(p))
		}
		sb.WriteByte('"')
		return sb.String()
	}
	var sb strings.Builder
	sb.WriteString(s.Parts[0])
	for i := 1; i < len(s.Parts); i++ {
		p := s.Parts[i]
		sp := -1
		if i < len(s.Spell) {
			sp = s.Spell[i]
		}
		dotOK := IsSafeIdent(p) || IsDigits(p)
		rawOK := utf8.ValidString(p) && !strings.ContainsAny(p, "`\r")
		if sp == -1 || (sp == SpDot && !dotOK) || (sp == SpBrackRaw && !rawOK) {
			// choose
			switch {
			case dotOK && (r.Plain || r.KeepSpell || r.R == nil || r.R.Intn(3) > 0):
				sp = SpDot
			case rawOK && !r.Plain && !r.KeepSpell && r.R != nil && r.R.Intn(3) == 0:
				sp = SpBrackRaw
			default:
				sp = SpBrackDQ
			}
		}
		switch sp {
		case SpDot:
			sb.WriteString("." + p)
		case SpBrackDQ:
			sb.WriteString("[" + r.ows() + r.Quote(p) + r.ows() + "]")
		case SpBrackRaw:
			sb.WriteString("[" + r.ows() + "`" + p + "`" + r.ows() + "]")
		}
	}
	return sb.String()
}

// Quote renders s as a double-quoted literal the grammar can scan: the
// grammar ends a string at the first `"`, so quotes are written as \x22.
func (r *Renderer) Quote(s string) string {
	var sb strings.Builder
	sb.WriteByte('"')
	for i := 0; i < len(s); {
		c := s[i]
		if c < utf8.RuneSelf {
			i++
			switch {
			case c == '"':
				if r.chance(0.3) {
					sb.WriteString(`\042`)
				} else {
					sb.WriteString(`\x22`)
				}
			case c == '\\':
				sb.WriteString(`\\`)
			case c == '\n':
				sb.WriteString(`\n`)
			case c == '\t':
				if r.chance(0.5) {
					sb.WriteByte('\t') // a raw tab is legal inside "..."
				} else {
					sb.WriteString(`\t`)
				}
			case c == '\r':
				sb.WriteString(`\r`)
			case c < 0x20 || c == 0x7f:
				fmt.Fprintf(&sb, `\x%02x`, c)
			default:
				if r.chance(0.03) {
					fmt.Fprintf(&sb, `\x%02x`, c)
				} else {
					sb.WriteByte(c)
				}
			}
			continue
		}
		rn, n := utf8.DecodeRuneInString(s[i:])
		if rn == utf8.RuneError && n == 1 {
			fmt.Fprintf(&sb, `\x%02x`, c)
			i++
			continue
		}
		if r.chance(0.2) {
			if rn > 0xffff {
				fmt.Fprintf(&sb, `\U%08x`, rn)
			} else {
				fmt.Fprintf(&sb, `\u%04x`, rn)
			}
		} else {
			sb.WriteString(s[i : i+n])
		}
		i += n
	}
	sb.WriteByte('"')
	return sb.String()
}

// StylesFor lists the literal styles that can spell s.
func StylesFor(s string) []int {
	st := []int{StyleQuoted}
	if utf8.ValidString(s) && !strings.ContainsAny(s, "`\r") {
		st = append(st, StyleBacktick)
	}
	if IsBareLit(s) {
		st = append(st, StyleBare)
	}
	if IsNumber(s) {
		st = append(st, StyleNumber)
	}
	return st
}

// RenderLit renders a literal. A number style literal must be followed by
// whitespace, ")" or the end of input; the renderer's callers guarantee this
// only when mayNumber is true - inside braces a number may be directly
// followed by "}", which the grammar rejects, so callers that cannot
// guarantee it get a quoted form instead. (Braces are always padded by the
// renderer, so mayNumber is true everywhere today.)
func (r *Renderer) RenderLit(l *Lit, mayNumber bool) string {
	style := l.Style
	ok := false
	for _, s := range StylesFor(l.S) {
		if s == style {
			ok = true
		}
	}
	if style == StyleNumber && !mayNumber {
		ok = false
	}
	if !ok || style == StyleAuto {
		if r.KeepSpell && style != StyleAuto && !ok {
			style = StyleQuoted
		} else if r.Plain || r.R == nil {
			style = StyleQuoted
		} else {
			sts := StylesFor(l.S)
			style = sts[r.R.Intn(len(sts))]
			if style == StyleNumber && !mayNumber {
				style = StyleQuoted
			}
		}
	}
	switch style {
	case StyleBare:
		return r.renderBare(l.S)
	case StyleNumber:
		return l.S
	case StyleBacktick:
		return "`" + l.S + "`"
	default:
		return r.Quote(l.S)
	}
}

// renderBare spells a bare value. A bare value is parsed as a selector and
// denotes its parts joined by ".", so `cfg.a.b`, `cfg["a"].b`, `cfg["a.b"]`
// and cfg[`a`]["b"] all denote the string "cfg.a.b".
func (r *Renderer) renderBare(s string) string {
	plain := isPlainBare(s)
	if plain && (r.Plain || r.KeepSpell || r.R == nil || r.R.Intn(2) > 0) {
		return s
	}
	chance := func(n int) bool { return r.R != nil && !r.Plain && r.R.Intn(n) == 0 }
	parts := strings.Split(s, ".")
	if len(parts) < 2 {
		return s
	}
	var sb strings.Builder
	sb.WriteString(parts[0])
	for i := 1; i < len(parts); {
		j := i + 1
		if chance(2) {
			for j < len(parts) && !chance(3) {
				j++ // merge several parts into one index string containing dots
			}
		}
		p := strings.Join(parts[i:j], ".")
		dotOK := j == i+1 && (IsSafeIdent(p) || IsDigits(p))
		rawOK := utf8.ValidString(p) && !strings.ContainsAny(p, "`\r")
		switch {
		case dotOK && !chance(2):
			sb.WriteString("." + p)
		case rawOK && chance(2):
			sb.WriteString("[" + r.ows() + "`" + p + "`" + r.ows() + "]")
		default:
			sb.WriteString("[" + r.ows() + r.Quote(p) + r.ows() + "]")
		}
		i = j
	}
	return sb.String()
}

// ---------------------------------------------------------------------------
// normalisation, canonical form, conversion from the real parser's tree

// Normalize folds double negation the way the parser does.
func Normalize(e Expr) Expr {
	switch n := e.(type) {
	case *Not:
		x := Normalize(n.X)
		if in, ok := x.(*Not); ok {
			return in.X
		}
		return &Not{X: x}
	case *And:
		return &And{L: Normalize(n.L), R: Normalize(n.R)}
	case *Or:
		return &Or{L: Normalize(n.L), R: Normalize(n.R)}
	case *Quant:
		q := *n
		q.Body = Normalize(n.Body)
		return &q
	}
	return e
}

// Canon is a canonical, layout-free text of a tree (used for comparison and
// signatures): it records everything the parser's tree records.
func Canon(e Expr) string {
	var sb strings.Builder
	canon(&sb, e)
	return sb.String()
}

func canonSel(sb *strings.Builder, s Sel) {
	if s.JSONPointer {
		sb.WriteString("ptr")
	} else {
		sb.WriteString("sel")
	}
	fmt.Fprintf(sb, "%q", s.Parts)
}

func canon(sb *strings.Builder, e Expr) {
	switch n := e.(type) {
	case *Or:
		sb.WriteString("Or(")
		canon(sb, n.L)
		sb.WriteString(",")
		canon(sb, n.R)
		sb.WriteString(")")
	case *And:
		sb.WriteString("And(")
		canon(sb, n.L)
		sb.WriteString(",")
		canon(sb, n.R)
		sb.WriteString(")")
	case *Not:
		sb.WriteString("Not(")
		canon(sb, n.X)
		sb.WriteString(")")
	case *Quant:
		if n.All {
			sb.WriteString("All(")
		} else {
			sb.WriteString("Any(")
		}
		canonSel(sb, n.Sel)
		switch n.Mode {
		case BindDefault:
			fmt.Fprintf(sb, ",default %q,", n.Name)
		case BindIndex:
			fmt.Fprintf(sb, ",index %q,", n.Name)
		case BindValue:
			fmt.Fprintf(sb, ",value %q,", n.Name2)
		case BindIndexValue:
			fmt.Fprintf(sb, ",index %q value %q,", n.Name, n.Name2)
		}
		canon(sb, n.Body)
		sb.WriteString(")")
	case *Match:
		fmt.Fprintf(sb, "Match(%s,", OpNames[n.Op])
		canonSel(sb, n.Sel)
		if n.Lit != nil && n.Op.HasValue() {
			fmt.Fprintf(sb, ",%q", n.Lit.S)
		} else {
			sb.WriteString(",nil")
		}
		sb.WriteString(")")
	case nil:
		sb.WriteString("<nil>")
	default:
		fmt.Fprintf(sb, "<%T>", e)
	}
}

// FromGrammar converts a tree built by the real parser.
func FromGrammar(e grammar.Expression) (Expr, error) {
	switch n := e.(type) {
	case *grammar.UnaryExpression:
		if n == nil {
			return nil, fmt.Errorf("nil *UnaryExpression")
		}
		if n.Operator != grammar.UnaryOpNot {
			return nil, fmt.Errorf("unknown unary operator %d", n.Operator)
		}
		x, err := FromGrammar(n.Operand)
		if err != nil {
			return nil, err
		}
		return &Not{X: x}, nil
	case *grammar.BinaryExpression:
		if n == nil {
			return nil, fmt.Errorf("nil *BinaryExpression")
		}
		l, err := FromGrammar(n.Left)
		if err != nil {
			return nil, err
		}
		r, err := FromGrammar(n.Right)
		if err != nil {
			return nil, err
		}
		switch n.Operator {
		case grammar.BinaryOpAnd:
			return &And{L: l, R: r}, nil
		case grammar.BinaryOpOr:
			return &Or{L: l, R: r}, nil
		}
		return nil, fmt.Errorf("unknown binary operator %d", n.Operator)
	case *grammar.MatchExpression:
		if n == nil {
			return nil, fmt.Errorf("nil *MatchExpression")
		}
		s, err := selFromGrammar(n.Selector)
		if err != nil {
			return nil, err
		}
		var op Op
		switch n.Operator {
		case grammar.MatchEqual:
			op = OpEq
		case grammar.MatchNotEqual:
			op = OpNe
		case grammar.MatchIn:
			op = OpIn
		case grammar.MatchNotIn:
			op = OpNotIn
		case grammar.MatchIsEmpty:
			op = OpEmpty
		case grammar.MatchIsNotEmpty:
			op = OpNotEmpty
		case grammar.MatchMatches:
			op = OpMatches
		case grammar.MatchNotMatches:
			op = OpNotMatches
		default:
			return nil, fmt.Errorf("unknown match operator %d", n.Operator)
		}
		m := &Match{Sel: s, Op: op}
		if op.HasValue() {
			if n.Value == nil {
				return nil, fmt.Errorf("operator %s without value", op)
			}
			m.Lit = &Lit{S: n.Value.Raw}
		} else if n.Value != nil {
			return nil, fmt.Errorf("operator %s with a value %q", op, n.Value.Raw)
		}
		return m, nil
	case *grammar.CollectionExpression:
		if n == nil {
			return nil, fmt.Errorf("nil *CollectionExpression")
		}
		s, err := selFromGrammar(n.Selector)
		if err != nil {
			return nil, err
		}
		q := &Quant{Sel: s}
		switch n.Op {
		case grammar.CollectionOpAll:
			q.All = true
		case grammar.CollectionOpAny:
		default:
			return nil, fmt.Errorf("unknown collection operator %q", n.Op)
		}
		b := n.NameBinding
		switch b.Mode {
		case grammar.CollectionBindDefault:
			q.Mode, q.Name = BindDefault, b.Default
			if b.Index != "" || b.Value != "" {
				return nil, fmt.Errorf("default binding with index/value names %q %q", b.Index, b.Value)
			}
		case grammar.CollectionBindIndex:
			q.Mode, q.Name = BindIndex, b.Index
			if b.Default != "" || b.Value != "" {
				return nil, fmt.Errorf("index binding with default/value names")
			}
		case grammar.CollectionBindValue:
			q.Mode, q.Name2 = BindValue, b.Value
			if b.Default != "" || b.Index != "" {
				return nil, fmt.Errorf("value binding with default/index names")
			}
		case grammar.CollectionBindIndexAndValue:
			q.Mode, q.Name, q.Name2 = BindIndexValue, b.Index, b.Value
			if b.Default != "" {
				return nil, fmt.Errorf("index&value binding with default name")
			}
		default:
			return nil, fmt.Errorf("unknown binding mode %q", b.Mode)
		}
		q.Body, err = FromGrammar(n.Inner)
		if err != nil {
			return nil, err
		}
		return q, nil
	case nil:
		return nil, fmt.Errorf("nil expression")
	}
	return nil, fmt.Errorf("unknown node type %T", e)
}

func selFromGrammar(s grammar.Selector) (Sel, error) {
	out := Sel{Parts: append([]string(nil), s.Path...)}
	switch s.Type {
	case grammar.SelectorTypeBexpr:
	case grammar.SelectorTypeJsonPointer:
		out.JSONPointer = true
	default:
		return out, fmt.Errorf("selector type %d", s.Type)
	}
	if len(s.Path) == 0 {
		return out, fmt.Errorf("selector with empty path")
	}
	return out, nil
}

// ---------------------------------------------------------------------------
// random trees that need no datum (parser-side properties)

var IdentPool = []string{"a", "b", "c", "foo", "Bar", "x1", "a_b", "a/b", "nota", "android", "order", "inner", "isx",
	"anyone", "alloy", "asx", "emptyx", "matchesx", "containsx", "Z", "q_", "n0t", "i", "v", "k", "item", "port", "tags", "meta"}

var PartPool = []string{"a", "b", "foo", "0", "1", "10", "007", "x y", "", "A", " a", "a.b", "a/b", "~", "~1", "é", "日本", "a-b", "k:v", "p|q", "_", "in",
	"not", "9lives", "\"q\"", "back`tick", "tab\there", "nl\nx", "\\", "emoji😀", "\x00", "ünï", "a_b", "B4", "\ufffd", "a\ufffdb", "v1", "2024", "v½", "x²", "¾", "Ⅷ", "٣", "a٣",
	"9223372036854775807", "9223372036854775808", "18446744073709551615", "18446744073709551616", "99999999999999999999", "447911123456789012345", "00000000000000000000001", "4294967296"}

var LitPool = []string{"", "1", "0", "-1", "1.5", "007", "abc", "true", "false", "foo.bar", "a.0", "x y", "/usr/bin", "/", "/a~1b", "//", "\"", "\\", "`", "\r", "a\r\nb",
	"é", "日本語", "\x00", "\xff\xfe", "^a.*b$", "[0-9]+", "(", "not", "in", "-0", "1e3", "0x10", "1_000", "+1", "NaN", "a/b", "T", "emoji😀", "\t", " lead", "trail ", "%", "{}", "v1.18446744073709551615", "a.99999999999999999999.b", "18446744073709551616", "a  b", "a\tb", "   ",
	strings.Repeat("9", 400), "1" + strings.Repeat("0", 320), "-" + strings.Repeat("7", 310) + ".5", "0." + strings.Repeat("0", 400) + "1", strings.Repeat("1", 40), "a==b", " "}

func pick(r *rand.Rand, l []string) string { return l[r.Intn(len(l))] }

// RandSel draws a selector; pointer selectors only when every part allows it.
func RandSel(r *rand.Rand) Sel {
	n := 1 + r.Intn(3)
	if r.Intn(8) == 0 {
		n = 4 + r.Intn(3)
	}
	if r.Intn(3) == 0 {
		// JSON pointer
		if r.Intn(30) == 0 {
			return Sel{Parts: []string{""}, JSONPointer: true}
		}
		var parts []string
		for len(parts) < n {
			p := pick(r, PartPool)
			if r.Intn(2) == 0 {
				p = pick(r, IdentPool)
			}
			if pointerPartOK(p) {
				parts = append(parts, p)
			}
		}
		return Sel{Parts: parts, JSONPointer: true}
	}
	parts := []string{pick(r, IdentPool)}
	spell := []int{SpDot}
	for len(parts) < n {
		if r.Intn(2) == 0 {
			parts = append(parts, pick(r, IdentPool))
		} else {
			parts = append(parts, pick(r, PartPool))
		}
		spell = append(spell, r.Intn(3))
	}
	return Sel{Parts: parts, Spell: spell}
}

func RandLit(r *rand.Rand) *Lit {
	s := pick(r, LitPool)
	switch r.Intn(7) {
	case 6:
		// dotted text: as a bare value it can be spelled with index parts
		s = pick(r, IdentPool)
		for i, n := 0, 1+r.Intn(3); i < n; i++ {
			if r.Intn(2) == 0 {
				s += "." + pick(r, IdentPool)
			} else {
				s += "." + pick(r, PartPool)
			}
		}
	case 0:
		s = pick(r, IdentPool)
	case 1:
		s = strconv.Itoa(r.Intn(2000) - 1000)
	case 2:
		// random bytes / runes
		n := r.Intn(6)
		var sb strings.Builder
		for i := 0; i < n; i++ {
			switch r.Intn(4) {
			case 0:
				sb.WriteByte(byte(r.Intn(256)))
			case 1:
				sb.WriteRune(rune(0x20 + r.Intn(0x5f)))
			case 2:
				sb.WriteRune(rune(r.Intn(0x3000)))
			default:
				sb.WriteString(pick(r, []string{"\"", "`", "\\", "/", "~", "\n", "\r", " "}))
			}
		}
		s = sb.String()
	}
	sts := StylesFor(s)
	return &Lit{S: s, Style: sts[r.Intn(len(sts))]}
}

func RandMatch(r *rand.Rand) *Match {
	m := &Match{Sel: RandSel(r), Op: Op(r.Intn(8))}
	if m.Op.HasValue() {
		m.Lit = RandLit(r)
	}
	if m.Op == OpIn || m.Op == OpNotIn {
		m.Contains = r.Intn(2) == 0
	}
	return m
}

// RandTree draws a tree of the given depth budget.
func RandTree(r *rand.Rand, depth int) Expr {
	if depth <= 0 || r.Intn(4) == 0 {
		return RandMatch(r)
	}
	switch r.Intn(7) {
	case 0, 1:
		return &And{L: RandTree(r, depth-1), R: RandTree(r, depth-1)}
	case 2, 3:
		return &Or{L: RandTree(r, depth-1), R: RandTree(r, depth-1)}
	case 4:
		return &Not{X: RandTree(r, depth-1)}
	case 5:
		q := &Quant{All: r.Intn(2) == 0, Sel: RandSel(r), Mode: BindMode(r.Intn(4)), Body: RandTree(r, depth-1)}
		q.Name = pick(r, IdentPool)
		q.Name2 = pick(r, IdentPool)
		switch q.Mode {
		case BindDefault, BindIndex:
			q.Name2 = ""
		case BindValue:
			q.Name = ""
		}
		return q
	default:
		return RandMatch(r)
	}
}

// Size counts nodes.
func Size(e Expr) int {
	switch n := e.(type) {
	case *Or:
		return 1 + Size(n.L) + Size(n.R)
	case *And:
		return 1 + Size(n.L) + Size(n.R)
	case *Not:
		return 1 + Size(n.X)
	case *Quant:
		return 1 + Size(n.Body)
	}
	return 1
}

func isLN(r rune) bool { return unicode.Is(unicode.L, r) || unicode.Is(unicode.N, r) }

// Diff names the first structural difference between two trees (pre-order),
// or "" if they are equal. Used for violation signatures.
func Diff(a, b Expr) string {
	ka, kb := fmt.Sprintf("%T", a), fmt.Sprintf("%T", b)
	if ka != kb {
		return "node-kind:" + strings.TrimPrefix(ka, "*xgen.") + "-vs-" + strings.TrimPrefix(kb, "*xgen.")
	}
	selDiff := func(x, y Sel) string {
		if x.JSONPointer != y.JSONPointer {
			return "selector-type"
		}
		if fmt.Sprintf("%q", x.Parts) != fmt.Sprintf("%q", y.Parts) {
			return "selector-path"
		}
		return ""
	}
	switch x := a.(type) {
	case *Or:
		y := b.(*Or)
		if d := Diff(x.L, y.L); d != "" {
			return d
		}
		return Diff(x.R, y.R)
	case *And:
		y := b.(*And)
		if d := Diff(x.L, y.L); d != "" {
			return d
		}
		return Diff(x.R, y.R)
	case *Not:
		return Diff(x.X, b.(*Not).X)
	case *Quant:
		y := b.(*Quant)
		if x.All != y.All {
			return "quantifier-op"
		}
		if d := selDiff(x.Sel, y.Sel); d != "" {
			return "quantifier-" + d
		}
		if x.Mode != y.Mode {
			return "binding-mode"
		}
		nx, ny := [2]string{x.Name, x.Name2}, [2]string{y.Name, y.Name2}
		switch x.Mode {
		case BindDefault, BindIndex:
			nx[1], ny[1] = "", ""
		case BindValue:
			nx[0], ny[0] = "", ""
		}
		if nx != ny {
			return "binding-names"
		}
		return Diff(x.Body, y.Body)
	case *Match:
		y := b.(*Match)
		if x.Op != y.Op {
			return "operator:" + x.Op.String() + "-vs-" + y.Op.String()
		}
		if d := selDiff(x.Sel, y.Sel); d != "" {
			return d
		}
		if x.Op.HasValue() {
			if (x.Lit == nil) != (y.Lit == nil) {
				return "literal-presence"
			}
			if x.Lit != nil && x.Lit.S != y.Lit.S {
				return "literal-text"
			}
		}
	}
	return ""
}
