// Package pegread reads pigeon's .peg syntax generically: initializer block,
// rules with display names, ordered choice, sequences, labels, & ! &{..} !{..}
// predicates, ? * +, rule references, string / character / raw literals with
// the i suffix, character classes with pigeon's escape and range rules, the
// any matcher, groups, code blocks delimited by a Go-lexer-aware brace matcher
// and both comment styles. Expression nodes are numbered in pigeon's
// pre-order, which is how the generator names the action functions.
package pegread

import (
	"bytes"
	"fmt"
	"strconv"
	"strings"
	"unicode"
	"unicode/utf8"
)

type Node struct {
	Kind       string // choice action seq labeled ruleref lit class any and not andcode notcode zeroorone zeroormore oneormore
	Label      string
	Name       string
	Val        string
	Want       string
	IgnoreCase bool
	Inverted   bool
	Chars      []rune
	Ranges     []rune
	Classes    []string
	Code       string
	Index      int // pre-order index within the rule (1 = the rule's expression)
	Kids       []*Node
	// Args: labels in scope for an action / code predicate, in order.
	Args []string
}

type Rule struct {
	Name        string
	DisplayName string
	Expr        *Node
}

type Grammar struct {
	Init  string
	Rules []*Rule
}

type reader struct {
	s   string
	pos int
}

type Error struct{ Msg string }

func (e *Error) Error() string { return e.Msg }

func (r *reader) fail(format string, a ...interface{}) {
	line := 1 + strings.Count(r.s[:r.pos], "\n")
	panic(&Error{fmt.Sprintf("grammar.peg line %d: %s", line, fmt.Sprintf(format, a...))})
}

// Parse reads a .peg file. A construct the reader does not understand is an
// *Error (which makes C20 inconclusive, not violated).
func Parse(src string) (g *Grammar, err error) {
	defer func() {
		if x := recover(); x != nil {
			if e, ok := x.(*Error); ok {
				g, err = nil, e
				return
			}
			panic(x)
		}
	}()
	r := &reader{s: src}
	g = &Grammar{}
	r.skip()
	if r.peek() == '{' {
		g.Init = r.codeBlock()
		r.skip()
	}
	for r.pos < len(r.s) {
		g.Rules = append(g.Rules, r.rule())
		r.skip()
	}
	for _, rl := range g.Rules {
		n := 0
		number(rl.Expr, &n)
		scope(rl.Expr, nil)
	}
	return g, nil
}

func (r *reader) peek() byte {
	if r.pos < len(r.s) {
		return r.s[r.pos]
	}
	return 0
}

// skip whitespace, newlines, semicolons and comments.
func (r *reader) skip() {
	for r.pos < len(r.s) {
		c := r.s[r.pos]
		switch {
		case c == ' ' || c == '\t' || c == '\r' || c == '\n' || c == ';':
			r.pos++
		case strings.HasPrefix(r.s[r.pos:], "//"):
			i := strings.IndexByte(r.s[r.pos:], '\n')
			if i < 0 {
				r.pos = len(r.s)
			} else {
				r.pos += i
			}
		case strings.HasPrefix(r.s[r.pos:], "/*"):
			i := strings.Index(r.s[r.pos+2:], "*/")
			if i < 0 {
				r.fail("unterminated comment")
			}
			r.pos += i + 4
		default:
			return
		}
	}
}

func isIdentStart(c rune) bool { return c == '_' || unicode.IsLetter(c) }
func isIdentPart(c rune) bool  { return c == '_' || unicode.IsLetter(c) || unicode.IsDigit(c) }

func (r *reader) ident() string {
	st := r.pos
	c, n := utf8.DecodeRuneInString(r.s[r.pos:])
	if !isIdentStart(c) {
		return ""
	}
	r.pos += n
	for r.pos < len(r.s) {
		c, n = utf8.DecodeRuneInString(r.s[r.pos:])
		if !isIdentPart(c) {
			break
		}
		r.pos += n
	}
	return r.s[st:r.pos]
}

// atRuleStart: Ident ("display")? ( "<-" | "←" | "=" | "⟵" )
func (r *reader) atRuleStart() bool {
	save := r.pos
	defer func() { r.pos = save }()
	if r.ident() == "" {
		return false
	}
	r.skip()
	if c := r.peek(); c == '"' || c == '`' || c == '\'' {
		r.stringLit()
		r.skip()
	}
	return r.arrow()
}

func (r *reader) arrow() bool {
	for _, a := range []string{"<-", "←", "⟵", "="} {
		if strings.HasPrefix(r.s[r.pos:], a) {
			r.pos += len(a)
			return true
		}
	}
	return false
}

func (r *reader) rule() *Rule {
	name := r.ident()
	if name == "" {
		r.fail("rule name expected, found %q", r.s[r.pos:min(len(r.s), r.pos+20)])
	}
	rl := &Rule{Name: name}
	r.skip()
	if c := r.peek(); c == '"' || c == '`' || c == '\'' {
		// pigeon keeps the display name as written, quotes included
		_, rl.DisplayName = r.stringLit()
		r.skip()
	}
	if !r.arrow() {
		r.fail("rule %s: <- expected", name)
	}
	rl.Expr = r.choice()
	return rl
}

func min(a, b int) int {
	if a < b {
		return a
	}
	return b
}

func (r *reader) choice() *Node {
	first := r.action()
	alts := []*Node{first}
	for {
		r.skip()
		if r.peek() == '/' && !strings.HasPrefix(r.s[r.pos:], "//") && !strings.HasPrefix(r.s[r.pos:], "/*") {
			r.pos++
			alts = append(alts, r.action())
			continue
		}
		break
	}
	if len(alts) == 1 {
		return first
	}
	return &Node{Kind: "choice", Kids: alts}
}

func (r *reader) action() *Node {
	seq := r.seq()
	r.skip()
	if r.peek() == '{' {
		code := r.codeBlock()
		return &Node{Kind: "action", Code: code, Kids: []*Node{seq}}
	}
	return seq
}

func (r *reader) seq() *Node {
	var items []*Node
	for {
		r.skip()
		if r.pos >= len(r.s) {
			break
		}
		c := r.peek()
		if c == '/' || c == ')' || c == '{' || r.atRuleStart() {
			break
		}
		items = append(items, r.labeled())
	}
	if len(items) == 0 {
		r.fail("empty sequence")
	}
	if len(items) == 1 {
		return items[0]
	}
	return &Node{Kind: "seq", Kids: items}
}

func (r *reader) labeled() *Node {
	save := r.pos
	if id := r.ident(); id != "" {
		r.skip()
		if r.peek() == ':' {
			r.pos++
			r.skip()
			return &Node{Kind: "labeled", Label: id, Kids: []*Node{r.prefixed()}}
		}
	}
	r.pos = save
	return r.prefixed()
}

func (r *reader) prefixed() *Node {
	c := r.peek()
	if c == '&' || c == '!' {
		r.pos++
		r.skip()
		if r.peek() == '{' {
			code := r.codeBlock()
			if c == '&' {
				return &Node{Kind: "andcode", Code: code}
			}
			return &Node{Kind: "notcode", Code: code}
		}
		k := "and"
		if c == '!' {
			k = "not"
		}
		return &Node{Kind: k, Kids: []*Node{r.suffixed()}}
	}
	return r.suffixed()
}

func (r *reader) suffixed() *Node {
	p := r.primary()
	r.skip()
	switch r.peek() {
	case '?':
		r.pos++
		return &Node{Kind: "zeroorone", Kids: []*Node{p}}
	case '*':
		r.pos++
		return &Node{Kind: "zeroormore", Kids: []*Node{p}}
	case '+':
		r.pos++
		return &Node{Kind: "oneormore", Kids: []*Node{p}}
	}
	return p
}

func (r *reader) primary() *Node {
	r.skip()
	c := r.peek()
	switch {
	case c == '"' || c == '\'' || c == '`':
		val, raw := r.stringLit()
		_ = raw
		n := &Node{Kind: "lit", Val: val}
		if r.peek() == 'i' && !(r.pos+1 < len(r.s) && isIdentPart(rune(r.s[r.pos+1]))) {
			r.pos++
			n.IgnoreCase = true
			n.Val = strings.ToLower(val)
		}
		n.Want = strconv.Quote(n.Val)
		if n.IgnoreCase {
			n.Want += "i"
		}
		return n
	case c == '[':
		return r.class()
	case c == '.':
		r.pos++
		return &Node{Kind: "any"}
	case c == '(':
		r.pos++
		e := r.choice()
		r.skip()
		if r.peek() != ')' {
			r.fail(") expected")
		}
		r.pos++
		return e
	case c == '%':
		r.fail("throw / recovery expressions are not supported by this reader")
	}
	if id := r.ident(); id != "" {
		return &Node{Kind: "ruleref", Name: id}
	}
	r.fail("unexpected %q", r.s[r.pos:min(len(r.s), r.pos+20)])
	return nil
}

// stringLit reads a "..." '...' or `...` literal and returns its value.
func (r *reader) stringLit() (string, string) {
	q := r.s[r.pos]
	st := r.pos
	r.pos++
	for r.pos < len(r.s) && r.s[r.pos] != q {
		if r.s[r.pos] == '\\' && q != '`' {
			r.pos++
		}
		r.pos++
	}
	if r.pos >= len(r.s) {
		r.fail("unterminated literal")
	}
	r.pos++
	raw := r.s[st:r.pos]
	switch q {
	case '`':
		return raw[1 : len(raw)-1], raw
	case '"':
		v, err := strconv.Unquote(raw)
		if err != nil {
			r.fail("bad literal %s", raw)
		}
		return v, raw
	default:
		// single quoted: may hold several characters in pigeon; unescape as a
		// double-quoted string with ' and " swapped in escapes
		inner := raw[1 : len(raw)-1]
		inner = strings.ReplaceAll(inner, `\'`, `'`)
		inner = strings.ReplaceAll(inner, `"`, `\"`)
		v, err := strconv.Unquote(`"` + inner + `"`)
		if err != nil {
			r.fail("bad literal %s", raw)
		}
		return v, raw
	}
}

func (r *reader) class() *Node {
	st := r.pos
	r.pos++
	for r.pos < len(r.s) && r.s[r.pos] != ']' {
		if r.s[r.pos] == '\\' {
			r.pos++
		}
		r.pos++
	}
	if r.pos >= len(r.s) {
		r.fail("unterminated character class")
	}
	r.pos++
	n := &Node{Kind: "class"}
	if r.peek() == 'i' && !(r.pos+1 < len(r.s) && isIdentPart(rune(r.s[r.pos+1]))) {
		r.pos++
		n.IgnoreCase = true
	}
	n.Val = r.s[st:r.pos]
	parseClass(n, r)
	return n
}

// parseClass follows pigeon's CharClassMatcher.parse.
func parseClass(n *Node, rd *reader) {
	raw := n.Val
	if n.IgnoreCase {
		raw = raw[:len(raw)-1]
	}
	raw = raw[1 : len(raw)-1]
	if len(raw) == 0 {
		return
	}
	if raw[0] == '^' {
		n.Inverted = true
		raw = raw[1:]
	}
	rs := []rune(raw)
	var chars []rune
	for i := 0; i < len(rs); i++ {
		rn := rs[i]
		if rn != '\\' {
			chars = append(chars, rn)
			continue
		}
		i++
		if i >= len(rs) {
			rd.fail("bad escape in class %s", n.Val)
		}
		rn = rs[i]
		switch rn {
		case ']':
			chars = append(chars, rn)
			continue
		case 'p':
			i++
			if i < len(rs) && rs[i] == '{' {
				var buf bytes.Buffer
				for i++; i < len(rs) && rs[i] != '}'; i++ {
					buf.WriteRune(rs[i])
				}
				n.Classes = append(n.Classes, buf.String())
			} else if i < len(rs) {
				n.Classes = append(n.Classes, string(rs[i]))
			}
			continue
		}
		consume := 0
		switch {
		case rn == 'x':
			consume = 2
		case rn == 'u':
			consume = 4
		case rn == 'U':
			consume = 8
		case rn >= '0' && rn <= '7':
			consume = 2
		}
		var buf bytes.Buffer
		buf.WriteRune(rn)
		for k := 0; k < consume && i+1 < len(rs); k++ {
			i++
			buf.WriteRune(rs[i])
		}
		v, _, _, err := strconv.UnquoteChar("\\"+buf.String(), 0)
		if err != nil {
			rd.fail("bad escape \\%s in class %s", buf.String(), n.Val)
		}
		chars = append(chars, v)
	}
	inRange, wasRange := false, false
	for i, c := range chars {
		if inRange {
			n.Ranges = append(n.Ranges, c)
			inRange = false
			wasRange = true
			continue
		}
		if c == '-' && !wasRange && len(n.Chars) > 0 && i < len(chars)-1 {
			inRange = true
			wasRange = false
			n.Ranges = append(n.Ranges, n.Chars[len(n.Chars)-1])
			n.Chars = n.Chars[:len(n.Chars)-1]
			continue
		}
		wasRange = false
		n.Chars = append(n.Chars, c)
	}
	if n.IgnoreCase {
		for i, c := range n.Chars {
			n.Chars[i] = unicode.ToLower(c)
		}
		for i, c := range n.Ranges {
			n.Ranges[i] = unicode.ToLower(c)
		}
	}
}

// codeBlock reads { ... } with Go lexical structure (strings, runes, raw
// strings, comments) and returns the text between the outer braces.
func (r *reader) codeBlock() string {
	if r.peek() != '{' {
		r.fail("{ expected")
	}
	st := r.pos + 1
	depth := 0
	for r.pos < len(r.s) {
		c := r.s[r.pos]
		switch {
		case c == '{':
			depth++
			r.pos++
		case c == '}':
			depth--
			r.pos++
			if depth == 0 {
				return r.s[st : r.pos-1]
			}
		case c == '"':
			r.pos++
			for r.pos < len(r.s) && r.s[r.pos] != '"' {
				if r.s[r.pos] == '\\' {
					r.pos++
				}
				r.pos++
			}
			r.pos++
		case c == '`':
			r.pos++
			for r.pos < len(r.s) && r.s[r.pos] != '`' {
				r.pos++
			}
			r.pos++
		case c == '\'':
			r.pos++
			for r.pos < len(r.s) && r.s[r.pos] != '\'' {
				if r.s[r.pos] == '\\' {
					r.pos++
				}
				r.pos++
			}
			r.pos++
		case strings.HasPrefix(r.s[r.pos:], "//"):
			for r.pos < len(r.s) && r.s[r.pos] != '\n' {
				r.pos++
			}
		case strings.HasPrefix(r.s[r.pos:], "/*"):
			i := strings.Index(r.s[r.pos+2:], "*/")
			if i < 0 {
				r.fail("unterminated comment in code block")
			}
			r.pos += i + 4
		default:
			r.pos++
		}
	}
	r.fail("unterminated code block")
	return ""
}

// number assigns pigeon's pre-order expression indices.
func number(n *Node, next *int) {
	*next++
	n.Index = *next
	for _, k := range n.Kids {
		number(k, next)
	}
}

// scope computes the labels in scope for every action / code predicate by
// mirroring the engine's variable-frame discipline: a frame is opened by a
// rule, every choice alternative, the inside of a label, predicates and
// repetitions; a label is recorded in the frame that encloses it; a sequence
// and an action do not open frames. An action sees every label of its frame
// that is set inside its expression; a code predicate sees the labels set
// before it.
func scope(n *Node, frame *[]string) {
	if frame == nil {
		frame = &[]string{}
	}
	switch n.Kind {
	case "choice":
		for _, k := range n.Kids {
			f := []string{}
			scope(k, &f)
		}
	case "action":
		before := len(*frame)
		scope(n.Kids[0], frame)
		n.Args = append([]string(nil), (*frame)[before:]...)
		// labels set earlier in the same frame are visible too
		n.Args = append(append([]string(nil), (*frame)[:before]...), n.Args...)
	case "seq":
		for _, k := range n.Kids {
			scope(k, frame)
		}
	case "labeled":
		f := []string{}
		scope(n.Kids[0], &f)
		*frame = append(*frame, n.Label)
	case "andcode", "notcode":
		n.Args = append([]string(nil), (*frame)...)
	case "and", "not", "zeroorone", "zeroormore", "oneormore":
		f := []string{}
		scope(n.Kids[0], &f)
	}
}
