package props

import (
	"fmt"
	"math/rand"
	"reflect"
	"strings"

	bexpr "github.com/hashicorp/go-bexpr"

	"verif/internal/mon"
	"verif/internal/refsem"
	"verif/internal/univ"
	"verif/internal/xgen"
)

// C01 - Evaluate agrees with the reference semantics.

// evalCase is one (expression, datum, options) triple under both the real
// evaluator and the reference.
type evalCase struct {
	Expr  xgen.Expr
	Text  string
	Datum *univ.Node
	Opt   *refsem.Options
}

func (ec *evalCase) bexprOpts() []bexpr.Option {
	var o []bexpr.Option
	if ec.Opt == nil {
		return nil
	}
	if ec.Opt.TagName != "" {
		o = append(o, bexpr.WithTagName(ec.Opt.TagName))
	}
	if ec.Opt.Unknown != nil {
		o = append(o, bexpr.WithUnknownValue(ec.Opt.Unknown.Datum()))
	}
	if h, ok := ec.Opt.Hook.(realHook); ok && h != nil {
		o = append(o, bexpr.WithHookFn(h.Real()))
	}
	return o
}

// realHook is a reference hook that also has a reflect implementation.
type realHook interface {
	refsem.Hook
	Real() bexpr.ValueTransformationHookFn
}

// run evaluates with the real library. created=false if CreateEvaluator
// failed (err says why).
func (ec *evalCase) run() (o evalObs, created bool, cerr string) {
	ev, err, pan, _ := createEval(ec.Text, ec.bexprOpts()...)
	if pan != "" {
		return o, false, "panic: " + pan
	}
	if err != nil {
		return o, false, err.Error()
	}
	return evaluate(ev, ec.Datum.Datum()), true, ""
}

func describeOpt(o *refsem.Options) string {
	if o == nil {
		return "none"
	}
	var l []string
	if o.TagName != "" {
		l = append(l, "tag="+o.TagName)
	}
	if o.Unknown != nil {
		l = append(l, "unknown="+o.Unknown.Describe())
	}
	if o.Hook != nil {
		l = append(l, fmt.Sprintf("hook=%T", o.Hook))
	}
	if len(l) == 0 {
		return "none"
	}
	return strings.Join(l, " ")
}

// mismatch reports whether the observed outcome is outside the allowed set.
func mismatch(o evalObs, a refsem.Allowed) bool {
	if a.Unspec != "" {
		return false
	}
	c := o.Class3()
	if c == "P" {
		return true
	}
	return !a.Has(c)
}

// shrink descends to the smallest top-level sub-expression that still
// disagrees (sub-expressions inside quantifier bodies need their bindings and
// are not tried alone).
func shrink(ec *evalCase) *evalCase {
	cur := ec
	for depth := 0; depth < 12; depth++ {
		var kids []xgen.Expr
		switch n := cur.Expr.(type) {
		case *xgen.Not:
			kids = []xgen.Expr{n.X}
		case *xgen.And:
			kids = []xgen.Expr{n.L, n.R}
		case *xgen.Or:
			kids = []xgen.Expr{n.L, n.R}
		}
		found := false
		for _, k := range kids {
			sub := &evalCase{Expr: k, Text: (&xgen.Renderer{Plain: true, KeepSpell: true}).Render(k), Datum: cur.Datum, Opt: cur.Opt}
			o, ok, _ := sub.run()
			if !ok {
				continue
			}
			if mismatch(o, refsem.Eval(k, sub.Datum, sub.Opt)) {
				cur, found = sub, true
				break
			}
		}
		if !found {
			break
		}
	}
	return cur
}

// exprSig describes the top node of a (shrunk) expression for signatures.
func exprSig(e xgen.Expr, datum *univ.Node, opt *refsem.Options) string {
	switch n := e.(type) {
	case *xgen.Match:
		var evs []string
		o := *optOrDefault(opt)
		o.Trace = func(ev string) { evs = append(evs, ev) }
		refsem.Eval(n, datum, &o)
		if len(evs) > 0 {
			return evs[len(evs)-1]
		}
		return "op:" + n.Op.String()
	case *xgen.Quant:
		op := "any"
		if n.All {
			op = "all"
		}
		return fmt.Sprintf("quant:%s/bind%d", op, n.Mode)
	}
	return kindName(e)
}

func optOrDefault(o *refsem.Options) *refsem.Options {
	if o == nil {
		return &refsem.Options{}
	}
	return o
}

// checkAgainstReference is the C01 oracle for one case; returns the observed
// class ("" if the evaluator could not be created).
func checkAgainstReference(c *mon.Ctx, prop string, ec *evalCase, origin string) (string, refsem.Allowed) {
	c.Evals(1)
	var evs []string
	o2 := *optOrDefault(ec.Opt)
	o2.Trace = func(ev string) { evs = append(evs, ev) }
	allowed := refsem.Eval(ec.Expr, ec.Datum, &o2)
	obs, ok, cerr := ec.run()
	if !ok {
		c.Violation(prop+" create-failed", "CreateEvaluator rejected a rendering of a valid expression", map[string]any{"expression": clip(ec.Text, 400), "error": cerr, "origin": origin})
		return "", allowed
	}
	if allowed.Unspec != "" {
		c.Count("unspecified_skipped")
		c.Count("unspec:" + allowed.Unspec)
		if obs.Panic != "" {
			c.Count("unspecified_panics") // C09's subject
		}
		return obs.Class3(), allowed
	}
	cls := obs.Class3()
	for _, ev := range evs {
		c.Count("reach:" + ev)
	}
	if _, isMatch := ec.Expr.(*xgen.Match); isMatch && len(evs) > 0 {
		c.Count("cell:" + evs[len(evs)-1] + "/" + cls)
	}
	if mismatch(obs, allowed) {
		small := shrink(ec)
		so, _, _ := small.run()
		sa := refsem.Eval(small.Expr, small.Datum, small.Opt)
		sig := fmt.Sprintf("%s disagree at=%s observed=%s allowed=%s", prop, exprSig(small.Expr, small.Datum, small.Opt), so.Class3(), sa)
		c.Violation(sig, "Evaluate returned an outcome the reference semantics do not allow", map[string]any{
			"expression": clip(ec.Text, 500), "datum": clip(ec.Datum.Describe(), 1500), "options": describeOpt(ec.Opt), "observed": obs.String(), "allowed": allowed.String(),
			"smallest_disagreeing_subexpression": clip(small.Text, 300), "sub_observed": so.String(), "sub_allowed": sa.String(), "origin": origin,
			"datum_go_type": fmt.Sprintf("%v", reflect.TypeOf(ec.Datum.Datum()))})
	}
	return cls, allowed
}

// genOptions draws evaluator options.
func genOptions(r *rand.Rand) *refsem.Options {
	o := &refsem.Options{}
	if r.Intn(5) == 0 {
		o.TagName = "alt"
	}
	if r.Intn(4) == 0 {
		switch r.Intn(6) {
		case 0:
			o.Unknown = univ.Str("")
		case 1:
			o.Unknown = univ.Str(univ.BoundaryStrings[r.Intn(len(univ.BoundaryStrings))])
		case 2:
			o.Unknown = univ.Int(int64(r.Intn(5)))
		case 3:
			o.Unknown = univ.Bool(r.Intn(2) == 0)
		case 4:
			o.Unknown = univ.Float(1.5)
		case 5:
			o.Unknown = univ.NilIface()
		}
	}
	return o
}

var c01Zoo = univ.Zoo()

var c01MatrixLits = []string{"abc", "5", "1.5", "true", "", "x", "-9223372036854775808", "18446744073709551615", "-0", "0", "5e-324", "9223372036854775807", "Inf", "+Inf", "-inf", "1.7976931348623157e308", "7", "99999999999999999999", "1e999", "0x5", "05", "-5", "261", "^a", "(", "a", "l", "1e2", "100", "5.0"}

// c01Matrix: one zoo entry x 3 holders (and selector spellings) x 8
// operators x 30 literal classes x a sub-path into the value - enumerated
// completely on every run.
func c01Matrix(c *mon.Ctx, idx int) {
	z := c01Zoo[idx]
	wrapT := univ.StructOf(univ.Field{Name: "V", Tag: `bexpr:"v"`, Type: z.N.T}, univ.Field{Name: "hidden", Type: univ.TInt, Unexported: true})
	holders := []struct {
		name  string
		datum *univ.Node
		sel   []xgen.Sel
	}{
		{"map", univ.IfaceMap("v", z.N), []xgen.Sel{{Parts: []string{"v"}}, {Parts: []string{"v"}, JSONPointer: true}}},
		{"struct", univ.Struct(wrapT, z.N, univ.Int(1)), []xgen.Sel{{Parts: []string{"v"}}}},
		{"nested", univ.IfaceMap("o", univ.IfaceMap("v", z.N)), []xgen.Sel{{Parts: []string{"o", "v"}, Spell: []int{xgen.SpDot, xgen.SpBrackDQ}}, {Parts: []string{"o", "v"}, JSONPointer: true}}},
		{"ptr-struct", univ.Ptr(univ.Struct(wrapT, z.N, univ.Int(1))), []xgen.Sel{{Parts: []string{"v"}, JSONPointer: true}}},
	}
	subs := [][]string{nil, {"0"}, {"abc"}, {"5"}, {"A"}, {"zz"}, {"1", "0"}, {"abc", "abc"}, {"abc", "5"}, {"Base", "A"}, {"Base", "abc"}, {"B"}, {"C"}, {"0", "0"}}
	n := 0
	for _, h := range holders {
		for _, base := range h.sel {
			for si, sub := range subs {
				if si > 0 && h.name != "map" && h.name != "ptr-struct" {
					continue // sub-paths only under two of the holders
				}
				sel := base.Clone()
				sel.Parts = append(sel.Parts, sub...)
				sel.Spell = nil
				if sel.JSONPointer && !xgen.CanPointer(sel.Parts) {
					continue
				}
				for op := xgen.Op(0); op < 8; op++ {
					lits := c01MatrixLits
					if !op.HasValue() {
						lits = lits[:1]
					}
					if si > 0 {
						lits = lits[:8] // sub-paths: fewer literal classes
					}
					for _, l := range lits {
						m := &xgen.Match{Sel: sel, Op: op}
						if op.HasValue() {
							m.Lit = &xgen.Lit{S: l, Style: xgen.StyleQuoted}
							m.Contains = n%2 == 0
						}
						n++
						ec := &evalCase{Expr: m, Text: (&xgen.Renderer{Plain: true, KeepSpell: true}).Render(m), Datum: h.datum}
						cls, allowed := checkAgainstReference(c, "C01", ec, "matrix/"+z.Name+"@"+h.name)
						if cls != "" && allowed.Unspec == "" {
							c.Count("outcome:" + cls)
							if si == 0 {
								c.Count("matrix:" + op.String() + "/" + z.Name)
							}
							c.Distinct("matrix|" + z.Name + "|" + h.name + "|" + ec.Text)
						}
					}
				}
			}
		}
		// quantifiers over the value
		for _, qt := range []string{"any %s as x { x == 5 }", "all %s as x { x != 7 }", "any %s as k, v { v == 5 or k == abc }", "all %s as k, _ { k != zz }", "any %s as _, v { v.A == 5 }", "any %s as x { x is empty }"} {
			text := fmt.Sprintf(qt, (&xgen.Renderer{Plain: true}).RenderSel(h.sel[0]))
			v, err, _, _ := parsePublic(text)
			if err != nil {
				continue
			}
			tree, terr := treeOf(v)
			if terr != nil {
				continue
			}
			checkAgainstReference(c, "C01", &evalCase{Expr: tree, Text: text, Datum: h.datum}, "matrix-quant/"+z.Name+"@"+h.name)
			c.Count("matrix_quantifiers")
		}
	}
	c.Count("matrix_entries")
	c.Sample(map[string]any{"kind": "matrix entry", "value": z.Name, "go_type": z.N.T.String(), "cases": n})
}

// c01Accumulation: thousands of distinct patterns, literals, expressions and
// struct types in ONE process, then the first ones again: process-wide caches
// that fill up, evict or collide must not change any outcome.
func c01Accumulation(c *mon.Ctx) {
	n := tierN(c.Tier, 11000, 30000) // more than 4096 distinct patterns also in the quick tier
	type item struct {
		text  string
		datum interface{}
		want  string
	}
	var items []item
	for i := 0; i < n; i++ {
		tok := fmt.Sprintf("acc%05d", i)
		switch i % 5 {
		case 0:
			items = append(items, item{fmt.Sprintf("s matches \"^%s$\"", tok), map[string]interface{}{"s": tok}, "T"})
		case 1:
			items = append(items, item{fmt.Sprintf("s not matches \"^%s$\"", tok), map[string]interface{}{"s": tok + "x"}, "T"})
		case 2:
			items = append(items, item{fmt.Sprintf("n == %d and n != %d", 100000+i, i), map[string]interface{}{"n": 100000 + i}, "T"})
		case 3:
			items = append(items, item{fmt.Sprintf("%s.v == %d", tok, i), map[string]interface{}{tok: map[string]int{"v": i}}, "T"})
		default:
			// a fresh struct type per item
			st := reflect.StructOf([]reflect.StructField{{Name: "X", Type: reflect.TypeOf(0), Tag: reflect.StructTag(fmt.Sprintf(`bexpr:"x%d"`, i))}, {Name: "H", Type: reflect.TypeOf(""), Tag: `bexpr:"-"`}})
			v := reflect.New(st).Elem()
			v.Field(0).SetInt(int64(i))
			v.Field(1).SetString("hidden")
			items = append(items, item{fmt.Sprintf("x%d == %d and not (x%d == %d)", i, i, i, i+1), v.Interface(), "T"})
		}
	}
	check := func(it item, phase string) bool {
		ev, err, pan, _ := createEval(it.text)
		if pan != "" || err != nil {
			c.Violation("C01 accumulation create-failed", "CreateEvaluator failed in the accumulation workload", map[string]any{"expression": it.text, "error": fmt.Sprint(err) + pan})
			return false
		}
		o := evaluate(ev, it.datum)
		c.Evals(1)
		if o.Class3() != it.want {
			c.Violation(fmt.Sprintf("C01 accumulation phase=%s got=%s want=%s", phase, o.Class3(), it.want), "after thousands of distinct patterns / literals / expressions / types in one process an outcome is wrong",
				map[string]any{"expression": it.text, "observed": o.String(), "items_before": len(items)})
			return false
		}
		return true
	}
	for _, it := range items {
		if !check(it, "first-pass") {
			return
		}
	}
	for i := 0; i < len(items); i += 7 {
		if !check(items[i], "second-pass") {
			return
		}
	}
	c.Count("accumulation_runs")
}

func c01Run(c *mon.Ctx, idx int) {
	if idx < len(c01Zoo) {
		c01Matrix(c, idx)
		return
	}
	if idx == len(c01Zoo) {
		c01Accumulation(c)
	}
	r := c.RNG(idx)
	doc := univ.GenObj(r, 3, true)
	reprSeed := r.Int63()
	mode := idx % 5
	opt := genOptions(r)
	nodes := make([]*univ.Node, 5)
	for m := 0; m < 5; m++ {
		nodes[m] = univ.Represent(rand.New(rand.NewSource(reprSeed+int64(m))), doc, univ.Policy{Mode: m, Hidden: true, HiddenSeed: reprSeed})
	}
	g := newEgen(r, nodes[mode], opt)
	nexpr := 3
	for k := 0; k < nexpr; k++ {
		e := g.expr(1+r.Intn(4), 0)
		rd := &xgen.Renderer{R: r, MaxRedundantParens: 1}
		text := rd.Render(e)
		for m := 0; m < 5; m++ {
			if m != mode && k > 0 {
				continue // other representations see the first expression only
			}
			ec := &evalCase{Expr: e, Text: text, Datum: nodes[m], Opt: opt}
			cls, allowed := checkAgainstReference(c, "C01", ec, "directed/"+univ.PolicyNames[m])
			c.Count("repr:" + univ.PolicyNames[m])
			if cls != "" && allowed.Unspec == "" {
				c.Count("outcome:" + cls)
				c.Distinct(xgen.Canon(e) + "|" + nodes[m].Shape() + "|" + describeOpt(opt))
			}
		}
		if idx%1499 == 0 && k == 0 {
			c.Sample(map[string]any{"expression": clip(text, 200), "datum": clip(nodes[mode].Describe(), 400), "options": describeOpt(opt), "allowed": refsem.Eval(e, nodes[mode], opt).String()})
		}
	}
}

var c01Ops = []string{"==", "!=", "in", "not in", "is empty", "is not empty", "matches", "not matches"}

func c01Required(tier string) []string {
	l := []string{"matrix_entries", "accumulation_runs", "matrix_quantifiers", "outcome:T", "outcome:F", "outcome:E", "reach:resolve:not-present", "reach:resolve:error", "reach:quant:slice", "reach:quant:map", "reach:quant:not-present"}
	for _, p := range univ.PolicyNames {
		l = append(l, "repr:"+p)
	}
	for _, op := range c01Ops {
		for _, k := range []string{"string", "float64", "bool", "slice", "map", "invalid", "int", "struct"} {
			l = append(l, "reach:op:"+op+"/"+k)
		}
	}
	for _, op := range c01Ops {
		for _, z := range c01Zoo {
			l = append(l, "matrix:"+op+"/"+z.Name)
		}
	}
	// inhabited outcome cells that the workload is designed to hit
	for _, cell := range []string{"op:==/string/T", "op:==/string/F", "op:==/int/T", "op:==/int/F", "op:==/int/E", "op:==/float64/T", "op:==/bool/T", "op:==/bool/E", "op:==/slice/E", "op:==/invalid/E",
		"op:!=/string/T", "op:!=/int/E", "op:in/slice/T", "op:in/slice/F", "op:in/slice/E", "op:in/map/T", "op:in/map/F", "op:in/string/T", "op:in/string/F", "op:in/int/E",
		"op:not in/slice/T", "op:not in/slice/F", "op:is empty/slice/T", "op:is empty/slice/F", "op:is empty/map/T", "op:is empty/string/T", "op:is empty/int/E", "op:is empty/invalid/E",
		"op:is not empty/slice/T", "op:matches/string/T", "op:matches/string/F", "op:matches/string/E", "op:matches/int/E", "op:matches/slice/T", "op:not matches/string/T"} {
		l = append(l, "cell:"+cell)
	}
	return l
}

func init() {
	mon.Register(&mon.Prop{
		ID: "C01", Level: "exploration",
		Rule: "(a) deterministic matrix, enumerated completely on every run: a zoo of ~95 value shapes (14 scalar kinds, named types, json.Number incl. hostile ones, nil, pointer levels, typed / named / interface slices and arrays with nil and odd elements, string / named-string / int / bool / float / interface keyed maps, structs, chan/func/complex) x 4 holders and selector spellings x 14 sub-paths x 8 operators x 30 literal classes (matching, ill-typed, out-of-range, base-prefixed, wrap-around) + 6 quantifier forms; (b) a seeded logical JSON-like document (boundary scalars, nested objects/lists, odd keys) is materialised in 5 Go representations (all-interface{}, json.Number, typed containers+tagged structs incl. hidden/unexported fields, typed+pointers, per-node mix); 3 datum-directed expressions per case (depth<=4, quantifier nesting<=3, every operator, binding mode, selector spelling, literal style; 25% deliberately broken paths; literals equal / different / ill-typed) are rendered, passed through the real parser and Evaluate, and compared with the set of outcomes an independent interpreter of the documented semantics allows (options: tag name, unknown value). non-trivial = the reference determines the outcome (not on the explicit unspecified list); distinct by (canonical expression, datum representation shape, options)",
		Assumptions: []string{
			"reference semantics = internal/refsem, written from README/doc comments/property statements; cases on its explicit unspecified list (counted as unspecified_skipped with the reason) are not compared",
			"literal spellings are those of strconv (ParseBool, base-0 ParseInt/ParseUint, ParseFloat), which is the documented meaning",
			"for maps, quantifiers may visit entries in any order: the reference returns the set of outcomes reachable under some order",
		},
		NumCases: func(tier string) int { return len(c01Zoo) + tierN(tier, 12000, 600000) },
		Run:      c01Run,
		Chunk: func(tier string, n int) int {
			if tier == "thorough" {
				return 3000
			}
			return 100
		},
		Required: c01Required,
	})
}
