package props

import (
	"encoding/json"
	"fmt"
	"math/big"
	"math/rand"
	"net"
	"net/url"
	"sort"
	"strconv"
	"strings"
	"time"

	"verif/internal/mon"
	"verif/internal/refsem"
	"verif/internal/univ"
	"verif/internal/xgen"
)

// C03 - connectives are truth-functional, short-circuit, errors propagate.
// C04 - negated operators are complements; contains is in flipped.

// setup draws a document, one representation and options.
// collisionDatum: keys containing '.', '/' and '~' whose joined spellings
// collide with nested paths (a.b.c vs a["b.c"], a/b vs a.b, ...). Any cache or
// comparison keyed by a joined path would confuse them.
var collisionDatum = univ.IfaceMap(
	"a", univ.IfaceMap("b.c", univ.Int(1), "b", univ.IfaceMap("c", univ.Int(2), "c/d", univ.Str("s")), "b/c", univ.Int(3), "b~c", univ.IfaceSlice(univ.Int(1)), "b\x00c", univ.Int(5), "b c", univ.Int(6), "b,c", univ.Int(7), "b|c", univ.Int(8)),
	"a/b", univ.IfaceMap("c", univ.Int(4)),
	"x", univ.IfaceMap("y", univ.IfaceMap("z", univ.Str("deep")), "y/z", univ.Str("slash"), "y.z", univ.Str("dot"), "0", univ.IfaceSlice(univ.Str("deep"))),
	"l", univ.IfaceSlice(univ.IfaceMap("k", univ.Int(1)), univ.IfaceMap("k", univ.Int(2))),
	"l/0", univ.IfaceMap("k", univ.Int(9)),
)

func drawDatum(c *mon.Ctx, idx int, r *rand.Rand) (*univ.Node, *refsem.Options) {
	if idx%6 == 5 {
		c.Count("collision_datum_cases")
		return collisionDatum, &refsem.Options{}
	}
	doc := univ.GenObj(r, 3, true)
	node := univ.Represent(rand.New(rand.NewSource(r.Int63())), doc, univ.Policy{Mode: idx % 5, Hidden: true, HiddenSeed: 11})
	return node, genOptions(r)
}

func evalText(e xgen.Expr, r *rand.Rand, node *univ.Node, opt *refsem.Options) (evalObs, string, bool) {
	ec := &evalCase{Expr: e, Text: (&xgen.Renderer{R: r}).Render(e), Datum: node, Opt: opt}
	o, ok, _ := ec.run()
	return o, ec.Text, ok
}

// collidingPath finds another resolving path whose "."- or "/"-joined
// spelling equals that of parts.
func collidingPath(parts []string, node *univ.Node, opt *refsem.Options) []string {
	for _, p := range refsem.Paths(node, opt, 4) {
		if len(p.Path) == len(parts) || len(p.Path) == 0 {
			same := len(p.Path) == len(parts)
			for i := 0; same && i < len(parts); i++ {
				same = p.Path[i] == parts[i]
			}
			if same {
				continue
			}
		}
		for _, sep := range []string{".", "/", "\x00", " ", ",", "|", ""} {
			if strings.Join(p.Path, sep) == strings.Join(parts, sep) {
				return p.Path
			}
		}
	}
	return nil
}

func andTable(a, b string) string {
	if a == "F" || a == "E" {
		return a
	}
	return b
}

func orTable(a, b string) string {
	if a == "T" || a == "E" {
		return a
	}
	return b
}

func notTable(a string) string {
	switch a {
	case "T":
		return "F"
	case "F":
		return "T"
	}
	return a
}

// c03Grouped: operands wrapped in one or two pairs of parentheses, with
// literals that contain the OTHER quote character, a closing parenthesis or a
// backslash - whatever looks at the text to find groupings must read the
// literals the way the grammar does.
func c03Grouped(c *mon.Ctx, r *rand.Rand) {
	datum := map[string]interface{}{"a": "5\"", "b": "x`y", "c": ")", "d": "((", "e": "\\\")"}
	ops := []string{"a == `5\"`", "a != `5\"`", "b == \"x`y\"", "b == \"6`\"", "c == \")\"", "c == `)`", "d != `((`", "d == \"((\"", "a == `6\"`", "e == `\\\")`", "zz == `\"`", "b matches \"`\""}
	A, B := ops[r.Intn(len(ops))], ops[r.Intn(len(ops))]
	alone := func(text string) string {
		ev, err, pan, _ := createEval(text)
		if pan != "" || err != nil {
			return "rejected"
		}
		return evaluate(ev, datum).Class3()
	}
	a, b := alone(A), alone(B)
	if a == "rejected" || b == "rejected" {
		c.Violation("C03 grouped operand-rejected", "a single comparison with a literal containing quotes / parentheses was rejected", map[string]any{"A": A, "B": B, "a": a, "b": b})
		return
	}
	forms := []struct{ text, want string }{
		{"((" + A + ")) or ((" + B + "))", orTable(a, b)}, {"((" + A + ")) and ((" + B + "))", andTable(a, b)}, {"(" + A + ") or (" + B + ")", orTable(a, b)}, {"((" + A + "))", a}, {"(((" + A + ")))", a},
		{"(( " + A + " ) and ( " + B + " ))", andTable(a, b)}, {"not ((" + A + ")) or ((" + B + "))", orTable(notTable(a), b)}, {"((" + A + ") or (" + B + "))", orTable(a, b)}, {"(" + A + ") and ((" + B + ") or (" + A + "))", andTable(a, orTable(b, a))},
	}
	for _, f := range forms {
		got := alone(f.text)
		c.Evals(1)
		if got != f.want {
			c.Violation(fmt.Sprintf("C03 grouped got=%s want=%s", got, f.want), "a composite of parenthesised operands is not the table value of its operands", map[string]any{"composite": f.text, "A": A, "a": a, "B": B, "b": b, "observed": got, "expected": f.want})
			return
		}
	}
	// an emptiness guard in front of a quantifier over the same thing, where
	// the thing is empty and not something a quantifier can walk
	gd := map[string]interface{}{"es": "", "ec": make(chan int, 1), "em": map[int]int{}, "eb": []byte{}, "ns": "abc", "n": 0, "nil": nil}
	galone := func(text string) string {
		ev, err, pan, _ := createEval(text)
		if pan != "" || err != nil {
			return "rejected"
		}
		return evaluate(ev, gd).Class3()
	}
	for _, x := range []string{"es", "ec", "em", "eb", "ns", "n", "nil", "zz"} {
		for _, q := range []string{"any " + x + " as v { v == 1 }", "all " + x + " as v { v == 1 }", "any " + x + " as k, v { k == v }"} {
			for _, g := range []string{x + " is not empty", x + " is empty"} {
				ga, gb := galone(g), galone(q)
				for _, f := range []struct{ text, want string }{{g + " and (" + q + ")", andTable(ga, gb)}, {g + " or " + q, orTable(ga, gb)}, {"not (" + g + ") or " + q, orTable(notTable(ga), gb)}} {
					if got := galone(f.text); got != f.want {
						c.Violation(fmt.Sprintf("C03 guarded-quantifier got=%s want=%s", got, f.want), "an emptiness test followed by a quantifier over the same selector is not the table value of the two", map[string]any{"composite": f.text, "guard_alone": ga, "quantifier_alone": gb, "observed": got, "expected": f.want})
						return
					}
					c.Evals(1)
				}
			}
		}
	}
	// a chain of 64..130 operands one of whose operands is itself a chain of 64..130
	n1, n2 := 64+r.Intn(67), 64+r.Intn(67)
	mk := func(n int, conn string, last string) string {
		parts := make([]string, n)
		for i := range parts {
			parts[i] = []string{`c == ")"`, `d == "(("`}[i%2] // both true
			if conn == " or " {
				parts[i] = []string{`c == "x"`, `d == "y"`}[i%2] // both false
			}
		}
		parts[n-1] = last
		return strings.Join(parts, conn)
	}
	for _, nc := range []struct{ text, want string }{
		{mk(n1, " and ", "("+mk(n2, " or ", `c == ")"`)+")"), "T"},
		{mk(n1, " and ", "("+mk(n2, " or ", `c == "x"`)+")"), "F"},
		{mk(n1, " or ", "("+mk(n2, " and ", `c == ")"`)+")"), "T"},
		{mk(n1, " or ", "("+mk(n2, " and ", `c == "x"`)+")"), "F"},
		{"(" + mk(n2, " and ", `c == "x"`) + ") or (" + mk(n1, " or ", `d == "(("`) + ")", "T"},
		{"(" + mk(n2, " and ", `c == ")"`) + ") and not (" + mk(n1, " or ", `zz == 1`) + ")", "E"},
	} {
		if got := alone(nc.text); got != nc.want {
			c.Violation(fmt.Sprintf("C03 nested-long-chains got=%s want=%s", got, nc.want), "a long chain that contains another long chain as an operand does not have the table value of its operands", map[string]any{"outer_operands": n1, "inner_operands": n2, "shape": clip(nc.text, 120), "observed": got, "expected": nc.want})
			return
		}
		c.Evals(1)
	}
	c.Count("grouped_operand_cases")
}

func c03Run(c *mon.Ctx, idx int) {
	r := c.RNG(idx)
	if idx%20 == 4 {
		c03Grouped(c, r)
	}
	node, opt := drawDatum(c, idx, r)
	g := newEgen(r, node, opt)
	g.pBroken = 0.3
	for k := 0; k < 3; k++ {
		A, B := g.expr(r.Intn(3), 0), g.expr(r.Intn(3), 0)
		// operands whose own outcome is order dependent would let a C14
		// defect masquerade as a C03 one
		if a := refsem.Eval(A, node, opt); a.Unspec == "" && !a.Single() {
			c.Count("skipped_order_dependent_operand")
			continue
		}
		if b := refsem.Eval(B, node, opt); b.Unspec == "" && !b.Single() {
			c.Count("skipped_order_dependent_operand")
			continue
		}
		// on the collision datum: B is often A itself re-addressed to a
		// DIFFERENT path with the same joined spelling (a["b.c"] vs a.b.c),
		// same operator and literal - anything that identifies clauses or
		// lookups by a joined path would merge them
		if node == collisionDatum && r.Intn(2) == 0 {
			if am, ok := A.(*xgen.Match); ok {
				if alt := collidingPath(am.Sel.Parts, node, opt); alt != nil {
					bm := *am
					if sel, ok := g.selFor(alt); ok {
						bm.Sel = sel
						B = &bm
						c.Count("colliding_twin_operands")
					}
				}
			}
		}
		// two `matches` (or two `not matches`) on the SAME selector with
		// different patterns: anything that fuses them into one pattern must
		// keep them apart (inline flags of one must not reach the other)
		if am, ok := A.(*xgen.Match); ok && (am.Op == xgen.OpMatches || am.Op == xgen.OpNotMatches) && r.Intn(2) == 0 {
			bm := *am
			pats := []string{"^def$", "^DEF$", "^abc$", "b$", "^.$", "(?i)^abc$", "(?s).", "x|y", "^[a-z]+$", "^$"}
			bm.Lit = &xgen.Lit{S: pats[r.Intn(len(pats))], Style: xgen.StyleQuoted}
			if r.Intn(2) == 0 {
				am2 := *am
				am2.Lit = &xgen.Lit{S: []string{"(?i)^abc$", "(?i)^web", "(?s)^a.*", "(?m)^x", "(?U)^a+", `\Qabc`, "(?i)^" + strings.ToLower(am.Lit.S)}[r.Intn(7)], Style: xgen.StyleQuoted}
				A = &am2
			}
			B = &bm
			c.Count("matches_twin_operands")
		}
		// sibling quantifiers: B is A's twin - same kind, collection, binding
		// mode and names - with another body (one that errors on elements A's
		// body accepts, the negation, a different literal). Anything that folds
		// the two walks into one changes which errors are reached.
		if qa, ok := A.(*xgen.Quant); ok && r.Intn(2) == 0 {
			qb := *qa
			bn := qa.Name
			if qa.Mode == xgen.BindValue || qa.Mode == xgen.BindIndexValue {
				bn = qa.Name2
			}
			bsel := xgen.Sel{Parts: []string{bn}, Spell: []int{xgen.SpDot}}
			switch r.Intn(5) {
			case 0:
				qb.Body = &xgen.Not{X: qa.Body}
			case 1:
				qb.Body = &xgen.Match{Sel: bsel, Op: xgen.OpEmpty}
			case 2:
				qb.Body = &xgen.Match{Sel: bsel, Op: xgen.OpEq, Lit: &xgen.Lit{S: []string{"1", "2", "a", "x", "true"}[r.Intn(5)], Style: xgen.StyleQuoted}}
			case 3:
				qb.Body = &xgen.Match{Sel: bsel, Op: xgen.OpMatches, Lit: &xgen.Lit{S: "^[a-z1]", Style: xgen.StyleQuoted}}
			default:
				qb.Body = &xgen.Or{L: &xgen.Match{Sel: bsel, Op: xgen.OpIn, Lit: &xgen.Lit{S: "1", Style: xgen.StyleQuoted}}, R: qa.Body}
			}
			if bb := refsem.Eval(&qb, node, opt); bb.Unspec != "" || bb.Single() {
				B = &qb
				c.Count("sibling_quantifier_operands")
			}
		}
		// an emptiness guard in front of a quantifier over the SAME selector:
		// `X is not empty and (any X as ...)`, `X is empty or (all X as ...)`
		if qb, ok := B.(*xgen.Quant); ok && r.Intn(3) == 0 {
			op := xgen.OpNotEmpty
			if r.Intn(2) == 0 {
				op = xgen.OpEmpty
			}
			A = &xgen.Match{Sel: qb.Sel.Clone(), Op: op}
			c.Count("guarded_quantifier_operands")
		}
		oa, ta, ok1 := evalText(A, r, node, opt)
		ob, tb, ok2 := evalText(B, r, node, opt)
		if !ok1 || !ok2 {
			c.Count("unparsed")
			continue
		}
		a, b := oa.Class3(), ob.Class3()
		if a == "P" || b == "P" {
			c.Count("operand_panicked") // C09's subject
			continue
		}
		type comp struct {
			name string
			e    xgen.Expr
			want string
		}
		comps := []comp{
			{"and", &xgen.And{L: A, R: B}, andTable(a, b)},
			{"or", &xgen.Or{L: A, R: B}, orTable(a, b)},
			{"not", &xgen.Not{X: A}, notTable(a)},
			{"not-not", &xgen.Not{X: &xgen.Not{X: A}}, a},
			{"demorgan-not-and", &xgen.Not{X: &xgen.And{L: A, R: B}}, notTable(andTable(a, b))},
			{"demorgan-or-of-nots", &xgen.Or{L: &xgen.Not{X: A}, R: &xgen.Not{X: B}}, orTable(notTable(a), notTable(b))},
			{"demorgan-not-or", &xgen.Not{X: &xgen.Or{L: A, R: B}}, notTable(orTable(a, b))},
			{"demorgan-and-of-nots", &xgen.And{L: &xgen.Not{X: A}, R: &xgen.Not{X: B}}, andTable(notTable(a), notTable(b))},
			{"and-assoc", &xgen.And{L: &xgen.And{L: A, R: B}, R: A}, andTable(andTable(a, b), a)},
			{"or-in-and", &xgen.And{L: &xgen.Or{L: A, R: B}, R: B}, andTable(orTable(a, b), b)},
		}
		// long same-operator chains: n operands B with A at one position
		if k == 0 {
			n := 9 + r.Intn(9)
			pos := r.Intn(n)
			for _, isAnd := range []bool{true, false} {
				var chain xgen.Expr
				want := ""
				for i := n - 1; i >= 0; i-- {
					var opnd xgen.Expr = B
					o := b
					if i == pos {
						opnd, o = A, a
					}
					if chain == nil {
						chain, want = opnd, o
					} else if isAnd {
						chain, want = &xgen.And{L: opnd, R: chain}, andTable(o, want)
					} else {
						chain, want = &xgen.Or{L: opnd, R: chain}, orTable(o, want)
					}
				}
				name := "or-chain"
				if isAnd {
					name = "and-chain"
				}
				comps = append(comps, comp{name, chain, want})
			}
			c.Count("long_chains")
		}
		// very long chains (10^4 operands): a chain is not nesting
		_, aSmall := A.(*xgen.Match)
		_, bSmall := B.(*xgen.Match)
		if aSmall && bSmall && idx%tierN(c.Tier, 500, 2000) < 3 && (a == "T" || a == "F") && (b == "T" || b == "F") && a != b && c.CounterValue("very_long_chains") < 1 {
			n := tierN(c.Tier, 10500, 40000)
			for _, isAnd := range []bool{true, false} {
				// n operands B, then A at the very end; B must be the
				// non-decisive outcome so that the fold reaches the end
				nd, dec := B, A
				ndo, deco := b, a
				if (isAnd && b == "F") || (!isAnd && b == "T") {
					nd, dec, ndo, deco = A, B, a, b
				}
				var chain xgen.Expr = dec
				for i := 0; i < n; i++ {
					if isAnd {
						chain = &xgen.And{L: nd, R: chain}
					} else {
						chain = &xgen.Or{L: nd, R: chain}
					}
				}
				_ = ndo
				name := "or-chain-10k"
				if isAnd {
					name = "and-chain-10k"
				}
				// the non-decisive operands let the chain through: its outcome is the last operand's
				if isAnd == (idx%2 == 0) {
					comps = append(comps, comp{name, chain, deco})
				} else {
					comps = append(comps, comp{name + "-under-not", &xgen.Not{X: chain}, notTable(deco)})
				}
			}
			c.Count("very_long_chains")
		}
		for _, cp := range comps {
			c.Evals(1)
			o, txt, ok := evalText(cp.e, r, node, opt)
			if !ok {
				c.Violation("C03 composite-rejected "+cp.name, "a composite of two accepted expressions was rejected", map[string]any{"A": ta, "B": tb, "composite": txt})
				continue
			}
			got := o.Class3()
			if cp.name == "and" || cp.name == "or" {
				c.Count("cell:" + cp.name + "/" + a + b)
			}
			if cp.name == "not" {
				c.Count("cell:not/" + a)
			}
			if got != cp.want {
				c.Violation(fmt.Sprintf("C03 %s A=%s B=%s got=%s want=%s topA=%s topB=%s", cp.name, a, b, got, cp.want, kindName(A), kindName(B)), "composite outcome is not the table entry for the outcomes of its parts",
					map[string]any{"A": clip(ta, 300), "B": clip(tb, 300), "A_outcome": oa.String(), "B_outcome": ob.String(), "composite": clip(txt, 500), "composite_outcome": o.String(), "expected": cp.want,
						"datum": clip(node.Describe(), 1200), "options": describeOpt(opt)})
			}
		}
		if _, isQ := A.(*xgen.Quant); isQ {
			c.Count("quantified_operand")
		}
		if _, isQ := B.(*xgen.Quant); isQ {
			c.Count("quantified_operand")
		}
		c.Distinct(ta + "|" + tb + "|" + node.Shape())
		if idx%1999 == 0 && k == 0 {
			c.Sample(map[string]any{"A": clip(ta, 150), "B": clip(tb, 150), "A_outcome": a, "B_outcome": b, "datum": clip(node.Describe(), 300)})
		}
	}
}

// ---------------------------------------------------------------------------
// C04

var c04Zoo = univ.Zoo()

// c04Relations checks the pairwise relations of C04 for one selector /
// literal on a native Go datum (no reference model involved).
func c04Native(c *mon.Ctx, datum interface{}, sel string, lit string, label string) {
	c04NativeQ(c, datum, sel, (&xgen.Renderer{Plain: true}).Quote(lit), label)
}

// c04Lookalikes: a history. Expressions that differ from the ones under test
// only in layout INSIDE a literal (runs of blanks collapsed / a tab for a
// blank / surrounding blanks trimmed) are created first, for one operator of
// each pair only; then the pairs are checked on a datum that tells the
// literals apart. Anything remembered per normalised text breaks the
// complement for the operator whose look-alike exists.
func c04Lookalikes(c *mon.Ctx, r *rand.Rand) {
	lits := []string{"a  b", "a\tb", "a \n b", "   ", " x", "x ", "a   b  c", "tab\t\tx", "a\u00a0 b"}
	s := lits[r.Intn(len(lits))]
	twin := strings.Join(strings.Fields(s), " ")
	if r.Intn(3) == 0 {
		twin = strings.ReplaceAll(strings.ReplaceAll(s, "\t", " "), "\n", " ")
	}
	if twin == s {
		twin = s + " "
	}
	quote := func(x string, style int) string {
		if style == 0 {
			return "`" + x + "`"
		}
		return strconv.Quote(x)
	}
	style := r.Intn(2)
	// the look-alikes exist for the negative operators only (or, every other time, the positive ones)
	pre := []string{"x != %s", "%s not in l", "l not contains %s", "x not matches %s"}
	if r.Intn(2) == 0 {
		pre = []string{"x == %s", "%s in l", "l contains %s", "x matches %s"}
	}
	for _, f := range pre {
		for _, st := range []int{0, 1} {
			createEval(fmt.Sprintf(f, quote(twin, st)))
			createEval(fmt.Sprintf(f, quote(" "+twin, st)))
		}
	}
	datum := map[string]interface{}{"x": s, "l": []interface{}{s, "q"}}
	c04NativeQ(c, datum, "x", quote(s, style), "lookalike-history")
	c04NativeQ(c, datum, "l", quote(s, style), "lookalike-history-list")
	c.Count("lookalike_histories")
}

// c04Quantified: the pairs inside a quantifier body over one-element typed
// lists (the element bound by value): `any L as x { x == v }` is the
// complement of `any L as x { x != v }`, and equals `any L as x { not (x != v) }`.
func c04Quantified(c *mon.Ctx, r *rand.Rand) {
	lists := map[string]interface{}{
		"jn": []json.Number{"8080.0"}, "jn2": []json.Number{"1e2"}, "jni": []interface{}{json.Number("8080.0")}, "f32": []float32{0.1}, "i8": []int8{-5}, "u": []uint{7}, "s": []string{"8080"}, "b": []bool{true},
		"pj": []*json.Number{func() *json.Number { n := json.Number("8080.0"); return &n }()}, "aj": [1]json.Number{"8080.0"}, "nm": []univ.NString{"8080"},
	}
	lits := []string{"8080", "8080.0", "100", "1e2", "0.1", "-5", "7", "true", "x", "+7", "0x1f90"}
	var names []string
	for k := range lists {
		names = append(names, k)
	}
	sort.Strings(names)
	for k := 0; k < 6; k++ {
		name, lit := names[r.Intn(len(names))], lits[r.Intn(len(lits))]
		q := strconv.Quote(lit)
		forms := map[string]string{
			"any-eq":     fmt.Sprintf(`any %s as x { x == %s }`, name, q),
			"any-ne":     fmt.Sprintf(`any %s as x { x != %s }`, name, q),
			"any-not-ne": fmt.Sprintf(`any %s as x { not (x != %s) }`, name, q),
			"all-ne":     fmt.Sprintf(`all %s as _, x { x != %s }`, name, q),
			"elem-eq":    fmt.Sprintf(`%s.0 == %s`, name, q),
			"any-in":     fmt.Sprintf(`%s in %s`, q, name),
		}
		out := map[string]string{}
		for f, text := range forms {
			ev, err, pan, _ := createEval(text)
			if pan != "" || err != nil {
				out[f] = "rejected"
				continue
			}
			out[f] = evaluate(ev, lists).Class3()
			c.Evals(1)
		}
		bad := ""
		switch {
		case out["any-eq"] != notTable(out["any-ne"]):
			bad = "any-eq vs any-ne"
		case out["any-eq"] != out["any-not-ne"]:
			bad = "any-eq vs any-not-ne"
		case out["all-ne"] != out["any-ne"]:
			bad = "all-ne vs any-ne (one element)"
		case out["any-eq"] != out["elem-eq"]:
			bad = "any-eq vs elem-eq (one element)"
		}
		if bad != "" {
			c.Violation("C04 quantified "+bad+" list="+name, "inside a quantifier body over a one-element list the operator pair is not complementary / does not equal the element-wise comparison", map[string]any{"list": name, "literal": lit, "outcomes": out, "forms": forms})
			return
		}
	}
	c.Count("quantified_pair_cases")
}

func c04NativeQ(c *mon.Ctx, datum interface{}, sel string, q string, label string) {
	forms := map[string]string{
		"eq": sel + " == " + q, "ne": sel + " != " + q, "not-eq": "not (" + sel + " == " + q + ")", "not-ne": "not (" + sel + " != " + q + ")",
		"in": q + " in " + sel, "notin": q + " not in " + sel, "contains": sel + " contains " + q, "notcontains": sel + " not contains " + q, "not-in": "not (" + q + " in " + sel + ")",
		"matches": sel + " matches " + q, "notmatches": sel + " not matches " + q, "not-matches": "not (" + sel + " matches " + q + ")", "not-notmatches": "not (" + sel + " not matches " + q + ")",
		"empty": sel + " is empty", "notempty": sel + " is not empty", "not-empty": "not (" + sel + " is empty)",
	}
	out := map[string]string{}
	for k, text := range forms {
		ev, err, pan, _ := createEval(text)
		if pan != "" || err != nil {
			return
		}
		out[k] = evaluate(ev, datum).Class3()
		c.Evals(1)
	}
	rel := func(name, a, b string, negated bool) {
		want := out[a]
		if negated {
			want = notTable(out[a])
		}
		if out[a] != "P" && out[b] != "P" && out[b] != want {
			c.Violation(fmt.Sprintf("C04 native %s %s=%s %s=%s data=%s", name, a, out[a], b, out[b], label), "operator pair is not complementary / equivalent on a native Go value",
				map[string]any{"first": forms[a], "second": forms[b], "first_outcome": out[a], "second_outcome": out[b], "datum": label})
		}
	}
	rel("negation-not-complement", "eq", "ne", true)
	rel("not(positive)-differs-from-negative", "ne", "not-eq", false)
	rel("not(negative)-differs-from-positive", "eq", "not-ne", false)
	rel("negation-not-complement", "in", "notin", true)
	rel("contains-differs-from-in", "in", "contains", false)
	rel("not-contains-differs-from-not-in", "notin", "notcontains", false)
	rel("not(positive)-differs-from-negative", "notin", "not-in", false)
	rel("negation-not-complement", "matches", "notmatches", true)
	rel("not(positive)-differs-from-negative", "notmatches", "not-matches", false)
	rel("not(negative)-differs-from-positive", "matches", "not-notmatches", false)
	rel("negation-not-complement", "empty", "notempty", true)
	rel("not(positive)-differs-from-negative", "notempty", "not-empty", false)
	c.Count("native_relation_sets")
}

func c04NativeData() map[string]interface{} {
	t := time.Date(2024, 10, 3, 12, 0, 0, 0, time.UTC)
	return map[string]interface{}{
		"ip": net.IP{10, 0, 0, 1}, "ip6": net.ParseIP("::1"), "t": t, "pt": &t, "big": big.NewInt(5), "hw": net.HardwareAddr{1, 2, 3}, "dur": time.Second, "url": &url.URL{Scheme: "http", Host: "h"},
		"long": strings.Repeat("ab", 2048), "long2": strings.Repeat("x", 65536) + "y", "longb": []byte(strings.Repeat("ab", 4096)), "ch": make(chan int, 2), "nilch": (chan string)(nil),
		"notes": []string{"a", "5", "10.0.0.1"}, "inner": "a", "android": []interface{}{"a", 5}, "isolated": map[string]interface{}{"a": 1}, "emptyish": "",
		"raw": json.RawMessage(`{"a":1}`), "rat": big.NewRat(1, 2), "mask": net.IPMask{255, 0}, "err": fmt.Errorf("boom"), "ips": []net.IP{{10, 0, 0, 1}}, "ts": []time.Time{t},
	}
}

// c04Depths: the clause under test sits at the END of a flat chain of d
// operands (d around powers of two up to 2^16): where a clause stands must
// not decide whether `x != v` and `not (x == v)` (etc.) agree.
var c04Depths = []int{255, 256, 257, 1023, 1024, 1025, 4095, 4096, 4097, 65534, 65535, 65536, 65537}

func c04AtDepth(c *mon.Ctx, d int) {
	prefix := strings.Repeat("a == 1 and ", d-1)
	datum := map[string]interface{}{"a": 1, "x": "v", "l": []interface{}{"v"}, "e": []interface{}{}}
	pairs := [][2]string{{`x != w`, `not (x == w)`}, {`x == v`, `not (x != v)`}, {`w not in l`, `not (l contains w)`}, {`v in l`, `not (v not in l)`}, {`x not matches "^w"`, `not (x matches "^w")`}, {`e is empty`, `not (e is not empty)`}, {`l is not empty`, `not (l is empty)`}}
	if d > 60000 {
		pairs = [][2]string{pairs[0], pairs[2], pairs[5]} // seconds per creation at this size
	}
	for _, p := range pairs {
		var out [2]string
		for i, clause := range p {
			c.Risk(fmt.Sprintf("clause at depth %d", d))
			ev, err, pan, _ := createEval(prefix + clause)
			c.Evals(1)
			if pan != "" || err != nil {
				out[i] = "rejected: " + clip(fmt.Sprint(err)+pan, 120)
				continue
			}
			out[i] = evaluate(ev, datum).Class3()
		}
		if out[0] != out[1] || out[0] != "T" {
			c.Violation(fmt.Sprintf("C04 at-depth %s vs %s", clip(out[0], 12), clip(out[1], 12)), "a negated operator and `not (...)` around its counterpart differ when the clause ends a long flat chain",
				map[string]any{"operands_before_the_clause": d - 1, "negated_operator_form": p[0], "not_form": p[1], "outcome_negated_operator": out[0], "outcome_not_form": out[1]})
			return
		}
	}
	c.Count("clause_at_depth_cases")
}

func c04Run(c *mon.Ctx, idx int) {
	r := c.RNG(idx)
	if idx < len(c04Depths) {
		c04AtDepth(c, c04Depths[idx])
	}
	if idx%40 == 0 {
		// values of types with methods (TextMarshaler, Stringer, error, ...)
		d := c04NativeData()
		keys := []string{"notes", "inner", "android", "isolated", "emptyish", "notes", "ip", "ip6", "t", "pt", "big", "hw", "dur", "url", "raw", "rat", "mask", "err", "ips", "ts", "long", "long2", "longb", "ch", "nilch", "long", "long2"}
		k := keys[r.Intn(len(keys))]
		c04Native(c, d, k, []string{`^10\.`, ".", "10.0.0.1", "5", "a", "2024", "", "1000000000", "^$"}[r.Intn(9)], k)
	}
	if idx%16 == 9 {
		c04Lookalikes(c, r)
	}
	if idx%16 == 11 {
		c04Quantified(c, r)
	}
	if idx%16 == 7 {
		// float32 values next to a midpoint, literal a hair above / below it
		lo, hi, below, above := float32Witness(r)
		for _, v := range []float32{lo, hi} {
			for _, lit := range []string{below, above} {
				t := univ.TFloat32
				d := univ.IfaceMap("f", univ.FloatOf(t, float64(v)), "l", univ.Slice(univ.SliceOf(t), univ.FloatOf(t, float64(v)))).Datum()
				c04Native(c, d, "f", lit, "float32-midpoint")
				c04Native(c, d, "l", lit, "float32-midpoint-list")
			}
		}
		c.Count("float32_midpoint_cases")
	}
	node, opt := drawDatum(c, idx, r)
	zooCase := idx%4 == 3
	if zooCase {
		// the value shapes of the deterministic matrix (narrow and odd key
		// types, nil / pointer elements, json.Number, ...) under all pairs
		z := c04Zoo[(idx/4)%len(c04Zoo)]
		node = univ.IfaceMap("v", z.N, "o", univ.IfaceMap("v", z.N))
		c.Count("zoo_cases")
	}
	g := newEgen(r, node, opt)
	g.pBroken = 0.3
	for k := 0; k < 4; k++ {
		parts, val, pkind := g.pickPath()
		sel, ok := g.selFor(parts)
		if !ok {
			continue
		}
		for _, pos := range []xgen.Op{xgen.OpEq, xgen.OpIn, xgen.OpEmpty, xgen.OpMatches} {
			var lit *xgen.Lit
			if pos.HasValue() {
				lit = g.literalFor(pos, val)
				if zooCase && r.Intn(2) == 0 {
					lit = &xgen.Lit{S: c01MatrixLits[r.Intn(len(c01MatrixLits))], Style: xgen.StyleQuoted}
				}
			}
			mk := func(op xgen.Op, contains bool) *xgen.Match {
				return &xgen.Match{Sel: sel, Op: op, Lit: lit, Contains: contains}
			}
			run := func(e xgen.Expr) (string, string, evalObs) {
				c.Evals(1)
				o, txt, ok := evalText(e, r, node, opt)
				if !ok {
					return "", txt, o
				}
				return o.Class3(), txt, o
			}
			p, ptxt, po := run(mk(pos, false))
			n, ntxt, no := run(mk(pos.Negation(), false))
			if p == "" || n == "" {
				c.Count("unparsed")
				continue
			}
			if p == "P" || n == "P" {
				c.Count("operand_panicked")
				continue
			}
			report := func(rel, atxt, btxt string, a, b evalObs) {
				c.Violation(fmt.Sprintf("C04 %s op=%s positive=%s other=%s path=%s", rel, pos, a.Class3(), b.Class3(), pkind), "operator pair is not complementary / equivalent",
					map[string]any{"first": clip(atxt, 300), "first_outcome": a.String(), "second": clip(btxt, 300), "second_outcome": b.String(), "datum": clip(node.Describe(), 1200), "options": describeOpt(opt)})
			}
			want := notTable(p)
			if n != want {
				report("negation-not-complement", ptxt, ntxt, po, no)
			}
			c.Count("pair:" + pos.String() + "/" + p)
			if pkind == "absent-leaf" || pkind == "absent-root" || pkind == "absent-intermediate" {
				c.Count("pair-absent:" + pos.String())
			}
			// not (positive) == negative ; not (negative) == positive
			if x, xt, xo := run(&xgen.Not{X: mk(pos, false)}); x != "" && x != n {
				report("not(positive)-differs-from-negative", xt, ntxt, xo, no)
			}
			if x, xt, xo := run(&xgen.Not{X: mk(pos.Negation(), false)}); x != "" && x != p {
				report("not(negative)-differs-from-positive", xt, ptxt, xo, po)
			}
			if pos == xgen.OpIn {
				if x, xt, xo := run(mk(xgen.OpIn, true)); x != "" && x != p {
					report("contains-differs-from-in", xt, ptxt, xo, po)
				}
				if x, xt, xo := run(mk(xgen.OpNotIn, true)); x != "" && x != n {
					report("not-contains-differs-from-not-in", xt, ntxt, xo, no)
				}
				c.Count("contains_pairs")
			}
			c.Distinct(ptxt + "|" + node.Shape())
			if idx%1777 == 0 && k == 0 {
				c.Sample(map[string]any{"positive": clip(ptxt, 150), "negative": clip(ntxt, 150), "positive_outcome": p, "negative_outcome": n, "path_kind": pkind})
			}
		}
	}
}

func init() {
	mon.Register(&mon.Prop{
		ID: "C03", Level: "exploration",
		Rule:        "per case a seeded document in one of 5 Go representations and options; 3 pairs of datum-directed sub-expressions A, B (matches, nested connectives, quantifiers; 30% broken paths so that T, F and E are all common); A, B and 10 composites (and, or, not, not not, both De Morgan pairs, two nested forms) are evaluated by separately created evaluators; oracle: the composite's outcome equals the statement's table applied to the OBSERVED outcomes of A and B (relational, no model). operands whose outcome the reference marks order-dependent are skipped. non-trivial = both operands evaluated; distinct by (A, B, datum shape)",
		Assumptions: []string{"outcomes are compared as classes true / false / error (the boolean accompanying an error is C09's subject)"},
		NumCases:    func(tier string) int { return tierN(tier, 8000, 150000) },
		Run:         c03Run,
		Required: func(tier string) []string {
			l := []string{"quantified_operand", "collision_datum_cases", "colliding_twin_operands", "matches_twin_operands", "sibling_quantifier_operands", "guarded_quantifier_operands", "grouped_operand_cases", "long_chains", "very_long_chains", "cell:not/T", "cell:not/F", "cell:not/E"}
			for _, op := range []string{"and", "or"} {
				for _, a := range []string{"T", "F", "E"} {
					for _, b := range []string{"T", "F", "E"} {
						l = append(l, "cell:"+op+"/"+a+b)
					}
				}
			}
			return l
		},
	})
	mon.Register(&mon.Prop{
		ID: "C04", Level: "exploration",
		Rule:        "per case a seeded document/representation/options and 4 (selector, literal) pairs - resolving paths and absent leaf / intermediate / root keys, nil values, non-collection targets, ill-typed literals, bad regular expressions; for each of the 4 operator pairs the positive and the negative spelling, not(positive), not(negative) and for membership the contains / not contains spellings are evaluated by separately created evaluators; oracle (relational): negative = complement of positive when positive returns without error, error iff positive errors; contains == in flipped; each == not(counterpart). non-trivial = positive and negative both evaluated; distinct by (positive expression, datum shape)",
		Assumptions: []string{"outcomes compared as classes true / false / error"},
		NumCases:    func(tier string) int { return tierN(tier, 6000, 300000) },
		Run:         c04Run,
		Heavy:       func(tier string, idx int) bool { return idx < len(c04Depths) && c04Depths[idx] > 60000 },
		Required: func(tier string) []string {
			l := []string{"contains_pairs", "zoo_cases", "native_relation_sets", "float32_midpoint_cases", "lookalike_histories", "clause_at_depth_cases", "quantified_pair_cases"}
			for _, op := range []string{"==", "in", "is empty", "matches"} {
				l = append(l, "pair:"+op+"/T", "pair:"+op+"/F", "pair:"+op+"/E", "pair-absent:"+op)
			}
			return l
		},
	})
}
