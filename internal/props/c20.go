package props

import (
	"fmt"
	"os"
	"path/filepath"
	"reflect"
	"sort"
	"strings"

	"github.com/hashicorp/go-bexpr/grammar"

	"verif/internal/mon"
	"verif/internal/pegread"
)

// C20 - the shipped generated parser is the one the shipped grammar
// describes. Decided at run time: (1) the LIVE rule table the process
// interprets is compared node for node with grammar.peg read at check time;
// (2) every code node is bound to the function pigeon names after its
// pre-order index; (3) every shipped action is executed against the grammar's
// own code block, compiled at check time into package grammar with
// `go build -overlay`, over a product universe of label values and texts.

func c20RepoDir() string {
	if d := os.Getenv("VERIF_REPO_DIR"); d != "" {
		return d
	}
	return "/repo"
}

var c20Grammar *pegread.Grammar
var c20Err error

func c20Load() (*pegread.Grammar, error) {
	if c20Grammar == nil && c20Err == nil {
		b, err := os.ReadFile(filepath.Join(c20RepoDir(), "grammar", "grammar.peg"))
		if err != nil {
			c20Err = err
		} else {
			c20Grammar, c20Err = pegread.Parse(string(b))
		}
	}
	return c20Grammar, c20Err
}

type c20Code struct {
	rule string
	node *pegread.Node
}

func c20CodeNodes(g *pegread.Grammar) []c20Code {
	var out []c20Code
	var rec func(rule string, n *pegread.Node)
	rec = func(rule string, n *pegread.Node) {
		if n.Kind == "action" || n.Kind == "andcode" || n.Kind == "notcode" {
			out = append(out, c20Code{rule, n})
		}
		for _, k := range n.Kids {
			rec(rule, k)
		}
	}
	for _, r := range g.Rules {
		rec(r.Name, r.Expr)
	}
	return out
}

func runesEq(a, b []rune) bool { return string(a) == string(b) }

// c20Compare compares one expression node of the .peg with the live table.
func c20Compare(c *mon.Ctx, rule string, path string, want *pegread.Node, got *grammar.VerifNode) bool {
	diff := func(what string, w, g interface{}) bool {
		c.Violation(fmt.Sprintf("C20 table-differs rule=%s what=%s", rule, what), "the live rule table differs from grammar.peg",
			map[string]any{"rule": rule, "node_path": path, "node_index": want.Index, "grammar_peg": fmt.Sprintf("%v", w), "live_table": fmt.Sprintf("%v", g)})
		return false
	}
	c.Count("nodes_compared")
	c.Count("nodekind:" + want.Kind)
	if want.Kind != got.Kind {
		return diff("node-kind", want.Kind, got.Kind)
	}
	switch want.Kind {
	case "labeled":
		if want.Label != got.Label {
			return diff("label", want.Label, got.Label)
		}
	case "ruleref":
		if want.Name != got.Name {
			return diff("rule-reference", want.Name, got.Name)
		}
	case "lit":
		if want.Val != got.Val || want.IgnoreCase != got.IgnoreCase {
			return diff("literal", fmt.Sprintf("%q i=%v", want.Val, want.IgnoreCase), fmt.Sprintf("%q i=%v", got.Val, got.IgnoreCase))
		}
		if want.Want != got.Want {
			return diff("literal-want", want.Want, got.Want)
		}
	case "class":
		if want.Val != got.Val {
			return diff("class-text", want.Val, got.Val)
		}
		if !runesEq(want.Chars, got.Chars) {
			return diff("class-chars", fmt.Sprintf("%q", want.Chars), fmt.Sprintf("%q", got.Chars))
		}
		if !runesEq(want.Ranges, got.Ranges) {
			return diff("class-ranges", fmt.Sprintf("%q", want.Ranges), fmt.Sprintf("%q", got.Ranges))
		}
		if strings.Join(want.Classes, ",") != strings.Join(got.Classes, ",") {
			return diff("class-unicode-classes", want.Classes, got.Classes)
		}
		if want.Inverted != got.Inverted || want.IgnoreCase != got.IgnoreCase {
			return diff("class-flags", fmt.Sprintf("inverted=%v i=%v", want.Inverted, want.IgnoreCase), fmt.Sprintf("inverted=%v i=%v", got.Inverted, got.IgnoreCase))
		}
		if len(got.BasicLatin) > 0 {
			// when the generator filled the fast-path table it must agree
			var exp []int
			for ch := 0; ch < 128; ch++ {
				in := false
				for _, x := range want.Chars {
					if rune(ch) == x {
						in = true
					}
				}
				for i := 0; i+1 < len(want.Ranges); i += 2 {
					if rune(ch) >= want.Ranges[i] && rune(ch) <= want.Ranges[i+1] {
						in = true
					}
				}
				if in {
					exp = append(exp, ch)
				}
			}
			if fmt.Sprint(exp) != fmt.Sprint(got.BasicLatin) {
				return diff("class-basic-latin-table", exp, got.BasicLatin)
			}
		}
	case "action", "andcode", "notcode":
		suffix := fmt.Sprintf("callon%s%d", rule, want.Index)
		if !strings.HasSuffix(got.Func, "."+suffix) {
			return diff("action-binding", "(*parser)."+suffix, got.Func)
		}
		c.Count("actions_bound")
	}
	if len(want.Kids) != len(got.Kids) {
		return diff("child-count:"+want.Kind, len(want.Kids), len(got.Kids))
	}
	ok := true
	for i := range want.Kids {
		if !c20Compare(c, rule, fmt.Sprintf("%s/%s[%d]", path, want.Kind, i), want.Kids[i], got.Kids[i]) {
			ok = false
		}
	}
	return ok
}

// universes for the differential execution of actions
func c20LabelUniverse() []interface{} {
	m := &grammar.MatchExpression{Selector: grammar.Selector{Type: grammar.SelectorTypeBexpr, Path: []string{"a"}}, Operator: grammar.MatchEqual, Value: &grammar.MatchValue{Raw: "1"}}
	not := &grammar.UnaryExpression{Operator: grammar.UnaryOpNot, Operand: m}
	return []interface{}{
		nil, "", "str", "a/b", "0", []interface{}{}, []interface{}{"a", "b"}, []interface{}{"~0x", "y~1z"},
		m, not, &grammar.UnaryExpression{Operator: grammar.UnaryOpNot, Operand: not}, &grammar.BinaryExpression{Left: m, Operator: grammar.BinaryOpAnd, Right: not},
		&grammar.CollectionExpression{Op: grammar.CollectionOpAny, Selector: grammar.Selector{Type: grammar.SelectorTypeBexpr, Path: []string{"l"}}, Inner: m, NameBinding: grammar.CollectionNameBinding{Mode: grammar.CollectionBindDefault, Default: "x"}},
		grammar.Selector{Type: grammar.SelectorTypeBexpr, Path: []string{"a", "b"}}, grammar.Selector{Type: grammar.SelectorTypeJsonPointer, Path: []string{"x", "y z"}}, grammar.Selector{Type: grammar.SelectorTypeJsonPointer, Path: []string{""}},
		&grammar.MatchValue{Raw: "raw"}, grammar.MatchEqual, grammar.MatchNotEqual, grammar.MatchIn, grammar.MatchNotIn, grammar.MatchIsEmpty, grammar.MatchIsNotEmpty, grammar.MatchMatches, grammar.MatchNotMatches,
		grammar.CollectionOpAny, grammar.CollectionOpAll, grammar.CollectionNameBinding{Mode: grammar.CollectionBindValue, Value: "v"}, 7, true,
	}
}

var c20Texts = []string{`"abc"`, "`raw\rtext`", `"\q"`, `"a\x22b"`, "abc", "a/b_1", `"/usr/bin"`, `"/a~1b/~0"`, `""`, ".007", ".x", "/seg", "/", "", "-1.5", "0", `"`, "not", "é"}

func c20Call(f grammar.VerifAction, text string, labels map[string]interface{}) (val interface{}, errs string, pan string) {
	out := mon.Try(func() {
		v, err := f([]byte(text), labels)
		val = v
		if err != nil {
			errs = err.Error()
		}
	})
	if out.Panic {
		pan = out.PanicVal
	}
	return
}

func c20Run(c *mon.Ctx, idx int) {
	g, err := c20Load()
	if err != nil {
		c.Count("reader_failed")
		c.Note("reader_error", err.Error())
		return
	}
	if idx == 0 {
		live := grammar.VerifTable()
		c.Add("rules_in_grammar_peg", int64(len(g.Rules)))
		c.Add("rules_in_live_table", int64(len(live)))
		for i, r := range g.Rules {
			if i >= len(live) {
				c.Violation("C20 table-differs rule="+r.Name+" what=missing-rule", "a rule of grammar.peg is missing from the live table", map[string]any{"rule": r.Name, "position": i})
				continue
			}
			if live[i].Name != r.Name {
				c.Violation("C20 table-differs rule="+r.Name+" what=rule-order", "rules are not in the same order", map[string]any{"position": i, "grammar_peg": r.Name, "live_table": live[i].Name})
				continue
			}
			if live[i].DisplayName != r.DisplayName {
				c.Violation("C20 table-differs rule="+r.Name+" what=display-name", "display names differ", map[string]any{"grammar_peg": r.DisplayName, "live_table": live[i].DisplayName})
			}
			if c20Compare(c, r.Name, r.Name, r.Expr, live[i].Expr) {
				c.Count("rules_equal")
			}
			c.Count("rules_compared")
			c.Distinct("rule/" + r.Name)
		}
		for i := len(g.Rules); i < len(live); i++ {
			c.Violation("C20 table-differs rule="+live[i].Name+" what=extra-rule", "the live table has a rule grammar.peg does not have", map[string]any{"rule": live[i].Name})
		}
		c.Evals(int(c.CounterValue("nodes_compared")))
		c.Sample(map[string]any{"kind": "structural comparison of the live rule table with grammar.peg", "rules": len(g.Rules)})
		return
	}
	codes := c20CodeNodes(g)
	if idx-1 >= len(codes) {
		c20E2E(c, g, idx-1-len(codes))
		return
	}
	cd := codes[idx-1]
	key := fmt.Sprintf("%s%d", cd.rule, cd.node.Index)
	shipped := grammar.VerifActions()
	var sf grammar.VerifAction
	for name, f := range shipped {
		if strings.HasSuffix(name, ".callon"+key) {
			sf = f
		}
	}
	if sf == nil {
		c.Violation("C20 action-missing "+key, "no shipped action is bound under the name the grammar prescribes", map[string]any{"want": "callon" + key})
		return
	}
	ref := c20RefActions()
	if ref == nil {
		c.Count("reference_actions_not_compiled_in")
		return
	}
	rf := ref[key]
	if rf == nil {
		c.Count("reference_action_missing")
		c.Note("reference_action_missing", key)
		return
	}
	uni := c20LabelUniverse()
	args := cd.node.Args
	total := 1
	for range args {
		total *= len(uni)
	}
	stride := 1
	if limit := tierN(c.Tier, 6000, 200000); total > limit {
		stride = total/limit + 1
		if stride%len(uni) == 0 {
			stride++ // keep every label position varying
		}
	}
	pairs := 0
	for combo := 0; combo < total; combo += stride {
		labels := map[string]interface{}{}
		labelsRef := map[string]interface{}{}
		x := combo
		for _, a := range args {
			v := uni[x%len(uni)]
			x /= len(uni)
			if v != nil {
				labels[a] = v
				labelsRef[a] = v
			}
		}
		for _, text := range c20Texts {
			v1, e1, p1 := c20Call(sf, text, labels)
			v2, e2, p2 := c20Call(rf, text, labelsRef)
			pairs++
			if e1 != e2 || p1 != p2 || !reflect.DeepEqual(v1, v2) {
				var ks []string
				for k, v := range labels {
					ks = append(ks, fmt.Sprintf("%s=%T %+v", k, v, v))
				}
				sort.Strings(ks)
				c.Violation("C20 action-behaviour-differs "+key, "a shipped action behaves differently from the code block of grammar.peg",
					map[string]any{"action": key, "text": text, "labels": ks, "shipped": fmt.Sprintf("%#v err=%q panic=%q", v1, e1, p1), "grammar_code_block": fmt.Sprintf("%#v err=%q panic=%q", v2, e2, p2), "code_block": clip(cd.node.Code, 600)})
				c.Add("action_argument_pairs_executed", int64(pairs))
				return
			}
		}
	}
	c.Add("action_argument_pairs_executed", int64(pairs))
	c.Evals(pairs)
	c.Count("actions_executed_against_grammar")
	c.Distinct("action/" + key)
	if idx%7 == 1 {
		c.Sample(map[string]any{"kind": "differential execution of an action", "action": key, "labels_in_scope": args, "argument_pairs": pairs, "code_block": clip(strings.TrimSpace(cd.node.Code), 200)})
	}
}

func init() {
	mon.Register(&mon.Prop{
		ID: "C20", Level: "translation_validation",
		Rule: "complete: every rule of grammar.peg (read at check time by a generic pigeon-syntax reader) is compared node for node with the LIVE rule table of the running process (VerifTable hook): rule order, display names, node kinds, labels, literal values / ignore-case / want strings, character class text, chars, ranges, Unicode classes and flags, rule references, predicates, repetition operators, child counts; every action / code predicate must be bound (runtime.FuncForPC) to callon<Rule><pre-order index>; then every code block of grammar.peg, compiled at check time into package grammar through `go build -overlay`, is executed side by side with the shipped action (VerifActions hook) on the product of a 33-value label universe (nil, strings, lists, every AST node type, selectors of both types, every operator constant, bindings, ints, bools) and 19 texts, comparing results deep-equal, error text and panic text. programs = rules compared; non-trivial = a rule / an action compared; distinct by rule or action name",
		Assumptions: []string{"source text identity of an action is not a runtime observable: actions are compared up to observable behaviour on the argument universe (a semantics-preserving rewrite is invisible and harmless)",
			"the .peg reader follows pigeon's syntax and character-class parsing rules; a construct it does not understand makes the check inconclusive, not violated", "source positions recorded in the table are ignored"},
		NumCases: func(tier string) int {
			g, err := c20Load()
			if err != nil {
				return 1
			}
			return 1 + len(c20CodeNodes(g)) + tierN(tier, 64, 4000)
		},
		Run:   c20Run,
		Chunk: func(string, int) int { return 1 },
		Required: func(tier string) []string {
			// generic in the grammar: nothing about which node kinds it uses
			return []string{"rules_compared", "nodes_compared", "actions_bound", "actions_executed_against_grammar", "action_argument_pairs_executed",
				"e2e_inputs", "e2e_accepted", "e2e_rejected", "e2e_big_inputs"}
		},
		Post: func(a *mon.Agg) {
			c20CoverSummary(a)
			a.Extra["programs"] = a.Counters["rules_compared"]
			a.Extra["disagreements_checked"] = a.Counters["nodes_compared"] + a.Counters["action_argument_pairs_executed"] + a.Counters["e2e_inputs"]
			if a.Counters["reader_failed"] > 0 {
				a.Inconclusive("the grammar.peg reader does not understand the file")
			}
			if a.Counters["reference_actions_not_compiled_in"] > 0 || a.Counters["reference_action_missing"] > 0 {
				a.Inconclusive("the grammar's code blocks were not compiled into this binary (overlay build missing)")
			}
			if a.Counters["rules_compared"] != a.Counters["rules_in_grammar_peg"] {
				a.Inconclusive("not every rule was compared")
			}
		},
		Exhaustive: func(string) bool { return true },
	})
}
