package props

import (
	"fmt"
	"math/rand"
	"reflect"
	"runtime"
	"strings"

	bexpr "github.com/hashicorp/go-bexpr"

	"verif/internal/mon"
)

// Collections that exist only during a call: a WithHookFn hook presents a
// list of name/value pairs as a freshly built map (and a comma separated
// string as a freshly built list) every time it is asked, the documented use
// of the hook for generated types. Inside a quantifier over a list many such
// short-lived collections of equal length are met within ONE Evaluate call,
// and with a garbage collection in between the allocator hands the address of
// one to the next. Anything the evaluation remembers by address, by length or
// by position rather than by value then shows up as an outcome that changes
// with the collector's schedule - the same (expression, options, datum)
// answering differently from call to call.
type c14Label struct {
	Name  string
	Value interface{}
}
type c14LabelSet []c14Label
type c14Csv string

type c14Item struct {
	ID     int
	Labels c14LabelSet
	Csv    c14Csv
}

type c14Doc struct {
	Items  []c14Item
	ByName map[string]c14Item
	Name   string
}

var (
	c14LabelSetType = reflect.TypeOf(c14LabelSet(nil))
	c14CsvType      = reflect.TypeOf(c14Csv(""))
)

// c14Hook builds a fresh collection per request; gcEvery > 0 runs a
// collection every gcEvery-th request (as any allocation could).
func c14Hook(gcEvery int, requests *int64) bexpr.ValueTransformationHookFn {
	n := 0
	return func(v reflect.Value) reflect.Value {
		if !v.IsValid() {
			return v
		}
		switch v.Type() {
		case c14LabelSetType:
			n++
			*requests++
			if gcEvery > 0 && n%gcEvery == 0 {
				runtime.GC()
			}
			m := make(map[string]interface{}, v.Len())
			for i := 0; i < v.Len(); i++ {
				l := v.Index(i).Interface().(c14Label)
				m[l.Name] = l.Value
			}
			return reflect.ValueOf(m)
		case c14CsvType:
			n++
			*requests++
			if gcEvery > 0 && n%gcEvery == 0 {
				runtime.GC()
			}
			parts := strings.Split(v.String(), ",")
			l := make([]string, len(parts))
			copy(l, parts)
			return reflect.ValueOf(l)
		}
		return v
	}
}

func c14HookBuilt(c *mon.Ctx, r *rand.Rand) {
	nItems := []int{12, 24, 40}[r.Intn(3)]
	nLabels := 2 + r.Intn(3)
	doc := c14Doc{ByName: map[string]c14Item{}, Name: "n"}
	// every item: labels with its own names (so that keys of one item are
	// absent from every other), all "no" but one "yes"; now and then one value
	// that makes `v == "yes"` error, sorted behind the decisive one
	errAt := -1
	if r.Intn(3) == 0 {
		errAt = r.Intn(nItems)
	}
	for i := 0; i < nItems; i++ {
		var ls c14LabelSet
		yes := r.Intn(nLabels)
		var csv []string
		for j := 0; j < nLabels; j++ {
			val := "no"
			if j == yes {
				val = "yes"
			}
			ls = append(ls, c14Label{Name: fmt.Sprintf("%c%03d", 'a'+j, i), Value: val})
			csv = append(csv, fmt.Sprintf("%s%d", val, i))
		}
		if i == errAt {
			ls = append(ls, c14Label{Name: fmt.Sprintf("z%03d", i), Value: []interface{}{1}})
		} else if errAt >= 0 {
			ls = append(ls, c14Label{Name: fmt.Sprintf("z%03d", i), Value: "no"})
		}
		r.Shuffle(len(ls), func(a, b int) { ls[a], ls[b] = ls[b], ls[a] })
		it := c14Item{ID: i, Labels: ls, Csv: c14Csv(strings.Join(csv, ","))}
		doc.Items = append(doc.Items, it)
		doc.ByName[fmt.Sprintf("item%03d", i)] = it
	}
	texts := []string{
		`all Items as it { any it.Labels as k, v { v == "yes" } }`,
		`any Items as it { all it.Labels as k, v { v == "no" } }`,
		`all Items as it { any it.Labels as k { k matches "^b" } }`,
		`all Items as it { any it.Labels as _, v { v == "yes" } and it.Labels is not empty }`,
		`any Items as it { all it.Labels as k, v { v != "yes" or k matches "^zz" } }`,
		`all ByName as _, it { any it.Labels as k, v { v == "yes" } }`,
		`any ByName as n, it { all it.Labels as k, v { v == "no" } }`,
		`all Items as it { any it.Csv as t { t matches "^yes" } }`,
		`any Items as it { all it.Csv as i, t { t matches "^no" } }`,
		`all Items as i, it { (any it.Labels as k, v { v == "yes" }) and (any it.Csv as t { t matches "^yes" }) }`,
		`all Items as it { all it.Labels as k, v { v == "yes" or v == "no" } }`,
		`not (any Items as it { all it.Labels as k, v { v == "no" } }) and Name == "n"`,
	}
	text := texts[r.Intn(len(texts))]
	counts := map[string]int{}
	perLeg := map[string]string{}
	var requests int64
	for _, leg := range []struct{ gcEvery, reps int }{{0, 12}, {1, 1}, {3, 2}, {7, 3}, {0, 4}} {
		ev, err, pan, _ := createEval(text, bexpr.WithHookFn(c14Hook(leg.gcEvery, &requests)))
		if pan != "" || err != nil {
			c.Count("unparsed")
			c.Note("unparsed", clip(text, 100))
			return
		}
		for i := 0; i < leg.reps; i++ {
			var d interface{} = doc
			if i%2 == 1 {
				d = &doc
			}
			o := evaluate(ev, d).Class()
			c.Evals(1)
			counts[o]++
			perLeg[fmt.Sprintf("gc_every_%d", leg.gcEvery)] += o
		}
	}
	c.Add("hook_built_collections_requested", requests)
	if len(counts) > 1 {
		c.Violation(fmt.Sprintf("C14 nondeterministic %v hook-built-collections", keysOf(counts)), "repeating the same call on a datum whose collections a (pure) hook builds afresh per request gave different outcomes",
			map[string]any{"expression": text, "items": nItems, "labels_per_item": nLabels, "erroring_item": errAt, "outcome_counts": counts, "outcomes_per_leg": perLeg})
		return
	}
	c.Count("hook_built_collection_scenarios")
	c.Count("hook_built_outcome:" + keysOf(counts)[0])
	c.Distinct(fmt.Sprintf("hook-built|%s|%d|%d|%d", text, nItems, nLabels, errAt))
}

// Maps keyed by anything but plain strings (integers of every width, named
// string types, bools, floats, small structs, arrays), in structs and in
// generic documents, with element outcomes that mix true / false / error:
// whatever the evaluation does with them - refuse them or range over them - it
// has to do the same on every call.
type c14NamedKey string
type c14PairKey struct{ A, B int }

type c14OddDoc struct {
	IntM   map[int]interface{}
	I8M    map[int8]interface{}
	U16M   map[uint16]interface{}
	NamedM map[c14NamedKey]interface{}
	BoolM  map[bool]interface{}
	F64M   map[float64]interface{}
	PairM  map[c14PairKey]interface{}
	ArrM   map[[2]int]interface{}
	TypedI map[int]int
	TypedN map[c14NamedKey]string
	Name   string
}

func c14OddKeys(c *mon.Ctx, r *rand.Rand) {
	n := 2 + r.Intn(7)
	vals := make([]interface{}, n)
	for i := range vals {
		switch r.Intn(5) {
		case 0:
			vals[i] = 1 // decisive for v == 1
		case 1:
			vals[i] = 2 + r.Intn(3)
		case 2:
			vals[i] = []interface{}{1} // `v == 1` errors
		case 3:
			vals[i] = struct{ X int }{i}
		default:
			vals[i] = "s"
		}
	}
	vals[r.Intn(n)] = 1
	vals[r.Intn(n)] = struct{ X int }{1}
	doc := c14OddDoc{IntM: map[int]interface{}{}, I8M: map[int8]interface{}{}, U16M: map[uint16]interface{}{}, NamedM: map[c14NamedKey]interface{}{}, BoolM: map[bool]interface{}{},
		F64M: map[float64]interface{}{}, PairM: map[c14PairKey]interface{}{}, ArrM: map[[2]int]interface{}{}, TypedI: map[int]int{}, TypedN: map[c14NamedKey]string{}, Name: "n"}
	for i, v := range vals {
		doc.IntM[i+1] = v
		doc.I8M[int8(i-3)] = v
		doc.U16M[uint16(i*257)] = v
		doc.NamedM[c14NamedKey(fmt.Sprintf("k%d", i))] = v
		doc.BoolM[i%2 == 0] = v
		doc.F64M[float64(i)+0.5] = v
		doc.PairM[c14PairKey{i, -i}] = v
		doc.ArrM[[2]int{i, i}] = v
		doc.TypedI[i] = i % 3
		doc.TypedN[c14NamedKey(fmt.Sprintf("k%d", i))] = []string{"hit", "miss", "x"}[i%3]
	}
	fields := []string{"IntM", "I8M", "U16M", "NamedM", "BoolM", "F64M", "PairM", "ArrM"}
	f := fields[r.Intn(len(fields))]
	texts := []string{
		`any ` + f + ` as k, v { v == 1 }`, `all ` + f + ` as k, v { v != 1 }`, `any ` + f + ` as _, v { v == 1 or v == 2 }`, `all ` + f + ` as k { k != "k1" }`,
		`any ` + f + ` as k, v { v.X == 1 }`, `not (any ` + f + ` as k, v { v == 1 }) or Name == "zz"`, `all ` + f + ` as _, v { v is not empty }`,
		`any TypedI as k, v { v == 1 or v.x == 1 }`, `all TypedI as k, v { v == 0 and v.x == 1 }`, `any TypedN as k, v { v == "hit" or v.x == 1 }`, `all TypedN as k, v { v == "miss" and v.x == 1 }`,
		`any TypedN as k { k == "k2" or TypedN.zz.y == 1 }`,
	}
	text := texts[r.Intn(len(texts))]
	ev, err, pan, _ := createEval(text)
	if pan != "" || err != nil {
		c.Count("unparsed")
		c.Note("unparsed", clip(text, 100))
		return
	}
	// the same logical document as a struct, behind a pointer and as a generic
	// map of the same typed maps; every variant separately must be constant
	generic := map[string]interface{}{"IntM": doc.IntM, "I8M": doc.I8M, "U16M": doc.U16M, "NamedM": doc.NamedM, "BoolM": doc.BoolM, "F64M": doc.F64M, "PairM": doc.PairM, "ArrM": doc.ArrM, "TypedI": doc.TypedI, "TypedN": doc.TypedN, "Name": doc.Name}
	for vi, d := range []interface{}{doc, &doc, generic} {
		counts := map[string]int{}
		for i := 0; i < 70; i++ {
			use := ev
			if i%5 == 4 {
				use, _, _, _ = createEval(text)
			}
			counts[evaluate(use, d).Class()]++
			c.Evals(1)
		}
		if len(counts) > 1 {
			c.Violation(fmt.Sprintf("C14 nondeterministic %v non-string-keyed-map", keysOf(counts)), "repeating the same call on a map that is not keyed by plain strings gave different outcomes",
				map[string]any{"expression": text, "entries": n, "variant": []string{"struct", "pointer to struct", "generic document"}[vi], "outcome_counts": counts})
			return
		}
		c.Count("non_string_keyed_outcome:" + keysOf(counts)[0])
	}
	c.Count("non_string_keyed_map_scenarios")
	c.Distinct(fmt.Sprintf("odd-keys|%s|%d|%v", text, n, vals))
}
