package props

import (
	"fmt"
	"math/rand"
	"reflect"
	"runtime"
	"strings"

	bexpr "github.com/hashicorp/go-bexpr"

	"verif/internal/mon"
)

// Collections that exist only during a call: a WithHookFn hook presents a
// list of name/value pairs as a freshly built map (and a comma separated
// string as a freshly built list) every time it is asked, the documented use
// of the hook for generated types. Inside a quantifier over a list many such
// short-lived collections of equal length are met within ONE Evaluate call,
// and with a garbage collection in between the allocator hands the address of
// one to the next. Anything the evaluation remembers by address, by length or
// by position rather than by value then shows up as an outcome that changes
// with the collector's schedule - the same (expression, options, datum)
// answering differently from call to call.
type c14Label struct {
	Name  string
	Value interface{}
}
type c14LabelSet []c14Label
type c14Csv string

type c14Item struct {
	ID     int
	Labels c14LabelSet
	Csv    c14Csv
}

type c14Doc struct {
	Items  []c14Item
	ByName map[string]c14Item
	Name   string
}

var (
	c14LabelSetType = reflect.TypeOf(c14LabelSet(nil))
	c14CsvType      = reflect.TypeOf(c14Csv(""))
)

// c14Hook builds a fresh collection per request; gcEvery > 0 runs a
// collection every gcEvery-th request (as any allocation could).
func c14Hook(gcEvery int, requests *int64) bexpr.ValueTransformationHookFn {
	n := 0
	return func(v reflect.Value) reflect.Value {
		if !v.IsValid() {
			return v
		}
		switch v.Type() {
		case c14LabelSetType:
			n++
			*requests++
			if gcEvery > 0 && n%gcEvery == 0 {
				runtime.GC()
			}
			m := make(map[string]interface{}, v.Len())
			for i := 0; i < v.Len(); i++ {
				l := v.Index(i).Interface().(c14Label)
				m[l.Name] = l.Value
			}
			return reflect.ValueOf(m)
		case c14CsvType:
			n++
			*requests++
			if gcEvery > 0 && n%gcEvery == 0 {
				runtime.GC()
			}
			parts := strings.Split(v.String(), ",")
			l := make([]string, len(parts))
			copy(l, parts)
			return reflect.ValueOf(l)
		}
		return v
	}
}

func c14HookBuilt(c *mon.Ctx, r *rand.Rand) {
	nItems := []int{12, 24, 40, 64}[r.Intn(4)]
	nLabels := 2 + r.Intn(3)
	doc := c14Doc{ByName: map[string]c14Item{}, Name: "n"}
	// every item: labels with its own names (so that keys of one item are
	// absent from every other), all "no" but one "yes"; now and then one value
	// that makes `v == "yes"` error, sorted behind the decisive one
	errAt := -1
	if r.Intn(3) == 0 {
		errAt = r.Intn(nItems)
	}
	for i := 0; i < nItems; i++ {
		var ls c14LabelSet
		yes := r.Intn(nLabels)
		var csv []string
		for j := 0; j < nLabels; j++ {
			val := "no"
			if j == yes {
				val = "yes"
			}
			ls = append(ls, c14Label{Name: fmt.Sprintf("%c%03d", 'a'+j, i), Value: val})
			csv = append(csv, fmt.Sprintf("%s%d", val, i))
		}
		if i == errAt {
			ls = append(ls, c14Label{Name: fmt.Sprintf("z%03d", i), Value: []interface{}{1}})
		} else if errAt >= 0 {
			ls = append(ls, c14Label{Name: fmt.Sprintf("z%03d", i), Value: "no"})
		}
		r.Shuffle(len(ls), func(a, b int) { ls[a], ls[b] = ls[b], ls[a] })
		it := c14Item{ID: i, Labels: ls, Csv: c14Csv(strings.Join(csv, ","))}
		doc.Items = append(doc.Items, it)
		doc.ByName[fmt.Sprintf("item%03d", i)] = it
	}
	texts := []string{
		`all Items as it { any it.Labels as k, v { v == "yes" } }`,
		`any Items as it { all it.Labels as k, v { v == "no" } }`,
		`all Items as it { any it.Labels as k { k matches "^b" } }`,
		`all Items as it { any it.Labels as _, v { v == "yes" } and it.Labels is not empty }`,
		`any Items as it { all it.Labels as k, v { v != "yes" or k matches "^zz" } }`,
		`all ByName as _, it { any it.Labels as k, v { v == "yes" } }`,
		`any ByName as n, it { all it.Labels as k, v { v == "no" } }`,
		`all Items as it { any it.Csv as t { t matches "^yes" } }`,
		`any Items as it { all it.Csv as i, t { t matches "^no" } }`,
		`all Items as i, it { (any it.Labels as k, v { v == "yes" }) and (any it.Csv as t { t matches "^yes" }) }`,
		`all Items as it { all it.Labels as k, v { v == "yes" or v == "no" } }`,
		`not (any Items as it { all it.Labels as k, v { v == "no" } }) and Name == "n"`,
	}
	text := texts[r.Intn(len(texts))]
	counts := map[string]int{}
	perLeg := map[string]string{}
	var requests int64
	for _, leg := range []struct{ gcEvery, reps int }{{0, 12}, {1, 2}, {3, 3}, {7, 4}, {0, 6}} {
		ev, err, pan, _ := createEval(text, bexpr.WithHookFn(c14Hook(leg.gcEvery, &requests)))
		if pan != "" || err != nil {
			c.Count("unparsed")
			c.Note("unparsed", clip(text, 100))
			return
		}
		for i := 0; i < leg.reps; i++ {
			var d interface{} = doc
			if i%2 == 1 {
				d = &doc
			}
			o := evaluate(ev, d).Class()
			c.Evals(1)
			counts[o]++
			perLeg[fmt.Sprintf("gc_every_%d", leg.gcEvery)] += o
		}
	}
	c.Add("hook_built_collections_requested", requests)
	if len(counts) > 1 {
		c.Violation(fmt.Sprintf("C14 nondeterministic %v hook-built-collections", keysOf(counts)), "repeating the same call on a datum whose collections a (pure) hook builds afresh per request gave different outcomes",
			map[string]any{"expression": text, "items": nItems, "labels_per_item": nLabels, "erroring_item": errAt, "outcome_counts": counts, "outcomes_per_leg": perLeg})
		return
	}
	c.Count("hook_built_collection_scenarios")
	c.Count("hook_built_outcome:" + keysOf(counts)[0])
	c.Distinct(fmt.Sprintf("hook-built|%s|%d|%d|%d", text, nItems, nLabels, errAt))
}
