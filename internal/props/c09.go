package props

import (
	"encoding/json"

	"fmt"
	"math"
	"math/rand"
	"reflect"
	"strings"
	"unsafe"

	bexpr "github.com/hashicorp/go-bexpr"

	"verif/internal/mon"
	"verif/internal/refsem"
	"verif/internal/univ"
	"verif/internal/xgen"
)

// C09 - Evaluate is total, and an error always comes with false.

type zooEntry struct {
	Name string
	Val  interface{}
}

type c09Named string
type c09Int int
type c09Struct struct {
	A      int
	hidden string
	P      *int
	I      interface{}
}
type c09Cyc struct {
	Name string
	Next *c09Cyc
	M    map[string]interface{}
}

type c09Str string

func (s c09Str) String() string { return string(s) }

type c09Any interface{}

func c09Ints(n int) []interface{} {
	l := make([]interface{}, n)
	for i := range l {
		l[i] = i
	}
	return l
}

func c09TypedInts(n int) []int {
	l := make([]int, n)
	for i := range l {
		l[i] = i
	}
	return l
}

// c09Zoo is one value of (at least) every reflect.Kind plus the odd shapes
// the property lists, built directly in Go (no Node tree: several of them
// cannot be described by one).
// deepPtr wraps v in n levels of pointers.
func deepPtr(v interface{}, n int) reflect.Value {
	rv := reflect.ValueOf(v)
	for i := 0; i < n; i++ {
		p := reflect.New(rv.Type())
		p.Elem().Set(rv)
		rv = p
	}
	return rv
}

func c09DeepPointerEntries() []zooEntry {
	var out []zooEntry
	for _, n := range []int{3, 8, 9, 10, 16, 33} {
		p := deepPtr(1, n)
		sl := reflect.MakeSlice(reflect.SliceOf(p.Type()), 2, 2)
		sl.Index(0).Set(p)
		sl.Index(1).Set(deepPtr(7, n))
		out = append(out, zooEntry{fmt.Sprintf("%d-level-pointer", n), p.Interface()},
			zooEntry{fmt.Sprintf("slice-of-%d-level-pointers", n), sl.Interface()},
			zooEntry{fmt.Sprintf("iface-slice-with-%d-level-pointer", n), []interface{}{p.Interface(), "x", deepPtr("s", n).Interface()}},
			zooEntry{fmt.Sprintf("map-of-%d-level-pointers", n), map[string]interface{}{"k": p.Interface(), "s": deepPtr("abc", n).Interface(), "l": deepPtr([]int{1}, n).Interface(), "m": deepPtr(map[string]int{"a": 1}, n).Interface()}})
	}
	return out
}

func c09Zoo() []zooEntry {
	one := 1
	p := &one
	pp := &p
	var nilp *int
	var nilpp **int
	var nilStruct *c09Struct
	var nilMap map[string]int
	var nilSlice []string
	var nilIface interface{}
	var nilFunc func()
	var nilChan chan int
	str := "s"
	cyc := &c09Cyc{Name: "c"}
	cyc.Next = cyc
	cycMap := map[string]interface{}{"k": 1}
	cycMap["self"] = cycMap
	cyc.M = cycMap
	cycSlice := make([]interface{}, 2)
	cycSlice[0] = 1
	cycSlice[1] = cycSlice
	ch := make(chan int, 2)
	ch <- 1
	var arr0 [0]int
	var ifacePtr interface{} = 5
	zoo := []zooEntry{
		{"nil", nil},
		{"bool", true}, {"int", int(5)}, {"int8", int8(-5)}, {"int16", int16(5)}, {"int32", int32(5)}, {"int64", int64(math.MinInt64)},
		{"uint", uint(5)}, {"uint8", uint8(5)}, {"uint16", uint16(5)}, {"uint32", uint32(5)}, {"uint64", uint64(math.MaxUint64)}, {"uintptr", uintptr(5)},
		{"float32", float32(1.5)}, {"float64", 1.5}, {"nan", math.NaN()}, {"inf", math.Inf(-1)}, {"complex64", complex64(1 + 2i)}, {"complex128", 1 + 2i},
		{"string", "abc"}, {"emptystring", ""}, {"named-string", c09Named("abc")}, {"named-int", c09Int(5)},
		{"array", [3]int{1, 2, 3}}, {"array0", arr0}, {"bytearray", [2]byte{'a', 'b'}}, {"chan", ch}, {"nilchan", nilChan}, {"func", func() {}}, {"nilfunc", nilFunc},
		{"unsafe.Pointer", unsafe.Pointer(p)}, {"ptr", p}, {"ptrptr", pp}, {"nilptr", nilp}, {"nilptrptr", nilpp}, {"ptr-to-string", &str}, {"ptr-to-iface", &ifacePtr}, {"ptr-to-nil-iface", &nilIface},
		{"struct", c09Struct{A: 1, hidden: "h", P: p, I: nil}}, {"ptr-struct", &c09Struct{A: 2}}, {"nil-ptr-struct", nilStruct}, {"empty-struct", struct{}{}},
		{"slice-int", []int{1, 2, 3}}, {"slice-empty", []int{}}, {"slice-nil", nilSlice}, {"bytes", []byte("abc")}, {"slice-string", []string{"a", "abc"}},
		{"slice-iface-mixed", []interface{}{1, nil, "x", 1.5, true}}, {"slice-iface-nil-only", []interface{}{nil}}, {"slice-iface-nested", []interface{}{[]interface{}{1}, map[string]interface{}{"a": 1}}},
		{"slice-iface-ptrs", []interface{}{p, nilp, pp, &str}}, {"slice-iface-exotic", []interface{}{ch, func() {}, 1 + 2i, uintptr(1), struct{}{}}},
		{"slice-ptr-nil", []*int{p, nil}}, {"slice-ptrptr", []**int{pp, nil, &nilp}}, {"slice-ptr-string", []*string{&str, nil}}, {"slice-struct", []c09Struct{{A: 1}}}, {"slice-slice", [][]int{{1}, nil}},
		{"slice-ptr-iface", []*interface{}{&ifacePtr, &nilIface, nil}}, {"slice-chan", []chan int{ch, nil}}, {"slice-func", []func(){nil}}, {"slice-complex", []complex128{1}}, {"slice-nan", []float64{math.NaN(), 1}},
		{"slice-jsonnumber", []json.Number{"1", "abc"}}, {"slice-named", []c09Named{"abc"}}, {"slice-uintptr", []uintptr{1}}, {"slice-unsafe", []unsafe.Pointer{nil}},
		{"array-iface", [2]interface{}{nil, "abc"}}, {"array-ptr", [2]*int{p, nil}}, {"ptr-slice", &[]int{1}}, {"ptr-array", &[2]int{1, 2}}, {"ptr-map", &map[string]int{"abc": 1}},
		{"map-string", map[string]int{"abc": 1}}, {"map-nil", nilMap}, {"map-iface-val", map[string]interface{}{"abc": nil, "k": []interface{}{}}}, {"map-named-key", map[c09Named]int{"abc": 1}},
		{"map-int-key", map[int]string{1: "a", 5: "b"}}, {"map-int8-key", map[int8]string{5: "b"}}, {"map-uint-key", map[uint]string{5: "b"}}, {"map-bool-key", map[bool]int{true: 1}},
		{"map-float-key", map[float64]int{1.5: 1, math.NaN(): 2}}, {"map-float32-key", map[float32]int{1.5: 1}}, {"map-iface-key", map[interface{}]int{"abc": 1, 5: 2, nil: 3, 1.5: 4}},
		{"map-struct-key", map[struct{ A int }]int{{1}: 1}}, {"map-array-key", map[[2]int]int{{1, 2}: 1}}, {"map-ptr-key", map[*int]int{p: 1, nil: 2}}, {"map-complex-key", map[complex128]int{1: 1}},
		{"map-chan-key", map[chan int]int{ch: 1}}, {"map-uintptr-key", map[uintptr]int{5: 1}}, {"map-named-int-key", map[c09Int]int{5: 1}}, {"map-string-ptr-val", map[string]*int{"abc": p, "n": nil}},
		{"map-jsonnumber-key", map[json.Number]int{"5": 1}},
		{"map-stringer-key", map[fmt.Stringer]int{c09Str("abc"): 1}}, {"map-error-key", map[error]int{fmt.Errorf("abc"): 1, nil: 2}}, {"map-stringer-key-empty", map[fmt.Stringer]int{}},
		{"map-named-iface-key", map[c09Any]int{"abc": 1, 5: 2}}, {"slice-stringer", []fmt.Stringer{c09Str("abc"), nil}}, {"slice-error", []error{fmt.Errorf("abc")}},
		{"slice-iface-range-then-match", []interface{}{1, nil, int8(5), uint64(math.MaxUint64), "18446744073709551615", float32(1), float64(1e39), "1e39"}},
		{"array-iface-range-then-match", [4]interface{}{int64(1), uint64(math.MaxUint64), float32(2), "1e39"}},
		{"list-65", c09Ints(65)}, {"list-64", c09Ints(64)}, {"list-66-typed", c09TypedInts(66)}, {"array-70", [70]int{69: 5}},
		{"jsonnumber-int", json.Number("5")}, {"jsonnumber-float", json.Number("1.5")}, {"jsonnumber-bad", json.Number("abc")}, {"jsonnumber-huge", json.Number("1e999")}, {"jsonnumber-empty", json.Number("")},
		{"ptr-jsonnumber", func() *json.Number { n := json.Number("5"); return &n }()},
		{"typed-nil-in-iface", interface{}(nilp)}, {"cyclic-struct", cyc}, {"cyclic-map", cycMap}, {"cyclic-slice", cycSlice},
	}
	return append(zoo, c09DeepPointerEntries()...)
}

var c09Lits = []string{"abc", "5", "1.5", "true", "", "1e999", "99999999999999999999", "-1", "(", "0x5", "NaN", "k", "1", "18446744073709551615", "1e39", "-9223372036854775809", "0.00000000000000000000001", "1." + strings.Repeat("0", 40) + "1", "-0." + strings.Repeat("0", 30) + "5", "5e-30", strings.Repeat("9", 30) + ".5", "-1", "0x7fffffffffffffff"}

// c09Exprs lists the expressions applied to a zoo value reachable as `v`
// (depth 1), and the ones applied with the value as the datum itself.
func c09Exprs() []string {
	var l []string
	q := func(s string) string { return (&xgen.Renderer{Plain: true}).Quote(s) }
	for _, lit := range c09Lits {
		ql := q(lit)
		l = append(l, "v == "+ql, "v != "+ql, ql+" in v", ql+" not in v", "v contains "+ql, "v matches "+ql, "v not matches "+ql,
			"v.abc == "+ql, "v.0 == "+ql, "v.5 == "+ql, "v.A == "+ql, "v.zz == "+ql, ql+" in v.abc", ql+" in v.0", "v.1.a == "+ql, "v.true == "+ql, "v[\"1.5\"] == "+ql)
	}
	l = append(l, "v is empty", "v is not empty", "v.abc is empty", "v.0 is not empty", "v.zz is empty", "v.Next.Next.Name == \"c\"", "v.self.self.k == 1", "v.1.1.0 == 1", "v.M.self.k == 1",
		"not v is empty", "not (v == \"abc\")", "not not (v matches \"(\")", "v is empty and v is empty", "v is empty or v == 1", "v == 1 or v is empty", "not v.zz.y == 1",
		"any v as x { x == 5 }", "all v as x { x == \"abc\" }", "any v as k, x { x is empty }", "all v as k, _ { k == \"abc\" }", "any v as _, x { x.A == 1 }", "all v as i, i { i == 1 }",
		"any v as x { any x as y { y == 1 } }", "all v as x { not (x == 1) }", "any v as x { x.zz == 1 }", "any v as x { \"5\" in x }", "all v as x { x matches \"a\" }", "any v.abc as x { x == 1 }",
		"any v.zz as x { x == 1 }", "all v.zz as x { x == 1 }", "any v as x { v is empty }", "all v as k, x { x == k }")
	return l
}

func c09Check(c *mon.Ctx, text string, datum interface{}, dname string) {
	c.Evals(1)
	ev, err, pan, _ := createEval(text)
	if pan != "" || err != nil {
		c.Count("unparsed")
		c.Note("unparsed", clip(text, 80))
		return
	}
	o := evaluate(ev, datum)
	op := c09OpOf(text)
	c.Count("cell:" + op + "/" + dname)
	c.Count("outcome:" + o.Class())
	switch o.Class() {
	case "P":
		c.Violation(fmt.Sprintf("C09 panic op=%s datum=%s site=%s", op, dname, o.Site), "Evaluate panicked", map[string]any{"expression": text, "datum": dname, "datum_type": fmt.Sprintf("%T", datum), "panic": o.Panic})
	case "E!":
		c.Violation(fmt.Sprintf("C09 error-with-true op=%s datum=%s", op, dname), "Evaluate returned a non-nil error together with true", map[string]any{"expression": text, "datum": dname, "observed": o.String()})
	}
	c.Distinct(op + "|" + dname + "|" + text)
}

func c09OpOf(text string) string {
	switch {
	case strings.HasPrefix(text, "any ") || strings.HasPrefix(text, "all "):
		return "quantifier"
	case strings.HasPrefix(text, "not "):
		return "not"
	case strings.Contains(text, " and ") || strings.Contains(text, " or "):
		return "connective"
	case strings.Contains(text, " is not empty"):
		return "is not empty"
	case strings.Contains(text, " is empty"):
		return "is empty"
	case strings.Contains(text, " not matches "):
		return "not matches"
	case strings.Contains(text, " matches "):
		return "matches"
	case strings.Contains(text, " not in "):
		return "not in"
	case strings.Contains(text, " in ") || strings.Contains(text, " contains "):
		return "in"
	case strings.Contains(text, " != "):
		return "!="
	}
	return "=="
}

var c09ZooCache []zooEntry
var c09ExprCache []string

func c09Run(c *mon.Ctx, idx int) {
	if c09ZooCache == nil {
		c09ZooCache, c09ExprCache = c09Zoo(), c09Exprs()
	}
	nz := len(c09ZooCache)
	if idx < nz {
		z := c09ZooCache[idx]
		c.Risk("zoo " + z.Name)
		// depth 1: {v: z}; inside a struct field; inside a []interface{}; the datum itself
		holders := []struct {
			name  string
			datum interface{}
		}{
			{"map", map[string]interface{}{"v": z.Val}},
			{"struct", struct {
				V interface{} `bexpr:"v"`
			}{z.Val}},
			{"ptr-map", &map[string]interface{}{"v": z.Val}},
			{"in-list", map[string]interface{}{"v": []interface{}{z.Val, z.Val}}},
			{"in-map", map[string]interface{}{"v": map[string]interface{}{"abc": z.Val, "0": z.Val}}},
		}
		for _, h := range holders {
			for _, e := range c09ExprCache {
				c09Check(c, e, h.datum, z.Name+"@"+h.name)
			}
		}
		// typed holders built by reflection: map[string]T, []T, struct{V T}
		if z.Val != nil {
			rt := reflect.TypeOf(z.Val)
			m := reflect.MakeMap(reflect.MapOf(reflect.TypeOf(""), rt))
			m.SetMapIndex(reflect.ValueOf("v"), reflect.ValueOf(z.Val))
			s := reflect.MakeSlice(reflect.SliceOf(rt), 2, 2)
			s.Index(0).Set(reflect.ValueOf(z.Val))
			for _, e := range c09ExprCache {
				c09Check(c, e, m.Interface(), z.Name+"@typed-map")
				c09Check(c, e, map[string]interface{}{"v": s.Interface()}, z.Name+"@typed-slice")
			}
		}
		// the value as the datum itself
		for _, e := range c09ExprCache {
			c09Check(c, strings.Replace(strings.Replace(e, "v.", "", 1), "v ", "abc ", 1), z.Val, z.Name+"@root")
		}
		c.Count("zoo_entries")
		c.Sample(map[string]any{"zoo_entry": z.Name, "go_type": fmt.Sprintf("%T", z.Val), "expressions_each": len(c09ExprCache), "holders": "map, struct, *map, []interface{}, nested map, map[string]T, []T, root"})
		return
	}
	if idx < nz+c09NStress {
		c09Stress(c, idx-nz)
		return
	}
	// random part: the C01 workload (including the reference's unspecified
	// cases) under the totality oracle only
	r := c.RNG(idx)
	doc := univ.GenObj(r, 3, true)
	node := univ.Represent(rand.New(rand.NewSource(r.Int63())), doc, univ.Policy{Mode: idx % 5, Hidden: true, HiddenSeed: 7})
	opt := genOptions(r)
	g := newEgen(r, node, opt)
	g.pBroken = 0.35
	for k := 0; k < 4; k++ {
		e := g.expr(1+r.Intn(4), 0)
		ec := &evalCase{Expr: e, Text: (&xgen.Renderer{R: r}).Render(e), Datum: node, Opt: opt}
		c.Evals(1)
		o, ok, _ := ec.run()
		if !ok {
			c.Count("unparsed")
			continue
		}
		c.Count("outcome:" + o.Class())
		c.Count("random_evaluations")
		switch o.Class() {
		case "P":
			c.Violation("C09 panic random site="+o.Site, "Evaluate panicked", map[string]any{"expression": clip(ec.Text, 400), "datum": clip(node.Describe(), 1200), "options": describeOpt(opt), "panic": o.Panic})
		case "E!":
			small := ec
			c.Violation("C09 error-with-true random top="+kindName(small.Expr), "Evaluate returned a non-nil error together with true", map[string]any{"expression": clip(ec.Text, 400), "datum": clip(node.Describe(), 1200), "options": describeOpt(opt), "observed": o.String()})
		}
		if a := refsem.Eval(e, node, opt); a.Unspec != "" {
			c.Count("random_unspecified_covered")
		}
	}
}

const c09NStress = 13

type C09Base struct{ A int }
type c09Embedded struct {
	C09Base
	*c09Struct
	X int
}

// c09Stress: large and deep data, long paths, deep quantifier nesting, and
// embedded structs; outcomes known by construction are asserted as well.
func c09Stress(c *mon.Ctx, k int) {
	big := tierN(c.Tier, 20000, 300000)
	expect := func(text string, datum interface{}, want string, label string) {
		c.Evals(1)
		c.Risk("stress " + label)
		ev, err, pan, _ := createEval(text, bexprBudget())
		if pan != "" || err != nil {
			c.Violation("C09 stress create-failed "+label, "a stress expression was rejected", map[string]any{"expression": clip(text, 200), "error": fmt.Sprint(err) + pan})
			return
		}
		o := evaluate(ev, datum)
		switch {
		case o.Class() == "P":
			c.Violation("C09 panic stress "+label+" site="+o.Site, "Evaluate panicked on a large / deep datum", map[string]any{"expression": clip(text, 200), "panic": o.Panic})
		case o.Class() == "E!":
			c.Violation("C09 error-with-true stress "+label, "error returned together with true", map[string]any{"expression": clip(text, 200)})
		case want != "" && o.Class3() != want:
			c.Violation(fmt.Sprintf("C09 stress-outcome %s got=%s want=%s", label, o.Class3(), want), "outcome on a large / deep datum differs from what the construction implies", map[string]any{"expression": clip(text, 200), "observed": o.String()})
		}
		c.Count("stress:" + label)
	}
	switch k {
	case 0: // large typed list
		l := make([]int, big)
		for i := range l {
			l[i] = i
		}
		d := map[string]interface{}{"l": l}
		expect(fmt.Sprintf("%d in l", big-1), d, "T", "big-list")
		expect("-1 in l", d, "F", "big-list")
		expect("any l as x { x == -1 }", d, "F", "big-list")
		expect(fmt.Sprintf("all l as i, x { x != %d }", big-1), d, "F", "big-list")
		expect(fmt.Sprintf("l.%d == %d", big-1, big-1), d, "T", "big-list")
		expect(fmt.Sprintf("l.%d == 1", big), d, "E", "big-list")
	case 1: // large interface list with a nil and a string at the end
		l := make([]interface{}, big)
		for i := range l {
			l[i] = float64(i)
		}
		l[big/2] = nil
		l[big-1] = "last"
		d := map[string]interface{}{"l": l}
		expect("last in l", d, "T", "big-iface-list")
		expect("nothere in l", d, "F", "big-iface-list")
		expect("any l as x { x == `last` }", d, "E", "big-iface-list") // floats cannot be read from "last"
	case 2: // large map
		m := make(map[string]interface{}, big/4)
		for i := 0; i < big/4; i++ {
			m[fmt.Sprintf("k%07d", i)] = i
		}
		d := map[string]interface{}{"m": m}
		expect("k0000001 in m", d, "T", "big-map")
		expect("any m as k, v { v == -1 }", d, "F", "big-map")
		expect(fmt.Sprintf("all m as k, v { v != %d }", big/4-1), d, "F", "big-map")
		expect("m.nokey == 1", d, "F", "big-map")
		expect("m is not empty", d, "T", "big-map")
	case 3: // long string
		s := strings.Repeat("a", 5*big) + "z"
		d := map[string]interface{}{"s": s}
		expect("s matches `^a+z$`", d, "T", "long-string")
		expect("s contains `az`", d, "T", "long-string")
		expect("zz in s", d, "F", "long-string")
		expect("s == `a`", d, "F", "long-string")
	case 4: // deep nesting of maps, long dotted and pointer paths
		depth := tierN(c.Tier, 300, 3000)
		var cur interface{} = "leaf"
		for i := 0; i < depth; i++ {
			cur = map[string]interface{}{"n": cur}
		}
		path := strings.Repeat("n.", depth-1) + "n"
		expect(path+" == leaf", cur, "T", "deep-maps")
		expect("\"/"+strings.ReplaceAll(path, ".", "/")+"\" == leaf", cur, "T", "deep-maps")
		expect(path+".n == leaf", cur, "E", "deep-maps")
		expect(path+".zz is empty", cur, "E", "deep-maps")
	case 5: // deep nesting of lists and pointers
		depth := tierN(c.Tier, 300, 3000)
		var cur interface{} = 7
		for i := 0; i < depth; i++ {
			if i%2 == 0 {
				cur = []interface{}{cur}
			} else {
				x := cur
				cur = &x
			}
		}
		expect("l"+strings.Repeat(".0", depth/2)+" == 7", map[string]interface{}{"l": cur}, "", "deep-lists-and-pointers")
	case 6: // nested quantifiers, depth 6
		var cur interface{} = []interface{}{1, 2, 3}
		for i := 0; i < 5; i++ {
			cur = []interface{}{cur, cur}
		}
		d := map[string]interface{}{"l": cur}
		expect("any l as a { any a as b { any b as c { any c as d { any d as e { any e as f { f == 3 } } } } } }", d, "T", "nested-quantifiers")
		expect("all l as a { all a as b { all b as c { all c as d { all d as e { all e as f { f != 4 } } } } } }", d, "T", "nested-quantifiers")
		expect("all l as a { all a as b { all b as c { all c as d { all d as e { any e as i, f { i == 3 and f == 1 } } } } } }", d, "F", "nested-quantifiers")
	case 7: // embedded structs: fields are not promoted
		d := map[string]interface{}{"v": c09Embedded{C09Base: C09Base{A: 1}, X: 2}, "p": &c09Embedded{C09Base: C09Base{A: 3}, c09Struct: &c09Struct{A: 4}}}
		expect("v.C09Base.A == 1", d, "T", "embedded")
		expect("v.X == 2", d, "T", "embedded")
		expect("v.A == 1", d, "E", "embedded")
		expect("p.C09Base.A == 3", d, "T", "embedded")
		expect("p.c09Struct.A == 4", d, "E", "embedded")
		expect("v is empty", d, "E", "embedded")
		expect("any v as k, x { x == 1 }", d, "E", "embedded")
	case 9: // threshold sizes: lists and maps of exactly n elements, paths of n parts
		for _, n := range []int{15, 16, 17, 31, 32, 33, 63, 64, 65, 127, 128, 129, 255, 256, 257, 1023, 1024, 1025} {
			l := make([]interface{}, n)
			tl := make([]int64, n)
			m := make(map[string]interface{}, n)
			for i := 0; i < n; i++ {
				l[i], tl[i] = i, int64(i)
				m[fmt.Sprintf("k%05d", i)] = i
			}
			d := map[string]interface{}{"l": l, "tl": tl, "m": m}
			lab := "threshold-sizes"
			expect(fmt.Sprintf("any l as i, x { i == %d and x == %d }", n-1, n-1), d, "T", lab)
			expect(fmt.Sprintf("all tl as i, x { x != %d }", n), d, "T", lab)
			expect(fmt.Sprintf("%d in l and %d in tl and %d not in l", n-1, n-1, n), d, "T", lab)
			expect(fmt.Sprintf("l.%d == %d and tl.%d == %d", n-1, n-1, n-1, n-1), d, "T", lab)
			expect(fmt.Sprintf("l.%d == 1", n), d, "E", lab)
			expect(fmt.Sprintf("any m as k, v { v == %d and k == k%05d }", n-1, n-1), d, "T", lab)
			expect(fmt.Sprintf("all m as k, v { v != %d }", n), d, "T", lab)
			expect(fmt.Sprintf("k%05d in m and k%05d not in m", n-1, n), d, "T", lab)
			expect("l is not empty and m is not empty", d, "T", lab)
		}
		for _, depth := range []int{15, 16, 17, 63, 64, 65, 255, 256, 257} {
			var cur interface{} = 7
			for i := 0; i < depth; i++ {
				cur = map[string]interface{}{"p": cur}
			}
			path := strings.Repeat("p.", depth-1) + "p"
			expect(path+" == 7", cur, "T", "threshold-path-lengths")
			expect("\"/"+strings.ReplaceAll(path, ".", "/")+"\" != 7", cur, "F", "threshold-path-lengths")
			expect(path+".p == 7", cur, "E", "threshold-path-lengths")
		}
		// the same lengths reached THROUGH value aliases: a quantifier over a
		// collection at the end of a path of `depth` parts, the body selecting
		// below the alias; and quantifiers nested `depth` deep (two parts per level)
		for _, depth := range []int{7, 8, 9, 15, 16, 17, 29, 30, 31, 32, 33, 40, 63, 64, 65, 100, 255, 256, 257} {
			var cur interface{} = []interface{}{map[string]interface{}{"leaf": 7, "sub": map[string]interface{}{"leaf": 7}}}
			for i := 0; i < depth; i++ {
				cur = map[string]interface{}{"p": cur}
			}
			path := strings.Repeat("p.", depth-1) + "p"
			expect("any "+path+" as item { item.leaf == 7 }", cur, "T", "threshold-aliased-path-lengths")
			expect("all "+path+" as i, item { item.sub.leaf == 7 and i == 0 }", cur, "T", "threshold-aliased-path-lengths")
			expect("any "+path+" as item { item.nope.leaf == 7 }", cur, "E", "threshold-aliased-path-lengths")
			expect("any \"/"+strings.ReplaceAll(path, ".", "/")+"\" as item { \"/item/leaf\" == 7 }", cur, "T", "threshold-aliased-path-lengths")
		}
		for _, depth := range []int{8, 9, 15, 16, 17, 18, 31, 32, 33, 40} {
			var cur interface{} = 7
			for i := 0; i < depth; i++ {
				cur = []interface{}{map[string]interface{}{"c": cur}}
			}
			var sb strings.Builder
			prev := "root"
			for i := 0; i < depth; i++ {
				fmt.Fprintf(&sb, "any %s as v%d { ", map[bool]string{true: "root", false: prev + ".c"}[i == 0], i)
				prev = fmt.Sprintf("v%d", i)
			}
			sb.WriteString(prev + ".c == 7" + strings.Repeat(" }", depth))
			expect(sb.String(), map[string]interface{}{"root": cur}, "T", "threshold-aliased-path-lengths")
		}
	case 10: // long strings at buffer-like sizes as keys, literals and values
		for _, n := range []int{63, 64, 65, 127, 128, 129, 255, 256, 257, 4095, 4096, 4097, 65535, 65536, 65537} {
			key := strings.Repeat("k", n)
			val := strings.Repeat("v", n)
			d := map[string]interface{}{"m": map[string]interface{}{key: val}, "s": val}
			expect("m."+key+" == "+val, d, "T", "threshold-string-lengths")
			expect("m[\""+key+"\"] == \""+val+"\"", d, "T", "threshold-string-lengths")
			expect("s == \""+val+"x\"", d, "F", "threshold-string-lengths")
			expect(key+" in m", d, "T", "threshold-string-lengths")
			expect("s matches \"^v{"+fmt.Sprint(min(n, 1000))+"}\"", d, "T", "threshold-string-lengths")
			expect("any m as k, v { k == "+key+" and v == "+val+" }", d, "T", "threshold-string-lengths")
		}
	case 12:
		c09HookUnknown(c)
		c.Count("stress:hook-unknown")
	case 11: // more distinct Go types in one process than any per-type table holds (4096+)
		nt := tierN(c.Tier, 4200, 20000)
		run := func(text string, label string, mk func(i int) (interface{}, string)) {
			c.Risk("stress many-types " + label)
			ev, err, pan, _ := createEval(text)
			if pan != "" || err != nil {
				c.Violation("C09 stress create-failed many-types", "a stress expression was rejected", map[string]any{"expression": text, "error": fmt.Sprint(err) + pan})
				return
			}
			for i := 0; i < nt; i++ {
				d, want := mk(i)
				o := evaluate(ev, d)
				c.Evals(1)
				switch {
				case o.Class() == "P":
					c.Violation("C09 panic stress many-types "+label+" site="+o.Site, "Evaluate panicked after the process had seen many distinct Go types", map[string]any{"expression": text, "types_seen": i + 1, "go_type": fmt.Sprintf("%T", d), "panic": o.Panic})
					return
				case o.Class() == "E!":
					c.Violation("C09 error-with-true stress many-types", "error returned together with true", map[string]any{"expression": text})
					return
				case o.Class3() != want:
					c.Violation(fmt.Sprintf("C09 stress-outcome many-types %s got=%s want=%s", label, o.Class3(), want), "outcome differs from what the construction implies after many distinct Go types", map[string]any{"expression": text, "types_seen": i + 1, "go_type": fmt.Sprintf("%T", d), "observed": o.String()})
					return
				}
			}
		}
		arr := func(i int) reflect.Value {
			v := reflect.New(reflect.ArrayOf(i+1, reflect.TypeOf(0))).Elem()
			v.Index(0).SetInt(7)
			return v
		}
		run(`7 in l`, "array-types/in", func(i int) (interface{}, string) { return map[string]interface{}{"l": arr(i).Interface()}, "T" })
		run(`l contains 7`, "array-types/contains", func(i int) (interface{}, string) { return map[string]interface{}{"l": arr(i).Interface()}, "T" })
		run(`any l as x { x == 7 }`, "array-types/any", func(i int) (interface{}, string) { return map[string]interface{}{"l": arr(i).Interface()}, "T" })
		run(`l is empty`, "array-types/empty", func(i int) (interface{}, string) { return map[string]interface{}{"l": arr(i).Interface()}, "F" })
		st := func(i int) reflect.Value {
			t := reflect.StructOf([]reflect.StructField{{Name: "F", Type: reflect.TypeOf(0)}, {Name: fmt.Sprintf("X%d", i), Type: reflect.TypeOf("")}, {Name: "L", Type: reflect.SliceOf(reflect.ArrayOf(i%50, reflect.TypeOf(int8(0))))}})
			v := reflect.New(t).Elem()
			v.Field(0).SetInt(7)
			v.Field(1).SetString("s")
			return v
		}
		run(`F == 7 and L is empty`, "struct-types/root", func(i int) (interface{}, string) { return st(i).Interface(), "T" })
		run(`s.F != 7`, "struct-types/pointer", func(i int) (interface{}, string) { return map[string]interface{}{"s": st(i).Addr().Interface()}, "F" })
		run(`any l as e { e.F == 7 }`, "slice-of-struct-types", func(i int) (interface{}, string) {
			v := st(i)
			l := reflect.MakeSlice(reflect.SliceOf(v.Type()), 1, 1)
			l.Index(0).Set(v)
			return map[string]interface{}{"l": l.Interface()}, "T"
		})
		run(`k in m and m.k == 7`, "map-types", func(i int) (interface{}, string) {
			m := reflect.MakeMap(reflect.MapOf(reflect.TypeOf(""), reflect.TypeOf(0)))
			_ = m
			t := reflect.MapOf(reflect.TypeOf(""), st(i).Type())
			mm := reflect.MakeMap(t)
			mm.SetMapIndex(reflect.ValueOf("k"), st(i))
			return map[string]interface{}{"m": mm.Interface()}, "E"
		})
		c.Count("stress:many-distinct-types")
	case 8: // many operands (long flat chain under a budget) evaluated on data
		n := tierN(c.Tier, 12000, 60000)
		var sb strings.Builder
		for i := 0; i < n; i++ {
			if i > 0 {
				sb.WriteString(" and ")
			}
			fmt.Fprintf(&sb, "a != %d", i+10)
		}
		expect(sb.String(), map[string]interface{}{"a": 5}, "T", "long-chain")
		expect(sb.String()+" and zz == 1", map[string]interface{}{"a": 5}, "E", "long-chain")
		expect(strings.ReplaceAll(sb.String(), " and ", " or ")+" or a == 1", map[string]interface{}{"a": 5}, "T", "long-chain")
	}
}

// c09HookUnknown: a hook, an unknown value (nil, empty wrapper, scalars) and
// a selector that hits a missing key, three features at once.
func c09HookUnknown(c *mon.Ctx) {
	type wrap struct{ Wrapped interface{} }
	hooks := map[string]bexpr.ValueTransformationHookFn{
		"identity": func(v reflect.Value) reflect.Value { return v },
		"unwrap": func(v reflect.Value) reflect.Value {
			x := v
			for x.IsValid() && (x.Kind() == reflect.Interface || x.Kind() == reflect.Ptr) && !x.IsNil() {
				x = x.Elem()
			}
			if x.IsValid() && x.Kind() == reflect.Struct && x.NumField() == 1 && x.Type().Field(0).Name == "Wrapped" {
				f := x.Field(0)
				if f.Kind() == reflect.Interface && f.IsNil() {
					return reflect.ValueOf(nil) // an empty wrapper unwraps to "nothing"
				}
				return f
			}
			return v
		},
		"by-kind": func(v reflect.Value) reflect.Value {
			switch v.Kind() {
			case reflect.String:
				return reflect.ValueOf(strings.ToUpper(v.String()))
			}
			return v
		},
	}
	unknowns := []interface{}{nil, wrap{}, &wrap{}, wrap{Wrapped: "u"}, "u", 0, (*int)(nil), []interface{}{}, map[string]interface{}(nil)}
	data := []interface{}{map[string]interface{}{"m": map[string]interface{}{"k": 1}, "l": []interface{}{map[string]interface{}{"k": 1}}}, struct{ M map[string]int }{map[string]int{"k": 1}}}
	exprs := []string{`m.zz == 1`, `m.zz != 1`, `m.zz is empty`, `1 in m.zz`, `m.zz matches "u"`, `zz == U`, `m.zz.deeper == 1`, `any l as v { v.zz == 1 }`, `all m.zz as x { x == 1 }`, `M.zz == 1`, `m.k == 1 and m.zz != 2`}
	for hn, h := range hooks {
		for ui, u := range unknowns {
			for _, e := range exprs {
				ev, err, pan, _ := createEval(e, bexpr.WithHookFn(h), bexpr.WithUnknownValue(u))
				if pan != "" || err != nil {
					continue
				}
				for _, d := range data {
					o := evaluate(ev, d)
					c.Evals(1)
					if o.Class() == "P" || o.Class() == "E!" {
						c.Violation("C09 panic hook+unknown hook="+hn+" site="+o.Site, "Evaluate panicked (or returned true with an error) with a hook, an unknown value and a missing key", map[string]any{"expression": e, "hook": hn, "unknown_value_index": ui, "unknown_value": fmt.Sprintf("%#v", u), "observed": o.String()})
						return
					}
				}
			}
		}
	}
	c.Count("hook_and_unknown_value_scenarios")
}

func bexprBudget() bexpr.Option { return bexpr.WithMaxExpressions(1 << 28) }

func init() {
	mon.Register(&mon.Prop{
		ID: "C09", Level: "exploration",
		Rule:        "exhaustive matrix: a zoo with a value of every reflect.Kind (Invalid/nil included) and the odd shapes (nil/odd elements in containers, non-string and named-string keyed maps, NaN keys, multi-level / nil / self-referential pointers, cyclic map/slice/struct, hostile json.Number) x 8 holders (map, tagged struct, *map, []interface{}, nested map, map[string]T, []T, the datum itself) x ~270 expressions (8 operators x 13 literal classes x path shapes, not/and/or, quantifiers in every binding mode); 11 stress cases (incl. lists / maps of exactly 15..1025 elements, paths of 15..257 parts, keys / values of 63..65537 bytes) (2*10^4 | 3*10^5-element lists and maps, 10^5 | 1.5*10^6-byte strings, 300 | 3000-level nesting with paths of that length, 6-fold nested quantifiers over 96 leaves, embedded structs, 12000 | 60000-operand chains) whose outcomes are known by construction; then the seeded C01 workload incl. the reference's unspecified cases. oracle: recover() sees no panic, the process does not die, err != nil implies result == false. non-trivial = the expression parsed and was evaluated; distinct by (operator, zoo entry@holder, expression)",
		Assumptions: []string{"recursive pointer TYPES (type T *T; p = &p) are excluded: pointerstructure's own dereference loop never ends on them, which could only ever be inconclusive here"},
		NumCases:    func(tier string) int { return len(c09Zoo()) + c09NStress + tierN(tier, 15000, 400000) },
		Run:         c09Run,
		Chunk: func(tier string, n int) int {
			if tier == "thorough" {
				return 4000
			}
			return 300
		},
		Required: func(tier string) []string {
			l := []string{"zoo_entries", "stress:big-list", "stress:big-iface-list", "stress:big-map", "stress:long-string", "stress:deep-maps", "stress:deep-lists-and-pointers", "stress:nested-quantifiers", "stress:embedded", "stress:long-chain", "stress:threshold-sizes", "stress:threshold-path-lengths", "stress:threshold-aliased-path-lengths", "stress:threshold-string-lengths", "stress:many-distinct-types", "stress:hook-unknown", "random_evaluations", "outcome:T", "outcome:F", "outcome:E", "random_unspecified_covered"}
			for _, op := range append(append([]string{}, c01Ops...), "not", "quantifier", "connective") {
				for _, z := range []string{"nil", "int", "chan", "func", "complex128", "struct", "slice-iface-mixed", "slice-ptr-nil", "slice-ptrptr", "map-int-key", "map-named-key", "nilptr", "cyclic-map", "unsafe.Pointer"} {
					l = append(l, "cell:"+op+"/"+z+"@map")
				}
			}
			return l
		},
		Exhaustive: func(string) bool { return false },
	})
}
