package props

import (
	"fmt"
	"math/rand"
	"os"
	"strings"
	"unicode/utf8"

	"github.com/hashicorp/go-bexpr/grammar"

	"verif/internal/mon"
	"verif/internal/refparse"
	"verif/internal/xgen"
)

// C15 - the parser accepts exactly the language and builds the prescribed tree.

var c15Full = []string{"a", "b.c", "not", "and", "or", "in", "is", "empty", "contains", "matches", "any", "all", "as", "_",
	"0", "1", "-1", "1.5", "01", `"s"`, "`s`", `"/p"`, `""`, `"\q"`, "\"a\nb\"", "`a\rb`", "\"\ufffd\"", "\"/v½\"", "(", ")", "{", "}", "[", "]", ".", ",", "==", "!="}
var c15Mid = []string{"a", "b.c", "not", "and", "or", "in", "is", "empty", "contains", "any", "as", "_", "1", `"s"`, `"/p"`, "(", ")", "{", "}", "=="}
var c15Small = []string{"a", "not", "and", "or", "in", "is", "empty", "any", "as", "1", `"s"`, "(", ")", "{", "}", "=="}

const c15Budget = 1 << 16

type c15Plan struct {
	segs []c15Seg
	nSeq int
	nRnd int
}

type c15Seg struct {
	alpha []string
	k     int
	start int
	n     int
}

func ipow(b, e int) int {
	r := 1
	for i := 0; i < e; i++ {
		r *= b
	}
	return r
}

func c15PlanFor(tier string) *c15Plan {
	p := &c15Plan{}
	add := func(alpha []string, k int) {
		n := ipow(len(alpha), k)
		p.segs = append(p.segs, c15Seg{alpha, k, p.nSeq, n})
		p.nSeq += n
	}
	if tier == "thorough" {
		for k := 1; k <= 4; k++ {
			add(c15Full, k)
		}
		add(c15Small, 5)
		p.nRnd = 1000000
	} else {
		for k := 1; k <= 3; k++ {
			add(c15Full, k)
		}
		add(c15Small, 4)
		p.nRnd = 30000
	}
	return p
}

var c15Plans = map[string]*c15Plan{}

func c15GetPlan(tier string) *c15Plan {
	if p, ok := c15Plans[tier]; ok {
		return p
	}
	p := c15PlanFor(tier)
	c15Plans[tier] = p
	return p
}

// c15Compare runs both parsers on s and reports disagreement.
func c15Compare(c *mon.Ctx, s string, origin string) {
	c.Evals(1)
	ref := refparse.Parse([]byte(s))
	for a := range ref.Alts {
		c.Count("alt:" + a)
	}
	obs := observeParse(s, c15Budget)
	if obs.Budgeted {
		c.Count("budget_exhausted")
		return
	}
	detail := func() map[string]any {
		return map[string]any{"input": clip(s, 400), "origin": origin, "ref_accept": ref.Accept, "ref_errors": ref.Errors,
			"real_err": fmt.Sprint(obs.Err), "real_panic": obs.Panic}
	}
	if obs.Panic != "" {
		c.Violation("C15 parser-panic site="+obs.Site, "grammar.Parse panicked", detail())
		return
	}
	realAccept := obs.Err == nil
	if realAccept {
		c.Count("accepted")
	} else {
		c.Count("rejected")
	}
	if realAccept != ref.Accept {
		cls := "real-accepts-ref-rejects"
		if ref.Accept {
			cls = "real-rejects-ref-accepts"
		}
		c.Violation("C15 "+cls+" shape="+c15Shape(s), "parser and reference recogniser disagree on acceptance", detail())
		return
	}
	if len(ref.Errors) > 0 || realAccept {
		c.Distinct(s)
	}
	// the other entry points read the same language
	if h := mon.Hash64(s); h%96 == 0 {
		if which, diff := entryPoints(s, os.Getenv("VERIF_WORK"), h%(96*8) == 0); which != "" {
			d := detail()
			d["entry_point"], d["difference"] = which, diff
			c.Violation("C15 entry-point-differs "+strings.Fields(strings.ReplaceAll(which, "(", " "))[0], "another entry point of the parser does not give what grammar.Parse gives for the same bytes", d)
			return
		}
		c.Count("entry_points_compared")
	}
	if !realAccept {
		// CreateEvaluator accepts precisely the same strings
		if ev, cerr, pan, _ := createEval(s); pan != "" || cerr == nil || ev != nil {
			d := detail()
			d["create_err"], d["create_panic"] = fmt.Sprint(cerr), pan
			c.Violation("C15 createevaluator-accepts-what-parse-rejects", "CreateEvaluator and grammar.Parse disagree", d)
		}
		return
	}
	tree, err := treeOf(obs.Val)
	if err != nil {
		d := detail()
		d["tree_error"] = err.Error()
		c.Violation("C15 malformed-tree: "+err.Error(), "accepted input produced a malformed tree", d)
		return
	}
	got, want := xgen.Canon(tree), xgen.Canon(ref.Tree)
	if got != want {
		d := detail()
		d["tree_real"], d["tree_ref"] = clip(got, 600), clip(want, 600)
		c.Violation("C15 tree-mismatch "+xgen.Diff(tree, ref.Tree), "parser built a different tree than the grammar prescribes", d)
	}
	c.Count("trees_compared")
	if len(s)%5 == 0 {
		c15BufferIndependence(c, s)
	}
	// CreateEvaluator accepts the same strings
	ev, cerr, pan, _ := createEval(s)
	if pan != "" || (cerr == nil) != realAccept || (cerr == nil && ev == nil) {
		d := detail()
		d["create_err"], d["create_panic"] = fmt.Sprint(cerr), pan
		c.Violation("C15 createevaluator-disagrees-with-parse", "CreateEvaluator and grammar.Parse disagree", d)
	}
}

// c15Shape abstracts an input to its token classes (for signatures).
func c15Shape(s string) string {
	toks := c15Tokenize(s)
	var sb strings.Builder
	for i, t := range toks {
		if i > 10 {
			sb.WriteString("…")
			break
		}
		switch {
		case strings.TrimSpace(t) == "":
			sb.WriteString("_")
		case xgen.Keywords[t]:
			sb.WriteString(t)
		case xgen.IsIdent(t):
			sb.WriteString("I")
		case xgen.IsNumber(t) || xgen.IsDigits(t):
			sb.WriteString("N")
		case t[0] == '"' || t[0] == '`':
			sb.WriteString("S")
		default:
			sb.WriteString(t)
		}
	}
	return sb.String()
}

// c15Tokenize splits text into coarse tokens (whitespace runs kept).
func c15Tokenize(s string) []string {
	var toks []string
	for i := 0; i < len(s); {
		c := s[i]
		j := i + 1
		switch {
		case c == ' ' || c == '\t' || c == '\r' || c == '\n':
			for j < len(s) && strings.IndexByte(" \t\r\n", s[j]) >= 0 {
				j++
			}
		case (c >= 'a' && c <= 'z') || (c >= 'A' && c <= 'Z'):
			for j < len(s) && (s[j] == '_' || s[j] == '/' || (s[j] >= 'a' && s[j] <= 'z') || (s[j] >= 'A' && s[j] <= 'Z') || (s[j] >= '0' && s[j] <= '9')) {
				j++
			}
		case c >= '0' && c <= '9':
			for j < len(s) && ((s[j] >= '0' && s[j] <= '9') || s[j] == '.') {
				j++
			}
		case c == '"' || c == '`':
			for j < len(s) && s[j] != c {
				j++
			}
			if j < len(s) {
				j++
			}
		case c == '=' || c == '!':
			if j < len(s) && s[j] == '=' {
				j++
			}
		case c >= utf8.RuneSelf:
			_, n := utf8.DecodeRuneInString(s[i:])
			j = i + n
		}
		toks = append(toks, s[i:j])
		i = j
	}
	return toks
}

var c15Inserts = []string{"(", ")", "{", "}", "[", "]", ".", ",", "not", "and", "or", "in", "is", "empty", "any", "as", "_", "==", "!=", "1", "01", "-", `"`, "`", " ", "x", `"/p"`, `"\z"`, "contains", "matches", "\xff", "é", "1.", "0x1", "\v", "\f", "\u00a0", "\u2028", "\u0085", "\ufffd", "[\"a.b\"]", "[`x y`]", ".18446744073709551615", ".99999999999999999999", ".9223372036854775808", ".00000000000000000000001", "18446744073709551616"}

func c15Mutate(r *rand.Rand, s string) string {
	toks := c15Tokenize(s)
	nm := 1 + r.Intn(2)
	for m := 0; m < nm && len(toks) > 0; m++ {
		i := r.Intn(len(toks))
		switch r.Intn(9) {
		case 0: // delete
			toks = append(toks[:i:i], toks[i+1:]...)
		case 1: // insert
			ins := c15Inserts[r.Intn(len(c15Inserts))]
			toks = append(toks[:i:i], append([]string{ins}, toks[i:]...)...)
		case 2: // swap
			j := r.Intn(len(toks))
			toks[i], toks[j] = toks[j], toks[i]
		case 3: // duplicate
			toks = append(toks[:i+1:i+1], toks[i:]...)
		case 4: // replace
			toks[i] = c15Inserts[r.Intn(len(c15Inserts))]
		case 7: // rename an identifier to a keyword
			var ids []int
			for j, t := range toks {
				if xgen.IsIdent(t) && !xgen.Keywords[t] {
					ids = append(ids, j)
				}
			}
			if len(ids) > 0 {
				kws := []string{"in", "not", "and", "or", "is", "empty", "contains", "matches", "any", "all", "as"}
				toks[ids[r.Intn(len(ids))]] = kws[r.Intn(len(kws))]
			}
		case 8: // an identifier becomes the blank name
			var ids []int
			for j, t := range toks {
				if xgen.IsIdent(t) && !xgen.Keywords[t] {
					ids = append(ids, j)
				}
			}
			if len(ids) > 0 {
				toks[ids[r.Intn(len(ids))]] = "_"
			}
		case 6: // raw control character inside a token
			t := toks[i]
			k := r.Intn(len(t) + 1)
			toks[i] = t[:k] + []string{"\n", "\r", "\t", "\x00"}[r.Intn(4)] + t[k:]
		case 5: // truncate / cut inside a token
			t := toks[i]
			if len(t) > 1 {
				toks[i] = t[:1+r.Intn(len(t)-1)]
			} else {
				toks = toks[:i]
			}
		}
	}
	out := strings.Join(toks, "")
	if r.Intn(12) == 0 {
		pad := []string{"\v", "\f", "\u00a0", "\u2028", "\u0085", "\u3000", "\x00", "\ufeff", "\ufeff\ufeff"}[r.Intn(9)]
		if r.Intn(2) == 0 {
			out = pad + out
		} else {
			out += pad
		}
	}
	return out
}

// c15Disturb makes calls that carry exported parser options (several of the
// same kind, an alternate entry point, ...). They must not influence any
// later call; the comparisons that follow in the same process would show it.
func c15Disturb(c *mon.Ctx, idx int) {
	in := []byte(`foo == "a\xffb" and (x.y in z or "bar" == 1)`)
	calls := [][]grammar.Option{
		{grammar.Entrypoint("Value")},
		{grammar.AllowInvalidUTF8(true), grammar.MaxExpressions(5000), grammar.AllowInvalidUTF8(false), grammar.MaxExpressions(0)},
		{grammar.Entrypoint("Selector"), grammar.Entrypoint("")},
		{grammar.Recover(false), grammar.Recover(true), grammar.GlobalStore("k", 1)},
		{grammar.MaxExpressions(3)},
		{grammar.AllowInvalidUTF8(true)},
	}
	opts := calls[(idx/97)%len(calls)]
	mon.Try(func() { grammar.Parse("", in, opts...) })
	mon.Try(func() { grammar.ParseReader("", strings.NewReader("a == 1"), opts...) })
	c.Count("option_bearing_calls_interleaved")
}

// c15BufferIndependence: the tree must not alias the caller's input buffer.
func c15BufferIndependence(c *mon.Ctx, s string) {
	buf := []byte(s)
	var val interface{}
	var err error
	if t := mon.Try(func() { val, err = grammar.Parse("", buf) }); t.Panic || err != nil {
		return
	}
	tree, terr := treeOf(val)
	if terr != nil {
		return
	}
	before := xgen.Canon(tree)
	for i := range buf {
		buf[i] = 'x'
	}
	tree2, _ := treeOf(val)
	if after := xgen.Canon(tree2); after != before {
		c.Violation("C15 tree-aliases-input-buffer", "the syntax tree changed when the caller overwrote the input buffer after Parse returned", map[string]any{"input": clip(s, 200), "tree_before": clip(before, 300), "tree_after": clip(after, 300)})
	}
	c.Count("buffer_independence_checked")
}

// c15LongChain: a flat chain is in the language whatever its length - n
// operands joined by one connective (or n `not`s) derive from the rules for
// Or / And / Not by n applications, and the tree is the right-leaning chain of
// n leaves. Sizes beyond any plausible nesting / depth guard.
func c15LongChain(c *mon.Ctx, k int) {
	n := []int{100100, 100100, 131073, 70000, 300000, 270000}[k]
	var text string
	switch k {
	case 0:
		text = "a == 1" + strings.Repeat(" or b != 2", n-1)
	case 1, 4:
		text = strings.Repeat("not ", n) + "a == 1"
	case 5:
		text = "a == 1" + strings.Repeat(" or b != 2", n-1)
	case 2:
		text = "a == 1" + strings.Repeat(" and a == 1", n-1)
	default:
		text = "a == 1" + strings.Repeat(" or not b in c and d is empty", n-1)
	}
	c.Risk(fmt.Sprintf("unlimited-parse long flat chain %d (must survive)", k))
	val, err, pan, _ := parsePublic(text)
	c.Evals(1)
	if pan != "" || err != nil {
		c.Violation("C15 long-flat-chain-rejected", "a flat chain of operands (derivable from the grammar by repeating one rule) was rejected", map[string]any{"operands": n, "shape": clip(text, 60), "error": clip(fmt.Sprint(err)+pan, 300)})
		return
	}
	// walk the right spine without recursion
	leaves, node := 0, val
	for node != nil {
		switch x := node.(type) {
		case *grammar.BinaryExpression:
			leaves++
			node = x.Right
		case *grammar.UnaryExpression:
			leaves++
			node = x.Operand
		default:
			leaves++
			node = nil
		}
	}
	want := n
	if k == 1 || k == 4 {
		want = n%2 + 1 // `not not e` is `e`: the parser folds pairs
	}
	if (k == 0 || k == 2 || k == 5) && leaves != want || (k == 1 || k == 4) && leaves > 2 {
		c.Violation("C15 long-flat-chain-tree", "the tree of a long flat chain is not the right-leaning chain of its operands", map[string]any{"operands": n, "spine_length": leaves})
		return
	}
	if ev, cerr, cpan, _ := createEval(text); cpan != "" || cerr != nil || ev == nil {
		c.Violation("C15 long-flat-chain-rejected", "CreateEvaluator rejected a flat chain that grammar.Parse accepts", map[string]any{"operands": n, "error": clip(fmt.Sprint(cerr)+cpan, 300)})
		return
	}
	c.Count("long_flat_chains")
}

func c15NChains(tier string) int { return tierN(tier, 5, 6) } // the 270 000-operand or-chain only in the thorough tier

// c15Fixed: hand-picked whole expressions (the C10 corpus and hostile list,
// binding forms the grammar lists one by one) against the reference recogniser.
var c15FixedInputs = append(append([]string{
	`any xs as _, _ { xs is empty }`, `any xs as _ , _ { a == 1 }`, `all xs as _,_ { a == 1 }`, `any xs as _ { a == 1 }`, `any xs as _, v { v == 1 }`, `any xs as k, _ { k == 1 }`, `any xs as k, v { k == v }`, `any xs as k,v{k==v}`,
	`any xs as _x, _ { _x == 1 }`, `any xs as _, _y { _y == 1 }`, `any xs as __ { __ == 1 }`, `any xs as a, a { a == 1 }`, `any xs as _, _, _ { a == 1 }`, `any xs as , { a == 1 }`, `any xs as _ _ { a == 1 }`,
}, c10Corpus...), c10Hostile...)

func c15Fixed(c *mon.Ctx) {
	for _, s := range c15FixedInputs {
		c15Compare(c, s, "fixed-input")
	}
	for _, n := range []int{255, 256, 257, 1023, 1024, 1025, 1500, 4097} {
		c15Compare(c, "a"+strings.Repeat(".b", n-1)+" == 1", "long-selector")
		c15Compare(c, "a"+strings.Repeat(`["k"]`, n-1)+" is empty", "long-selector")
		c15Compare(c, `"`+strings.Repeat("/s", n)+`" in x`, "long-selector")
		c15Compare(c, "any a"+strings.Repeat(".1", n-1)+" as v { v == 1 }", "long-selector")
	}
	// an option list that names another entry point and then the default one
	// again parses the language; one that ends with another rule does not
	for _, s := range []string{`foo == 1`, `"abc"`, `12`, `foo.bar`, `foo == 1 )`, `a in b and c is empty`} {
		_, werr, _, _ := parsePublic(s)
		for _, opts := range [][]grammar.Option{{grammar.Entrypoint("Value"), grammar.Entrypoint("")}, {grammar.Entrypoint("Selector"), grammar.MaxExpressions(0), grammar.Entrypoint("")}, {grammar.Entrypoint(""), grammar.Entrypoint("")}} {
			_, gerr, gpan, _ := parsePublic(s, opts...)
			c.Evals(1)
			if gpan != "" || (gerr == nil) != (werr == nil) {
				c.Violation("C15 entry-point-differs Entrypoint-reset", "an option list that ends with Entrypoint(\"\") does not parse from the grammar's start rule", map[string]any{"input": s, "plain_error": fmt.Sprint(werr), "error_with_options": fmt.Sprint(gerr) + gpan})
				return
			}
		}
	}
	c.Count("fixed_inputs_compared")
}

func c15Run(c *mon.Ctx, idx int) {
	if idx%20011 == 0 {
		c15Fixed(c)
	}
	if plan := c15GetPlan(c.Tier); idx >= plan.nSeq+plan.nRnd {
		c15LongChain(c, idx-plan.nSeq-plan.nRnd)
		return
	}
	if idx%97 == 0 {
		c15Disturb(c, idx)
	}
	plan := c15GetPlan(c.Tier)
	if idx < plan.nSeq {
		for _, seg := range plan.segs {
			if idx >= seg.start && idx < seg.start+seg.n {
				x := idx - seg.start
				toks := make([]string, seg.k)
				for i := seg.k - 1; i >= 0; i-- {
					toks[i] = seg.alpha[x%len(seg.alpha)]
					x /= len(seg.alpha)
				}
				// every per-boundary choice of {no space, space}
				for mask := 0; mask < 1<<(seg.k-1); mask++ {
					var sb strings.Builder
					for i, t := range toks {
						if i > 0 && mask&(1<<(i-1)) != 0 {
							sb.WriteByte(' ')
						}
						sb.WriteString(t)
					}
					c15Compare(c, sb.String(), "token-sequence")
				}
				c.Count("token_sequences")
				if idx%50021 == 7 {
					c.Sample(map[string]any{"kind": "token-sequence", "tokens": toks})
				}
				return
			}
		}
	}
	r := c.RNG(idx)
	tree := xgen.RandTree(r, 1+r.Intn(4))
	rd := &xgen.Renderer{R: r, MaxRedundantParens: 2}
	s := rd.Render(tree)
	c15Compare(c, s, "derivation")
	c.Count("derivations")
	nm := 3
	for i := 0; i < nm; i++ {
		m := c15Mutate(r, s)
		c15Compare(c, m, "mutated-derivation")
		c.Count("mutants")
		if idx%4001 == 3 && i == 0 {
			c.Sample(map[string]any{"kind": "mutated-derivation", "derivation": clip(s, 200), "mutant": clip(m, 200)})
		}
	}
}

func init() {
	req := func(tier string) []string {
		l := []string{"accepted", "rejected", "option_bearing_calls_interleaved", "buffer_independence_checked", "trees_compared", "token_sequences", "derivations", "mutants", "long_flat_chains", "entry_points_compared", "fixed_inputs_compared"}
		for _, a := range refparse.AllAlts {
			l = append(l, "alt:"+a)
		}
		return l
	}
	mon.Register(&mon.Prop{
		ID: "C15", Level: "exploration",
		Rule: "inputs: every sequence of up to k tokens of the token alphabet under every per-boundary {no space, space} choice (exhaustive; k and alphabet per tier are in coverage.token_spaces), plus seeded random derivations of the language rendered with random layout and 3 token-level mutants each; both go through grammar.Parse (and CreateEvaluator) and through the independent reference recogniser; non-trivial = accepted, or rejected through an explicit error production / action error; distinct by input text",
		Assumptions: []string{
			"the reference recogniser (internal/refparse) is a faithful reading of grammar.peg as an ordered-choice PEG; it was written by hand from the grammar and shares no code with the generated parser",
			"inputs whose parse exceeds 2^16 parser steps are skipped and counted (budget_exhausted)",
		},
		NumCases: func(tier string) int { p := c15GetPlan(tier); return p.nSeq + p.nRnd + c15NChains(tier) },
		Run:      c15Run,
		Heavy:    func(tier string, idx int) bool { p := c15GetPlan(tier); return idx >= p.nSeq+p.nRnd },
		Required: req,
		Post: func(a *mon.Agg) {
			p := c15GetPlan(a.Tier)
			var spaces []map[string]any
			for _, s := range p.segs {
				spaces = append(spaces, map[string]any{"k": s.k, "alphabet_size": len(s.alpha), "sequences": s.n, "alphabet": s.alpha})
			}
			a.Extra["token_spaces"] = spaces
			a.Extra["exhaustive_part"] = "token sequences listed in token_spaces are enumerated completely; random derivations are sampled"
		},
	})
}
