package props

import (
	"bytes"
	"fmt"
	"io"
	"math/rand"
	"runtime"
	"strconv"
	"strings"
	"sync"
	"unicode/utf8"

	"github.com/hashicorp/go-bexpr/grammar"

	"verif/internal/mon"
	"verif/internal/refparse"
	"verif/internal/xgen"
)

// C16 - print-then-parse round trip; C19 - ExpressionDump.

func kindName(e xgen.Expr) string {
	switch e.(type) {
	case *xgen.Or:
		return "Or"
	case *xgen.And:
		return "And"
	case *xgen.Not:
		return "Not"
	case *xgen.Quant:
		return "Quant"
	}
	return "Match"
}

var c16Kinds = []string{"Or", "And", "Not", "Quant", "Match"}
var c16Slots = []string{"Or.L", "Or.R", "And.L", "And.R", "Not.X", "Quant.Body"}

func c16Configs(e xgen.Expr, f func(string)) {
	switch n := e.(type) {
	case *xgen.Or:
		f("pc:Or.L=" + kindName(n.L))
		f("pc:Or.R=" + kindName(n.R))
		c16Configs(n.L, f)
		c16Configs(n.R, f)
	case *xgen.And:
		f("pc:And.L=" + kindName(n.L))
		f("pc:And.R=" + kindName(n.R))
		c16Configs(n.L, f)
		c16Configs(n.R, f)
	case *xgen.Not:
		f("pc:Not.X=" + kindName(n.X))
		c16Configs(n.X, f)
	case *xgen.Quant:
		f("pc:Quant.Body=" + kindName(n.Body))
		c16Configs(n.Body, f)
	}
}

func litClass(s string) string {
	var cl []string
	if s == "" {
		cl = append(cl, "empty")
	}
	if strings.HasPrefix(s, "/") {
		cl = append(cl, "leading-slash")
	}
	if strings.ContainsAny(s, "\"") {
		cl = append(cl, "dquote")
	}
	if strings.ContainsAny(s, "`") {
		cl = append(cl, "backtick")
	}
	if strings.ContainsAny(s, "\\") {
		cl = append(cl, "backslash")
	}
	for _, r := range s {
		if r < 0x20 || r == 0x7f {
			cl = append(cl, "control")
			break
		}
	}
	for i := 0; i < len(s); i++ {
		if s[i] >= 0x80 {
			cl = append(cl, "non-ascii")
			break
		}
	}
	if xgen.IsNumber(s) {
		cl = append(cl, "number-like")
	}
	if xgen.IsBareLit(s) {
		cl = append(cl, "selector-like")
	}
	if xgen.Keywords[s] {
		cl = append(cl, "keyword")
	}
	if len(cl) == 0 {
		return "plain"
	}
	return strings.Join(cl, "+")
}

var styleNames = map[int]string{xgen.StyleBare: "bare", xgen.StyleNumber: "number", xgen.StyleQuoted: "quoted", xgen.StyleBacktick: "backtick"}

// c16Literal checks literal fidelity of s under one style.
func c16Literal(c *mon.Ctx, s string, style int, r *xgen.Renderer) {
	lit := &xgen.Lit{S: s, Style: style}
	txt := r.RenderLit(lit, true)
	if style == xgen.StyleBacktick && r.R != nil && r.R.Intn(3) == 0 {
		// a backtick literal is a Go raw string: carriage returns inside it
		// are not part of the string it denotes
		k := r.R.Intn(len(s) + 1)
		for k < len(s) && !utf8.RuneStart(s[k]) {
			k++
		}
		txt = "`" + s[:k] + "\r" + s[k:] + "`"
		c.Count("lit:backtick-with-carriage-return")
	}
	for _, form := range []string{"X == " + txt, "X != " + txt, txt + " in X", "X contains " + txt, "X matches " + txt} {
		c.Evals(1)
		obs := observeParse(form, safeBudget)
		d := map[string]any{"string": fmt.Sprintf("%q", s), "style": styleNames[style], "expression": clip(form, 300)}
		sig := "C16 literal style=" + styleNames[style] + " class=" + litClass(s)
		if obs.Panic != "" || obs.Err != nil {
			d["error"] = fmt.Sprint(obs.Err) + obs.Panic
			c.Violation(sig+" rejected", "a literal rendered in an admissible style was rejected", d)
			return
		}
		m, ok := obs.Val.(*grammar.MatchExpression)
		if !ok || m == nil || m.Value == nil {
			c.Violation(sig+" not-a-match", "literal expression did not parse to a match with a value", d)
			return
		}
		if m.Value.Raw != s {
			d["raw"] = fmt.Sprintf("%q", m.Value.Raw)
			c.Violation(sig+" raw-differs", "the parsed literal is not the string that was spelled", d)
			return
		}
		if len(m.Selector.Path) != 1 || m.Selector.Path[0] != "X" {
			d["path"] = m.Selector.Path
			c.Violation(sig+" selector-differs", "selector changed by the literal", d)
			return
		}
	}
	// X == <lit> is true of X = s
	expr := "X == " + txt
	ev, err, pan, _ := createEval(expr)
	c.Evals(1)
	if pan != "" || err != nil {
		c.Violation("C16 literal-eval create-failed style="+styleNames[style], "CreateEvaluator failed on a literal expression", map[string]any{"expression": clip(expr, 300), "error": fmt.Sprint(err) + pan})
		return
	}
	for _, datum := range []interface{}{map[string]interface{}{"X": s}, map[string]string{"X": s}, struct{ X string }{s}} {
		o := evaluate(ev, datum)
		if o.Class() != "T" {
			c.Violation("C16 literal-eval style="+styleNames[style]+" class="+litClass(s), "X == <quoted s> is not true of X = s",
				map[string]any{"expression": clip(expr, 300), "string": fmt.Sprintf("%q", s), "datum_type": fmt.Sprintf("%T", datum), "observed": o.String()})
			return
		}
	}
	c.Count("lit:" + styleNames[style])
	c.Count("litclass:" + litClass(s))
	c.Distinct("lit/" + styleNames[style] + "/" + s)
}

var c16FixedStrings = []string{"a.b", "x.y.z", "cfg.x.1.5.y", "host.eu west.1", "\ufffd", "a\ufffd", "caf\ufffd\ufffd", "v1.2", "cfg.a.b", "r2024.10.3", "", "/", "/usr/bin", "/a/b/c", "/a~1b", "/~0", "//", "/ü", "/a b", "a/b", "\"", "\"\"", "a\"b", "\\", "\\\"", "\\n", "`", "a`b", "\r", "\n", "\r\n", "\t", "\x00", "\x7f",
	"\xff", "\xc3", "é", "日本語", "😀", "\u2028", "not", "and", "or", "in", "is", "empty", "contains", "matches", "any", "all", "as", "true", "false", "nil", "null",
	"0", "1", "-1", "1.5", "01", "-0", "1e3", "0x10", "foo", "foo.bar", "foo.0", "a_b", "x/y", " ", "  x  ", "(", ")", "{", "}", "[", "]", ",", ".", "==", "!=", "a == b", "%d", "\\x22", "\\u00e9", "~", "~0", "~1"}

func c16Run(c *mon.Ctx, idx int) {
	r := c.RNG(idx)
	nfixed := len(c16FixedStrings)
	if idx < nfixed {
		// fixed literal strings in every admissible style, several renderings
		s := c16FixedStrings[idx]
		for _, st := range xgen.StylesFor(s) {
			n := 4
			if st == xgen.StyleBare && strings.Contains(s, ".") {
				n = 40 // many spellings: dotted, bracketed, merged parts
			}
			for k := 0; k < n; k++ {
				c16Literal(c, s, st, &xgen.Renderer{R: r})
			}
		}
		c.Count("literal_cases")
		return
	}
	if idx%3 == 0 {
		// random literal strings
		var s string
		switch r.Intn(4) {
		case 0:
			s = xgen.RandLit(r).S
		case 1:
			n := r.Intn(12)
			b := make([]byte, n)
			for i := range b {
				b[i] = byte(r.Intn(256))
			}
			s = string(b)
		case 2:
			s = "/" + xgen.PartPool[r.Intn(len(xgen.PartPool))]
			if r.Intn(2) == 0 {
				s += "/" + xgen.IdentPool[r.Intn(len(xgen.IdentPool))]
			}
		default:
			var sb strings.Builder
			for i, n := 0, r.Intn(10); i < n; i++ {
				sb.WriteRune(rune(r.Intn(0x2fff)))
			}
			s = sb.String()
		}
		if c.Tier == "thorough" && r.Intn(500) == 0 {
			s = strings.Repeat(s+"x", 1+10000/(len(s)+1))
		}
		sts := xgen.StylesFor(s)
		c16Literal(c, s, sts[r.Intn(len(sts))], &xgen.Renderer{R: r})
		c.Count("literal_cases")
		if idx%2999 == 0 {
			c.Sample(map[string]any{"kind": "literal", "string": fmt.Sprintf("%q", clip(s, 80))})
		}
		return
	}
	// tree round trip
	tree := xgen.RandTree(r, 1+r.Intn(5))
	rd := &xgen.Renderer{R: r, MaxRedundantParens: tierN(c.Tier, 2, 3)}
	txt := rd.Render(tree)
	want := xgen.Canon(xgen.Normalize(tree))
	c.Evals(1)
	obs := observeParse(txt, safeBudget)
	if obs.Budgeted {
		c.Count("budget_exhausted")
		return
	}
	c.Count("tree_cases")
	d := func() map[string]any {
		return map[string]any{"rendered": clip(txt, 500), "source_tree": clip(want, 500)}
	}
	if obs.Panic != "" || obs.Err != nil {
		dd := d()
		dd["error"] = fmt.Sprint(obs.Err) + obs.Panic
		c.Violation("C16 roundtrip rejected", "a rendering of a valid tree was rejected", dd)
		return
	}
	got, err := treeOf(obs.Val)
	if err != nil {
		dd := d()
		dd["error"] = err.Error()
		c.Violation("C16 roundtrip malformed-tree", "parse produced a malformed tree", dd)
		return
	}
	if g := xgen.Canon(got); g != want {
		dd := d()
		dd["parsed_tree"] = clip(g, 500)
		c.Violation("C16 roundtrip tree-differs "+xgen.Diff(got, xgen.Normalize(tree)), "parsing the rendering gave a different tree", dd)
		return
	}
	c16Configs(tree, func(k string) { c.Count(k) })
	if rd.NeededParens > 0 {
		c.Count("with_needed_parens")
	}
	if rd.RedundantParens > 0 {
		c.Count("with_redundant_parens")
	}
	if xgen.Size(tree) > 1 {
		c.Distinct("tree/" + txt)
	}
	if idx%3001 == 1 {
		c.Sample(map[string]any{"kind": "tree", "rendered": clip(txt, 200), "tree": clip(want, 300)})
	}
}

// ---------------------------------------------------------------------------
// C19

type failingWriter struct{}

func (failingWriter) Write(p []byte) (int, error) { return 0, io.ErrClosedPipe }

// c19Scribble rewrites, in place, every selector part and literal of a tree.
func c19Scribble(e grammar.Expression) {
	switch x := e.(type) {
	case *grammar.UnaryExpression:
		c19Scribble(x.Operand)
	case *grammar.BinaryExpression:
		c19Scribble(x.Left)
		c19Scribble(x.Right)
	case *grammar.MatchExpression:
		for i := range x.Selector.Path {
			x.Selector.Path[i] = "SCRIBBLED" + strings.ToUpper(x.Selector.Path[i])
		}
		if x.Value != nil {
			x.Value.Raw = "scribbled"
		}
	case *grammar.CollectionExpression:
		for i := range x.Selector.Path {
			x.Selector.Path[i] = "SCRIBBLED" + strings.ToUpper(x.Selector.Path[i])
		}
		x.NameBinding.Default, x.NameBinding.Index, x.NameBinding.Value = "s1", "s2", "s3"
		c19Scribble(x.Inner)
	}
}

func c19Run(c *mon.Ctx, idx int) {
	r := c.RNG(idx)
	tree := xgen.RandTree(r, 1+r.Intn(5))
	rd := &xgen.Renderer{R: r, MaxRedundantParens: 1}
	txt := rd.Render(tree)
	if idx%40 == 7 {
		// a long literal with multi-byte runes straddling every plausible
		// buffer boundary, nested one level down
		n := []int{4094, 4095, 4096, 4097, 8190, 8191, 8192, 65534, 65535, 65536, 1 << 17}[(idx/40)%11]
		long := strings.Repeat("a", n) + "é漢😀" + strings.Repeat("b", 7)
		if (idx/40)%3 == 1 {
			long = strings.Repeat("é", n/2) + strings.Repeat("😀", 1100) + "x"
		}
		op := []string{"==", "!=", "in", "not in"}[(idx/40)%4]
		if op == "==" || op == "!=" {
			txt = "lng " + op + " " + strconv.Quote(long) + " and (" + txt + ")"
		} else {
			txt = strconv.Quote(long) + " " + op + " lng and (" + txt + ")"
		}
		c.Count("long_literal_dumps")
	}
	if idx%40 == 11 {
		// binding names that contain the separator a cache key might be joined with
		txt = []string{`any l as idx/a, b { b == 1 }`, `any l as idx, a/b { idx == 1 }`, `all m as k/v { k/v == 1 }`, `any l as _, a/b/c { a/b/c == 1 }`, `any l as a/b, c { c == 1 }`, `any l as a, b/c { a == 1 }`}[(idx/40)%6]
		c.Count("slash_binding_dumps")
	}
	if idx%40 == 13 {
		// a dump into a writer that fails must not spoil the next dump
		if o0 := observeParse(txt, safeBudget); o0.Err == nil && o0.Panic == "" {
			if t0, ok := o0.Val.(grammar.Expression); ok && t0 != nil {
				mon.Try(func() { t0.ExpressionDump(failingWriter{}, "  ", 0) })
			}
		}
		c.Count("dumps_after_a_failed_write")
	}
	if idx%40 == 9 {
		// trees deeper than any fixed stack / buffer of a renderer: flat chains of
		// 63..300 operands, `not (` nesting, quantifier nesting
		n := []int{63, 64, 65, 66, 127, 128, 129, 130, 255, 256, 257, 300}[(idx/40)%12]
		switch (idx / 40) % 4 {
		case 0:
			txt = "a == 1" + strings.Repeat(" and b != 2", n-1)
		case 1:
			txt = "a == 1" + strings.Repeat(" or b in c", n-1) + " or (" + txt + ")"
		case 2:
			txt = strings.Repeat("not (x == 1 and ", n/8+1) + "y == 2" + strings.Repeat(")", n/8+1)
		default:
			txt = strings.Repeat("any l as v { ", n/6+1) + "v == 1" + strings.Repeat(" }", n/6+1)
		}
		c.Count("deep_tree_dumps")
	}
	obs := observeParse(txt, safeBudget)
	if obs.Budgeted || obs.Err != nil || obs.Panic != "" {
		c.Count("unparsed") // C16's subject
		return
	}
	real, ok := obs.Val.(grammar.Expression)
	if !ok || real == nil {
		c.Count("unparsed")
		return
	}
	view, err := xgen.FromGrammar(real)
	if err != nil {
		c.Count("unparsed")
		return
	}
	indents := []string{"", " ", "\t", "ab", "   ", "  ", "a", "abc", "\t. ", "%", "%s", "%%", "%-4d", "50% ", "\\", "\n", "é", "  | "}
	if idx%10 == 3 {
		// long indent units (longer than any fixed scratch buffer), not made of one repeated byte
		unit := "0123456789abcdefghijklmnopqrstuvwxyz-"
		for _, n := range []int{63, 64, 65, 100, 255, 256, 257, 1000} {
			indents = append(indents, strings.Repeat(unit, n/len(unit)+1)[:n])
		}
		c.Count("long_indent_units")
	}
	r.Shuffle(len(indents), func(i, j int) { indents[i], indents[j] = indents[j], indents[i] })
	for _, indent := range indents {
		for level := 0; level <= 3; level++ {
			if r.Intn(3) != 0 && !(indent == "  " && level == 0) {
				continue
			}
			c.Evals(1)
			var b1, b2 bytes.Buffer
			out := mon.Try(func() {
				real.ExpressionDump(&b1, indent, level)
				// the second time through a writer that has nothing but Write
				// (no WriteString, no ReadFrom ...), like a hash or a network connection
				real.ExpressionDump(struct{ io.Writer }{&b2}, indent, level)
			})
			d := map[string]any{"expression": clip(txt, 300), "indent": fmt.Sprintf("%q", indent), "level": level}
			if out.Panic {
				d["panic"] = out.PanicVal
				c.Violation("C19 dump-panic site="+mon.PanicSite(out.Stack), "ExpressionDump panicked", d)
				return
			}
			if b1.String() != b2.String() {
				c.Violation("C19 dump-not-deterministic", "the same tree rendered differently twice (once into a bytes.Buffer, once into a writer that only has Write)", d)
				return
			}
			want := refparse.Dump(view, indent, level)
			if b1.String() != want {
				d["got"], d["want"] = clip(b1.String(), 800), clip(want, 800)
				c.Violation("C19 dump-differs top="+kindName(view)+" "+c19Diff(b1.String(), want), "ExpressionDump output differs from the documented rendering", d)
				return
			}
			c.Count("dumps_compared")
		}
	}
	// two trees parsed from the same text are two trees: the owner of one
	// rewrites its selector parts and literals in place, the dump of the
	// other stays what it was (and so does a tree parsed afterwards)
	if idx%25 == 6 {
		if o2 := observeParse(txt, safeBudget); o2.Err == nil && o2.Panic == "" {
			if t2, ok := o2.Val.(grammar.Expression); ok && t2 != nil {
				var before, after, later bytes.Buffer
				t2.ExpressionDump(&before, "  ", 0)
				c19Scribble(real)
				t2.ExpressionDump(&after, "  ", 0)
				if o3 := observeParse(txt, safeBudget); o3.Err == nil {
					if t3, ok := o3.Val.(grammar.Expression); ok && t3 != nil {
						t3.ExpressionDump(&later, "  ", 0)
					}
				}
				if after.String() != before.String() || (later.Len() > 0 && later.String() != before.String()) {
					c.Violation("C19 dump-changed-by-another-tree", "after the owner of ANOTHER tree (parsed from the same text) rewrote that tree in place, this tree - or one parsed afterwards - renders differently",
						map[string]any{"expression": clip(txt, 300), "before": clip(before.String(), 500), "after": clip(after.String(), 500), "parsed_afterwards": clip(later.String(), 500)})
					return
				}
				c.Count("sibling_tree_independence_checked")
				return // `real` has been scribbled on
			}
		}
	}
	// concurrent dumps of different trees must not disturb one another (a
	// writer that yields on every Write moves the interleaving inside a dump)
	if idx%40 == 0 {
		c19Concurrent(c, r, real, view)
	}
	// Selector.String
	c19Sel(c, real)
	c.Count("kind:" + kindName(view))
	walkKinds(view, func(k string) { c.Count("node:" + k) })
	if xgen.Size(view) > 1 {
		c.Distinct(txt)
	}
	if idx%2003 == 0 {
		c.Sample(map[string]any{"expression": clip(txt, 200), "dump_indent2_level0": clip(refparse.Dump(view, "  ", 0), 600)})
	}
}

type yieldingWriter struct{ buf bytes.Buffer }

func (w *yieldingWriter) Write(p []byte) (int, error) {
	runtime.Gosched()
	return w.buf.Write(p)
}

func c19Concurrent(c *mon.Ctx, r *rand.Rand, real grammar.Expression, view xgen.Expr) {
	type job struct {
		tree   grammar.Expression
		want   string
		indent string
		level  int
	}
	jobs := []job{{real, "", "        ", 1}, {real, "", "\t\t", 2}, {real, "", "ab", 0}}
	// a second, different tree
	if v, err, _, _ := parsePublic("not (a == 1 and (any l as i, x { x != \"q\" or i == 2 })) or all m as k { k matches \"z\" }"); err == nil {
		if t, ok := v.(grammar.Expression); ok {
			jobs = append(jobs, job{t, "", "\t\tALL Va", 1}, job{t, "", " ", 3})
		}
	}
	for i := range jobs {
		vw, err := xgen.FromGrammar(jobs[i].tree)
		if err != nil {
			return
		}
		jobs[i].want = refparse.Dump(vw, jobs[i].indent, jobs[i].level)
	}
	for _, procs := range []int{1, 4} {
		old := runtime.GOMAXPROCS(procs)
		outs := make([]string, len(jobs))
		var wg sync.WaitGroup
		gate := make(chan struct{})
		for i := range jobs {
			wg.Add(1)
			go func(i int) {
				defer wg.Done()
				<-gate
				for k := 0; k < 6; k++ {
					w := &yieldingWriter{}
					jobs[i].tree.ExpressionDump(w, jobs[i].indent, jobs[i].level)
					if got := w.buf.String(); got != jobs[i].want && outs[i] == "" {
						outs[i] = got
					}
				}
			}(i)
		}
		close(gate)
		wg.Wait()
		runtime.GOMAXPROCS(old)
		for i, got := range outs {
			if got != "" {
				c.Violation("C19 concurrent-dump-differs "+c19Diff(got, jobs[i].want), "a dump made while other goroutines were dumping differs from the documented rendering",
					map[string]any{"indent": fmt.Sprintf("%q", jobs[i].indent), "level": jobs[i].level, "gomaxprocs": procs, "got": clip(got, 800), "want": clip(jobs[i].want, 800)})
				return
			}
		}
	}
	c.Count("concurrent_dump_rounds")
}

// c19Diff classifies the first differing line (for signatures).
func c19Diff(got, want string) string {
	g, w := strings.Split(got, "\n"), strings.Split(want, "\n")
	for i := 0; i < len(g) && i < len(w); i++ {
		if g[i] != w[i] {
			gt, wt := strings.TrimLeft(g[i], " \tabc.%sd-450\\é|"), strings.TrimLeft(w[i], " \tabc.%sd-450\\é|")
			if gt == wt {
				return "first-diff=indentation"
			}
			f := strings.Fields(wt)
			if len(f) > 0 {
				return "first-diff-at=" + clip(f[0], 12)
			}
		}
	}
	return "first-diff=length"
}

func walkKinds(e xgen.Expr, f func(string)) {
	f(kindName(e))
	switch n := e.(type) {
	case *xgen.Or:
		walkKinds(n.L, f)
		walkKinds(n.R, f)
	case *xgen.And:
		walkKinds(n.L, f)
		walkKinds(n.R, f)
	case *xgen.Not:
		walkKinds(n.X, f)
	case *xgen.Quant:
		f("bind:" + fmt.Sprint(n.Mode))
		walkKinds(n.Body, f)
	case *xgen.Match:
		f("op:" + n.Op.String())
		if n.Sel.JSONPointer {
			f("pointer-selector")
		}
	}
}

func c19Sel(c *mon.Ctx, e grammar.Expression) {
	check := func(s grammar.Selector) {
		var got string
		out := mon.Try(func() { got = s.String() })
		sep := "."
		if s.Type == grammar.SelectorTypeJsonPointer {
			sep = "/"
		}
		want := strings.Join(s.Path, sep)
		if out.Panic || got != want {
			c.Violation("C19 selector-string", "Selector.String is not the joined path", map[string]any{"path": s.Path, "type": s.Type, "got": got, "want": want, "panic": out.PanicVal})
		}
		c.Count("selector_strings")
	}
	switch n := e.(type) {
	case *grammar.UnaryExpression:
		c19Sel(c, n.Operand)
	case *grammar.BinaryExpression:
		c19Sel(c, n.Left)
		c19Sel(c, n.Right)
	case *grammar.MatchExpression:
		check(n.Selector)
	case *grammar.CollectionExpression:
		check(n.Selector)
		c19Sel(c, n.Inner)
	}
}

func init() {
	mon.Register(&mon.Prop{
		ID: "C16", Level: "exploration",
		Rule: "two thirds of the cases: a seeded random expression tree (depth<=5, every operator, quantifier binding mode, selector spelling, literal style, in/contains spelling) is rendered with per-node random layout (whitespace kinds, optional whitespace, redundant parentheses) and parsed back by grammar.Parse; oracle: canonical form of the parsed tree equals that of the (double-negation-normalised) source tree. one third + a fixed list: a literal string s is rendered in one admissible style and `X == lit`, `X != lit`, `lit in X`, `X contains lit`, `X matches lit` are parsed (Raw must equal s) and `X == lit` is evaluated on X = s (must be true). non-trivial = tree with more than one node / any literal case; distinct by rendered text or (style, string)",
		Assumptions: []string{"the renderer only produces layouts the grammar admits (constraints read off grammar.peg; an inadmissible layout would show up as a false alarm on the unchanged tree, none does)",
			"redundant parentheses are bounded (2 quick, 3 thorough) because unlimited parse time is exponential in parenthesis depth"},
		NumCases: func(tier string) int { return len(c16FixedStrings) + tierN(tier, 30000, 1500000) },
		Run:      c16Run,
		Required: func(tier string) []string {
			l := []string{"tree_cases", "literal_cases", "with_needed_parens", "with_redundant_parens", "lit:bare", "lit:number", "lit:quoted", "lit:backtick", "lit:backtick-with-carriage-return"}
			for _, s := range c16Slots {
				for _, k := range c16Kinds {
					l = append(l, "pc:"+s+"="+k)
				}
			}
			return l
		},
	})
	mon.Register(&mon.Prop{
		ID: "C19", Level: "exploration",
		Rule:        "seeded random expression trees (depth<=5) are parsed by the real parser; the resulting tree is dumped with ExpressionDump under 18 indent strings (spaces, tab, multi-character, prefixes of one another, strings containing % verbs, backslash, newline, non-ASCII; visited in random order so that earlier dumps differ from later ones) x levels 0..3 (random subset per tree, twice each) and compared byte for byte with an independent reference renderer of the documented format; Selector.String of every selector is compared with the joined path; non-trivial = tree with more than one node; distinct by expression text",
		Assumptions: []string{"the documented format is the one pinned by grammar/ast_test.go and the String methods' doc; the reference renderer (internal/refparse.Dump) was written from it"},
		NumCases:    func(tier string) int { return tierN(tier, 12000, 500000) },
		Run:         c19Run,
		Required: func(tier string) []string {
			l := []string{"dumps_compared", "concurrent_dump_rounds", "long_literal_dumps", "long_indent_units", "deep_tree_dumps", "sibling_tree_independence_checked", "slash_binding_dumps", "dumps_after_a_failed_write", "selector_strings", "node:pointer-selector", "node:Or", "node:And", "node:Not", "node:Quant", "node:Match", "node:bind:0", "node:bind:1", "node:bind:2", "node:bind:3"}
			for _, o := range xgen.OpNames {
				l = append(l, "node:op:"+o)
			}
			return l
		},
	})
}
