//go:build !verifref

package props

import "github.com/hashicorp/go-bexpr/grammar"

func c20RefActions() map[string]grammar.VerifAction { return nil }
