package props

import (
	"fmt"
	"math"
	"math/big"
	"math/rand"
	"strconv"
	"strings"

	bexpr "github.com/hashicorp/go-bexpr"

	"verif/internal/mon"
	"verif/internal/univ"
	"verif/internal/xgen"
)

// C02 - equality compares in the selected value's own type; bad literals are
// errors. The oracle is constructive: the literal text is rendered FROM a
// chosen value y of the value's own kind, so the expected result is Go's own
// x == y; no parsing happens in the oracle.

var c02IntKinds = []*univ.Type{univ.TInt, univ.TInt8, univ.TInt16, univ.TInt32, univ.TInt64}
var c02UintKinds = []*univ.Type{univ.TUint, univ.TUint8, univ.TUint16, univ.TUint32, univ.TUint64}

func intRange(k univ.Kind) (int64, int64) {
	switch k {
	case univ.KInt8:
		return math.MinInt8, math.MaxInt8
	case univ.KInt16:
		return math.MinInt16, math.MaxInt16
	case univ.KInt32:
		return math.MinInt32, math.MaxInt32
	}
	return math.MinInt64, math.MaxInt64
}

func uintMax(k univ.Kind) uint64 {
	switch k {
	case univ.KUint8:
		return math.MaxUint8
	case univ.KUint16:
		return math.MaxUint16
	case univ.KUint32:
		return math.MaxUint32
	}
	return math.MaxUint64
}

func underscored(s string) string {
	// insert _ between digits (valid only with a base prefix or in base-0 decimal)
	if len(s) < 3 {
		return s
	}
	return s[:len(s)-2] + "_" + s[len(s)-2:]
}

// spellInt returns spellings of the integer y (all denote exactly y under Go
// base-0 integer syntax).
func spellInt(r *rand.Rand, neg bool, mag uint64) []string {
	sign := ""
	if neg {
		sign = "-"
	}
	dec := strconv.FormatUint(mag, 10)
	l := []string{sign + dec, sign + "0x" + strconv.FormatUint(mag, 16), sign + "0X" + strings.ToUpper(strconv.FormatUint(mag, 16)), sign + "0o" + strconv.FormatUint(mag, 8),
		sign + "0b" + strconv.FormatUint(mag, 2), sign + "0" + strconv.FormatUint(mag, 8), sign + "0x" + underscored(strconv.FormatUint(mag, 16))}
	if len(dec) >= 3 {
		l = append(l, sign+underscored(dec))
	}
	if !neg {
		l = append(l, "+"+dec)
	}
	return l
}

// spellUint: unsigned literals take no sign.
func spellUint(r *rand.Rand, mag uint64) []string {
	var l []string
	for _, s := range spellInt(r, false, mag) {
		if !strings.HasPrefix(s, "+") {
			l = append(l, s)
		}
	}
	return l
}

// wrapScalar puts x behind the representations the statement lists.
func wrapScalar(x *univ.Node, how int) (*univ.Node, string) {
	switch how {
	case 0:
		return univ.IfaceMap("X", x), "map[string]interface{}"
	case 1:
		return univ.IfaceMap("X", univ.Ptr(x)), "pointer"
	case 2:
		return univ.Struct(univ.StructOf(univ.Field{Name: "X", Type: x.T}), x), "struct field"
	case 3:
		return univ.Struct(univ.StructOf(univ.Field{Name: "F", Tag: `bexpr:"X"`, Type: univ.PtrTo(x.T)}), univ.Ptr(x)), "tagged *T struct field"
	case 4:
		return univ.MapNode(univ.MapOf(univ.TString, x.T), []*univ.Node{univ.Str("X")}, []*univ.Node{x}), "map[string]T"
	case 5:
		return univ.IfaceMap("X", univ.IfaceSlice(x)), "element"
	case 6, 7:
		return univ.IfaceMap("X", univ.Slice(univ.SliceOf(x.T), x)), "element of a typed list, bound by a quantifier"
	case 8:
		return univ.Struct(univ.StructOf(univ.Field{Name: "X", Type: univ.ArrayOf(1, x.T)}), &univ.Node{T: univ.ArrayOf(1, x.T), Items: []*univ.Node{x}}), "element of a typed array, bound by a quantifier"
	default:
		return univ.IfaceMap("X", univ.Slice(univ.SliceOf(x.T), x)), "element of a typed list"
	}
}

type c02Obs struct {
	cls  string
	text string
	o    evalObs
}

func c02Eval(c *mon.Ctx, r *rand.Rand, datum *univ.Node, sel string, op string, lit string) c02Obs {
	sts := xgen.StylesFor(lit)
	style := sts[r.Intn(len(sts))]
	txt := (&xgen.Renderer{R: r}).RenderLit(&xgen.Lit{S: lit, Style: style}, true)
	text := sel + " " + op + " " + txt
	if strings.HasPrefix(sel, "quant:") {
		// a one-element list: `any X as n { n OP lit }` is the comparison itself
		form := strings.TrimPrefix(sel, "quant:")
		text = strings.ReplaceAll(form, "BODY", "n "+op+" "+txt)
	}
	c.Evals(1)
	ev, err, pan, _ := createEval(text)
	if pan != "" || err != nil {
		return c02Obs{cls: "", text: text}
	}
	o := evaluate(ev, datum.Datum())
	return c02Obs{cls: o.Class3(), text: text, o: o}
}

// expect asserts X == lit is `want` ("T","F","E") and X != lit the complement.
func c02Expect(c *mon.Ctx, r *rand.Rand, x *univ.Node, lit string, want string, why string) {
	how := r.Intn(10)
	if x.T.Named == "JSONNumber" && (how == 1 || how == 3) {
		how = 0 // a *json.Number is not narrowed (the statement lists pointer and json.Number as alternatives)
	}
	datum, hname := wrapScalar(x, how)
	sel := "X"
	switch how {
	case 5, 9:
		sel = "X.0"
	case 6:
		sel = "quant:any X as n { BODY }"
	case 7:
		sel = "quant:all X as _, n { BODY }"
	case 8:
		sel = "quant:any X as i, n { BODY and i == 0 }"
	}
	for _, op := range []string{"==", "!="} {
		w := want
		if op == "!=" {
			w = notTable(want)
		}
		ob := c02Eval(c, r, datum, sel, op, lit)
		if ob.cls == "" {
			c.Violation("C02 literal-rejected", "a literal expression was rejected at creation", map[string]any{"expression": clip(ob.text, 200)})
			return
		}
		c.Count("kind:" + x.T.K.String() + "/" + w)
		if ob.cls != w {
			c.Violation(fmt.Sprintf("C02 %s kind=%s want=%s got=%s why=%s", op, x.T.K, w, ob.cls, why), "equality did not compare in the value's own type",
				map[string]any{"expression": clip(ob.text, 300), "value": x.Describe(), "holder": hname, "literal": lit, "observed": ob.o.String(), "expected": w, "reason": why})
			return
		}
	}
	c.Distinct(x.T.String() + "|" + x.Describe() + "|" + lit)
}

func c02Ints(c *mon.Ctx, r *rand.Rand) {
	t := c02IntKinds[r.Intn(len(c02IntKinds))]
	if r.Intn(4) == 0 {
		t = []*univ.Type{univ.NamedScalarTypes[1], univ.NamedScalarTypes[2], univ.NamedScalarTypes[3]}[r.Intn(3)]
	}
	lo, hi := intRange(t.K)
	cands := []int64{lo, lo + 1, hi, hi - 1, 0, 1, -1}
	for _, b := range univ.BoundaryInts {
		if b >= lo && b <= hi {
			cands = append(cands, b)
		}
	}
	x := cands[r.Intn(len(cands))]
	if r.Intn(3) == 0 {
		x = lo + int64(r.Uint64()%uint64(hi-lo)) // random in range (hi-lo never overflows uint64 math here except int64 full range)
		if t.K.Bits() == 64 {
			x = int64(r.Uint64())
		}
	}
	node := univ.IntOf(t, x)
	mag := func(v int64) (bool, uint64) {
		if v < 0 {
			return true, uint64(-(v + 1)) + 1
		}
		return false, uint64(v)
	}
	// y == x in every spelling
	n, m := mag(x)
	sp := spellInt(r, n, m)
	c02Expect(c, r, node, sp[r.Intn(len(sp))], "T", "same-integer")
	c.Count("int:spelling-equal")
	// y != x: neighbours, and values congruent to x modulo 2^width (a
	// comparison that truncates would call them equal), and x +- 2^53 steps
	var others []int64
	if x < math.MaxInt64 {
		others = append(others, x+1)
	}
	if x > math.MinInt64 {
		others = append(others, x-1)
	}
	if t.K.Bits() < 64 {
		w := int64(1) << uint(t.K.Bits())
		others = append(others, x+w, x-w, x+2*w)
		c.Count("int:wraparound-literal")
	}
	if x > 1<<53 && x < math.MaxInt64-2 {
		others = append(others, x+1, x+2) // not distinguishable in float64
		c.Count("int:above-2^53")
	}
	y := others[r.Intn(len(others))]
	n, m = mag(y)
	sp = spellInt(r, n, m)
	c02Expect(c, r, node, sp[r.Intn(len(sp))], "F", "different-integer")
	// not a valid 64-bit integer literal
	bad := []string{"abc", "", "1.0", "1e3", "1.5", "0x", "0b2", "08", "1__0", "_1", "9223372036854775808", "-9223372036854775809", "99999999999999999999", " 1", "1 ", "true", "0x1p3", "１", fmt.Sprint(x) + "u", fmt.Sprint(x) + "i", fmt.Sprint(x) + "f", fmt.Sprint(x) + "uint"}
	c02Expect(c, r, node, bad[r.Intn(len(bad))], "E", "invalid-integer-literal")
}

func c02Uints(c *mon.Ctx, r *rand.Rand) {
	t := c02UintKinds[r.Intn(len(c02UintKinds))]
	if r.Intn(4) == 0 {
		t = []*univ.Type{univ.NamedScalarTypes[4], univ.NamedScalarTypes[5], univ.NamedScalarTypes[6]}[r.Intn(3)]
	}
	max := uintMax(t.K)
	cands := []uint64{0, 1, max, max - 1, max / 2, max/2 + 1}
	x := cands[r.Intn(len(cands))]
	if r.Intn(3) == 0 {
		x = r.Uint64() % (max/2 + 1) * 2
		if x > max {
			x = max
		}
	}
	node := univ.UintOf(t, x)
	sp := spellUint(r, x)
	c02Expect(c, r, node, sp[r.Intn(len(sp))], "T", "same-unsigned")
	var others []uint64
	if x < math.MaxUint64 {
		others = append(others, x+1)
	}
	if x > 0 {
		others = append(others, x-1)
	}
	if t.K.Bits() < 64 {
		others = append(others, x+(uint64(1)<<uint(t.K.Bits())))
		c.Count("uint:wraparound-literal")
	}
	if x > math.MaxInt64 {
		c.Count("uint:above-maxint64")
	}
	y := others[r.Intn(len(others))]
	sp = spellUint(r, y)
	c02Expect(c, r, node, sp[r.Intn(len(sp))], "F", "different-unsigned")
	bad := []string{"-1", "-0x1", "abc", "", "1.0", "18446744073709551616", "1e3", "0x", "08", " 1", "-0", "+0", "-0x0", "+0b101", "+" + fmt.Sprint(x), "+" + fmt.Sprintf("%#x", x), fmt.Sprint(x) + "u", fmt.Sprint(x) + "i"}
	c02Expect(c, r, node, bad[r.Intn(len(bad))], "E", "invalid-unsigned-literal")
}

func c02Bools(c *mon.Ctx, r *rand.Rand) {
	t := univ.TBool
	if r.Intn(4) == 0 {
		t = univ.NamedScalarTypes[0]
	}
	x := r.Intn(2) == 0
	node := &univ.Node{T: t, B: x}
	trues, falses := []string{"1", "t", "T", "TRUE", "true", "True"}, []string{"0", "f", "F", "FALSE", "false", "False"}
	same, other := trues, falses
	if !x {
		same, other = falses, trues
	}
	c02Expect(c, r, node, same[r.Intn(len(same))], "T", "same-bool")
	c02Expect(c, r, node, other[r.Intn(len(other))], "F", "different-bool")
	bad := []string{"yes", "no", "", "2", "tRUE", "TrUe", "-1", "on", " true", "true ", "nil"}
	c02Expect(c, r, node, bad[r.Intn(len(bad))], "E", "invalid-bool-literal")
}

func c02Strings(c *mon.Ctx, r *rand.Rand) {
	t := univ.TString
	if r.Intn(4) == 0 {
		t = univ.NamedScalarTypes[9]
	}
	x := univ.BoundaryStrings[r.Intn(len(univ.BoundaryStrings))]
	if r.Intn(3) == 0 {
		x = xgen.RandLit(r).S
	}
	node := univ.StrOf(t, x)
	c02Expect(c, r, node, x, "T", "same-string")
	var y string
	switch r.Intn(5) {
	case 0:
		y = x + " "
	case 1:
		y = " " + x
	case 2:
		y = strings.ToUpper(x) + "x"
	case 3:
		y = x + "\x00"
	default:
		y = univ.BoundaryStrings[r.Intn(len(univ.BoundaryStrings))] + "~"
	}
	c02Expect(c, r, node, y, "F", "different-string")
	if strings.ToUpper(x) != x {
		c02Expect(c, r, node, strings.ToUpper(x), "F", "case-differs")
	}
}

// ratOfFloat32Mid returns the exact midpoint between f and the next float32
// above it, as decimal text, and decimal texts just above / below it.
func float32Witness(r *rand.Rand) (lo, hi float32, below, above string) {
	bits := uint32(0x3f800000 + r.Intn(0x00800000)) // [1,2)
	if r.Intn(2) == 0 {
		bits = uint32(r.Int63n(0x7f000000-0x00800000)) + 0x00800000
	}
	lo = math.Float32frombits(bits)
	hi = math.Float32frombits(bits + 1)
	a, b := new(big.Rat).SetFloat64(float64(lo)), new(big.Rat).SetFloat64(float64(hi))
	mid := new(big.Rat).Add(a, b)
	mid.Quo(mid, big.NewRat(2, 1))
	// eps far smaller than the float64 spacing around mid, so that a
	// float64-first rounding lands exactly on the midpoint
	eps := new(big.Rat).Sub(b, a)
	eps.Quo(eps, new(big.Rat).SetInt(new(big.Int).Lsh(big.NewInt(1), 40)))
	dn, up := new(big.Rat).Sub(mid, eps), new(big.Rat).Add(mid, eps)
	return lo, hi, dn.FloatString(70), up.FloatString(70)
}

func c02Floats(c *mon.Ctx, r *rand.Rand) {
	if r.Intn(2) == 0 {
		// float64
		t := univ.TFloat64
		if r.Intn(4) == 0 {
			t = univ.NamedScalarTypes[8]
		}
		x := univ.BoundaryFloats[r.Intn(len(univ.BoundaryFloats))]
		switch r.Intn(4) {
		case 0:
			x = math.Float64frombits(r.Uint64()>>2 | 1<<61) // a finite positive number
			if math.IsInf(x, 0) || math.IsNaN(x) {
				x = 1.25
			}
		case 1:
			x = -x
		}
		node := univ.FloatOf(t, x)
		sp := []string{strconv.FormatFloat(x, 'g', -1, 64), strconv.FormatFloat(x, 'e', 17, 64), strconv.FormatFloat(x, 'e', -1, 64), strconv.FormatFloat(x, 'x', -1, 64)}
		if math.Abs(x) < 1e15 && math.Abs(x) > 1e-5 {
			sp = append(sp, strconv.FormatFloat(x, 'f', -1, 64))
		}
		c02Expect(c, r, node, sp[r.Intn(len(sp))], "T", "same-float64")
		y := math.Nextafter(x, math.Inf(1))
		if r.Intn(2) == 0 {
			y = math.Nextafter(x, math.Inf(-1))
		}
		if !math.IsInf(y, 0) {
			c02Expect(c, r, node, strconv.FormatFloat(y, 'g', -1, 64), "F", "adjacent-float64")
		}
		bad := []string{"abc", "", "1e999", "-1e999", "1.5.5", "0x1.8", "1e", ".", " 1.5", "1,5", "--1"}
		c02Expect(c, r, node, bad[r.Intn(len(bad))], "E", "invalid-float-literal")
		if x == 0 {
			c02Expect(c, r, node, "-0", "T", "negative-zero")
			c02Expect(c, r, node, "-0.0", "T", "negative-zero")
		}
		// infinities and NaN spellings (ParseFloat: case-insensitive, optional sign)
		inf := univ.FloatOf(t, math.Inf(1))
		ninf := univ.FloatOf(t, math.Inf(-1))
		c02Expect(c, r, inf, []string{"Inf", "inf", "+Inf", "Infinity", "+infinity", "INF"}[r.Intn(6)], "T", "infinity-spelling")
		c02Expect(c, r, ninf, []string{"-Inf", "-inf", "-Infinity", "-INFINITY"}[r.Intn(4)], "T", "infinity-spelling")
		c02Expect(c, r, inf, []string{"-Inf", "1e308", "0"}[r.Intn(3)], "F", "infinity-spelling")
		c02Expect(c, r, node, []string{"Inf", "-Infinity", "NaN", "nan", "NAN"}[r.Intn(5)], "F", "finite-vs-inf-or-nan-literal")
		c.Count("float64_cases")
		return
	}
	// float32: the nearest float of the field's width
	t := univ.TFloat32
	if r.Intn(4) == 0 {
		t = univ.NamedScalarTypes[7]
	}
	lo, hi, below, above := float32Witness(r)
	// a decimal just below the midpoint of (lo, hi) denotes lo, just above
	// denotes hi - also when a conversion through float64 would round it
	// exactly onto the midpoint first (double rounding)
	c02Expect(c, r, univ.FloatOf(t, float64(lo)), below, "T", "float32-just-below-midpoint")
	c02Expect(c, r, univ.FloatOf(t, float64(hi)), below, "F", "float32-just-below-midpoint")
	c02Expect(c, r, univ.FloatOf(t, float64(hi)), above, "T", "float32-just-above-midpoint")
	c02Expect(c, r, univ.FloatOf(t, float64(lo)), above, "F", "float32-just-above-midpoint")
	c.Count("float32_midpoint_witnesses")
	x := float32(univ.BoundaryFloats[r.Intn(len(univ.BoundaryFloats))])
	if math.IsInf(float64(x), 0) {
		x = math.MaxFloat32
	}
	node := univ.FloatOf(t, float64(x))
	c02Expect(c, r, node, strconv.FormatFloat(float64(x), 'g', -1, 32), "T", "same-float32-shortest")
	c02Expect(c, r, node, strconv.FormatFloat(float64(x), 'e', 20, 64), "T", "same-float32-exact-decimal")
	y := math.Nextafter32(x, float32(math.Inf(1)))
	if !math.IsInf(float64(y), 0) {
		c02Expect(c, r, node, strconv.FormatFloat(float64(y), 'g', -1, 32), "F", "adjacent-float32")
	}
	c02Expect(c, r, univ.FloatOf(t, math.Inf(1)), []string{"Inf", "infinity", "+Inf"}[r.Intn(3)], "T", "infinity-spelling")
	c02Expect(c, r, node, []string{"NaN", "Inf", "-inf"}[r.Intn(3)], "F", "finite-vs-inf-or-nan-literal")
	bad := []string{"abc", "", "1e39", "3.5e38", "-1e39", "1e999"}
	c02Expect(c, r, node, bad[r.Intn(len(bad))], "E", "invalid-or-out-of-range-float32-literal")
}

func c02JSONNumber(c *mon.Ctx, r *rand.Rand) {
	// a json.Number is narrowed to int64, else float64
	if r.Intn(2) == 0 {
		x := univ.BoundaryInts[r.Intn(len(univ.BoundaryInts))]
		node := univ.JSONNum(strconv.FormatInt(x, 10))
		neg, m := x < 0, uint64(x)
		if neg {
			m = uint64(-(x + 1)) + 1
		}
		sp := spellInt(r, neg, m)
		c02Expect(c, r, node, sp[r.Intn(len(sp))], "T", "json-number-integer")
		if x < math.MaxInt64 {
			c02Expect(c, r, node, strconv.FormatInt(x+1, 10), "F", "json-number-integer")
		}
		c02Expect(c, r, node, "1.0", "E", "json-number-integer-vs-float-literal")
	} else {
		x := univ.BoundaryFloats[r.Intn(len(univ.BoundaryFloats))] + 0.5
		txt := strconv.FormatFloat(x, 'f', -1, 64)
		if !strings.Contains(txt, ".") {
			txt += ".5"
			x, _ = strconv.ParseFloat(txt, 64)
		}
		node := univ.JSONNum(txt)
		c02Expect(c, r, node, strconv.FormatFloat(x, 'e', -1, 64), "T", "json-number-float")
		c02Expect(c, r, node, strconv.FormatFloat(math.Nextafter(x, math.Inf(1)), 'g', -1, 64), "F", "json-number-float")
	}
	// hand-built json.Numbers: a json.Number is a DECIMAL number (leading
	// zeros do not make it octal, a base prefix makes it no number at all)
	for _, hb := range []struct{ num, lit, want string }{
		{"010", "10", "T"}, {"010", "8", "F"}, {"-0017", "-17", "T"}, {"-0017", "-15", "F"}, {"0x10", "16", "E"}, {"0b11", "3", "E"}, {"00", "0", "T"}, {"007.50", "7.5", "T"}, {"+5", "5", "T"},
	} {
		if r.Intn(3) == 0 {
			c02Expect(c, r, univ.JSONNum(hb.num), hb.lit, hb.want, "json-number-spelling")
		}
	}
	c.Count("jsonnumber_cases")
}

func c02NonScalar(c *mon.Ctx, r *rand.Rand) {
	vals := []*univ.Node{univ.NilIface(), univ.IfaceSlice(univ.Int(1)), univ.IfaceMap("k", univ.Int(1)), univ.Struct(univ.StructOf(univ.Field{Name: "A", Type: univ.TInt}), univ.Int(1)),
		univ.Slice(univ.SliceOf(univ.TInt), univ.Int(1)), univ.NilPtr(univ.TInt), univ.Ptr(univ.Ptr(univ.Int(1))), univ.NilOf(univ.SliceOf(univ.TString)), univ.NilOf(univ.MapOf(univ.TString, univ.TInt)),
		{T: univ.ArrayOf(1, univ.TInt), Items: []*univ.Node{univ.Int(1)}}}
	v := vals[r.Intn(len(vals))]
	datum := univ.IfaceMap("X", v)
	if v.T.K == univ.KPtr || v.T.K == univ.KStruct || v.T.K == univ.KArray {
		datum = univ.Struct(univ.StructOf(univ.Field{Name: "X", Type: v.T}), v)
	}
	lit := []string{"1", "", "nil", "null", "[1]", "k", "0"}[r.Intn(7)]
	for _, op := range []string{"==", "!="} {
		ob := c02Eval(c, r, datum, "X", op, lit)
		if ob.cls != "E" {
			c.Violation(fmt.Sprintf("C02 %s non-scalar kind=%s got=%s", op, v.T.K, ob.cls), "equality against a non-scalar is not reported as an error", map[string]any{"expression": ob.text, "value": v.Describe(), "observed": ob.o.String()})
			return
		}
	}
	c.Count("nonscalar:" + v.T.K.String())
	c.Distinct("nonscalar|" + v.Describe() + "|" + lit)
}

// c02Coerce checks the exported Coerce* functions directly.
func c02Coerce(c *mon.Ctx, r *rand.Rand) {
	type res struct {
		v   interface{}
		err error
	}
	call := func(f func(string) (interface{}, error), s string) (out res, pan string) {
		o := mon.Try(func() { out.v, out.err = f(s) })
		return out, o.PanicVal
	}
	x := int64(r.Uint64())
	neg, m := x < 0, uint64(x)
	if neg {
		m = uint64(-(x + 1)) + 1
	}
	for _, sp := range spellInt(r, neg, m) {
		c.Evals(1)
		out, pan := call(bexpr.CoerceInt64, sp)
		if pan != "" || out.err != nil || out.v != interface{}(x) {
			c.Violation("C02 CoerceInt64 wrong", "CoerceInt64 did not read a valid spelling exactly", map[string]any{"literal": sp, "want": x, "got": fmt.Sprint(out.v), "err": fmt.Sprint(out.err), "panic": pan})
		}
	}
	u := r.Uint64()
	for _, sp := range spellUint(r, u) {
		c.Evals(1)
		out, pan := call(bexpr.CoerceUint64, sp)
		if pan != "" || out.err != nil || out.v != interface{}(u) {
			c.Violation("C02 CoerceUint64 wrong", "CoerceUint64 did not read a valid spelling exactly", map[string]any{"literal": sp, "want": u, "got": fmt.Sprint(out.v), "err": fmt.Sprint(out.err), "panic": pan})
		}
	}
	lo, hi, below, above := float32Witness(r)
	for _, w := range []struct {
		s    string
		want float32
	}{{below, lo}, {above, hi}} {
		c.Evals(1)
		out, pan := call(bexpr.CoerceFloat32, w.s)
		if pan != "" || out.err != nil || out.v != interface{}(w.want) {
			c.Violation("C02 CoerceFloat32 not-nearest", "CoerceFloat32 did not return the nearest float32", map[string]any{"literal": w.s, "want": w.want, "got": fmt.Sprint(out.v), "err": fmt.Sprint(out.err), "panic": pan})
		}
	}
	f := math.Float64frombits(r.Uint64()>>2 | 1<<61)
	if out, pan := call(bexpr.CoerceFloat64, strconv.FormatFloat(f, 'g', -1, 64)); pan != "" || out.err != nil || out.v != interface{}(f) {
		c.Violation("C02 CoerceFloat64 wrong", "CoerceFloat64 did not round-trip", map[string]any{"want": f, "got": fmt.Sprint(out.v), "err": fmt.Sprint(out.err)})
	}
	for _, s := range []string{"1", "t", "T", "TRUE", "true", "True"} {
		if out, pan := call(bexpr.CoerceBool, s); pan != "" || out.err != nil || out.v != interface{}(true) {
			c.Violation("C02 CoerceBool wrong", "CoerceBool rejected or misread a ParseBool spelling", map[string]any{"literal": s, "got": fmt.Sprint(out.v), "err": fmt.Sprint(out.err)})
		}
	}
	for _, bad := range []struct {
		f func(string) (interface{}, error)
		s string
		n string
	}{{bexpr.CoerceInt64, "9223372036854775808", "CoerceInt64"}, {bexpr.CoerceInt64, "1.0", "CoerceInt64"}, {bexpr.CoerceUint64, "-1", "CoerceUint64"}, {bexpr.CoerceUint64, "18446744073709551616", "CoerceUint64"},
		{bexpr.CoerceFloat32, "1e39", "CoerceFloat32"}, {bexpr.CoerceFloat64, "1e999", "CoerceFloat64"}, {bexpr.CoerceBool, "yes", "CoerceBool"}, {bexpr.CoerceInt64, "", "CoerceInt64"}, {bexpr.CoerceFloat64, "abc", "CoerceFloat64"}} {
		c.Evals(1)
		if out, pan := call(bad.f, bad.s); pan != "" || out.err == nil {
			c.Violation("C02 "+bad.n+" accepts-invalid", "a Coerce function accepted an invalid / out-of-range literal", map[string]any{"literal": bad.s, "got": fmt.Sprint(out.v), "panic": pan})
		}
	}
	c.Count("coerce_direct")
}

// pairs of numeric literals that collide under common 32-bit hashes
// (FNV-1a, FNV-1, Adler-32): anything that identifies a literal by such a
// hash instead of by its text confuses them. Evaluated one after the other in
// the same process.
var c02HashTwins = [][2]string{{"40189", "797186"}, {"40188", "797187"}, {"947356", "1061680"}, {"947357", "1061681"}, {"479599", "662382"}, {"479598", "662383"}, {"479199", "662782"},
	{"120", "201"}, {"121", "202"}, {"125", "206"}, {"82369", "gylya"}, {"947012", "10617.0"}}

func c02Twins(c *mon.Ctx, r *rand.Rand) {
	for _, p := range c02HashTwins {
		for _, order := range [][2]string{{p[0], p[1]}, {p[1], p[0]}} {
			for _, t := range []*univ.Type{univ.TInt64, univ.TInt, univ.TUint32, univ.TFloat64, univ.TString} {
				mk := func(lit string) (*univ.Node, bool) {
					switch {
					case t.K == univ.KString:
						return univ.Str(lit), true
					case t.K.IsFloat():
						f, err := strconv.ParseFloat(lit, 64)
						return univ.FloatOf(t, f), err == nil
					case t.K.IsUint():
						u, err := strconv.ParseUint(lit, 10, 32)
						return univ.UintOf(t, u), err == nil
					}
					i, err := strconv.ParseInt(lit, 10, 64)
					return univ.IntOf(t, i), err == nil
				}
				first, ok1 := mk(order[0])
				if !ok1 {
					continue
				}
				c02Expect(c, r, first, order[0], "T", "hash-twin-first")
				if second, ok2 := mk(order[1]); ok2 {
					c02Expect(c, r, second, order[1], "T", "hash-twin-second")
					c02Expect(c, r, first, order[1], "F", "hash-twin-second")
				} else {
					c02Expect(c, r, first, order[1], "E", "hash-twin-second-ill-typed")
				}
			}
		}
	}
	c.Count("hash_twin_rounds")
}

// c02SuffixTwins: in one process, a literal that is a number followed by
// the beginning of a type name ("7u", "7ui", "3in", "1f") against kind K, and
// the plain number against the kind whose name continues it ("7" against
// uint...). Anything remembered per (literal, kind) under a key built by
// plain concatenation would mix the two.
func c02SuffixTwins(c *mon.Ctx, r *rand.Rand) {
	signed := []*univ.Type{univ.TInt, univ.TInt8, univ.TInt16, univ.TInt32, univ.TInt64}
	unsigned := []*univ.Type{univ.TUint, univ.TUint8, univ.TUint16, univ.TUint32, univ.TUint64}
	d := int64(r.Intn(100))
	i := r.Intn(5)
	if r.Intn(2) == 0 {
		c02Expect(c, r, univ.IntOf(signed[i], d), fmt.Sprint(d)+"u", "E", "suffix-twin")
		c02Expect(c, r, univ.UintOf(unsigned[i], uint64(d)), fmt.Sprint(d), "T", "suffix-twin")
		c02Expect(c, r, univ.IntOf(signed[i], d), fmt.Sprint(d), "T", "suffix-twin")
	} else {
		c02Expect(c, r, univ.UintOf(unsigned[i], uint64(d)), fmt.Sprint(d), "T", "suffix-twin")
		c02Expect(c, r, univ.IntOf(signed[i], d), fmt.Sprint(d)+"u", "E", "suffix-twin")
		c02Expect(c, r, univ.UintOf(unsigned[i], uint64(d)), fmt.Sprint(d)+"u", "E", "suffix-twin")
	}
	c.Count("suffix_twin_rounds")
}

func c02Run(c *mon.Ctx, idx int) {
	r := c.RNG(idx)
	if idx%100 == 50 {
		c02SuffixTwins(c, r)
	}
	if idx%500 == 0 {
		c02Twins(c, r)
	}
	switch idx % 8 {
	case 0, 1:
		c02Ints(c, r)
	case 2:
		c02Uints(c, r)
	case 3:
		c02Bools(c, r)
	case 4:
		c02Strings(c, r)
	case 5:
		c02Floats(c, r)
	case 6:
		c02JSONNumber(c, r)
		c02NonScalar(c, r)
	case 7:
		c02Coerce(c, r)
		c02Floats(c, r)
	}
	if idx%997 == 0 {
		c.Sample(map[string]any{"case_family": []string{"ints", "ints", "uints", "bools", "strings", "floats", "json.Number+non-scalar", "Coerce*+floats"}[idx%8], "index": idx})
	}
}

func init() {
	mon.Register(&mon.Prop{
		ID: "C02", Level: "exploration",
		Rule:        "constructive oracle: a value x of a scalar kind (every int/uint width, float32/64, bool, string, named types, json.Number; boundary set + seeded random values) is put behind a representation (interface map, pointer, struct field, tagged *T field, typed map, list element); a literal is RENDERED FROM a chosen value y of the same kind in a random admissible spelling (decimal, 0x/0X/0o/0b/legacy-octal, underscores, +, ParseBool spellings, %g/%e/%x/%f floats; bare/quoted/backtick style) so the expected result of X == lit and X != lit is Go's own x == y; y is x itself, a neighbour, a value congruent modulo 2^width, a value beyond 2^53; float32 uses exact big.Rat decimals just below/above the midpoint of adjacent float32 values (double-rounding witnesses). invalid and out-of-range literals and equality against nil/slice/map/struct/array/**T must be errors. the exported Coerce* functions are also called directly. non-trivial = every case; distinct by (type, value, literal)",
		Assumptions: []string{"Go's native == on the value's own type is the definition of 'denotes the same value'; NaN is excluded"},
		NumCases:    func(tier string) int { return tierN(tier, 16000, 1000000) },
		Run:         c02Run,
		Required: func(tier string) []string {
			l := []string{"hash_twin_rounds", "suffix_twin_rounds", "int:spelling-equal", "int:wraparound-literal", "int:above-2^53", "uint:wraparound-literal", "uint:above-maxint64", "float32_midpoint_witnesses", "float64_cases", "jsonnumber_cases", "coerce_direct",
				"nonscalar:interface", "nonscalar:slice", "nonscalar:map", "nonscalar:struct", "nonscalar:ptr"}
			for _, k := range []string{"int", "int8", "int16", "int32", "int64", "uint", "uint8", "uint16", "uint32", "uint64", "float32", "float64", "bool", "string"} {
				l = append(l, "kind:"+k+"/T", "kind:"+k+"/F")
				if k != "string" {
					l = append(l, "kind:"+k+"/E")
				}
			}
			return l
		},
	})
}
