package props

import (
	"fmt"
	"strconv"
	"strings"

	"verif/internal/mon"
	"verif/internal/refsem"
	"verif/internal/univ"
	"verif/internal/xgen"
)

// C06 - any/all fold the body over the elements with correct binding, order
// and scoping.

// subst replaces, in e, every selector rooted at the value-binding `name` by
// the alias path; stops at inner quantifiers that rebind the name (their
// collection selector is still in the outer scope). ok=false when the body
// uses a binding this unrolling cannot express.
func subst(e xgen.Expr, name string, alias []string) (xgen.Expr, bool) {
	selSub := func(s xgen.Sel) xgen.Sel {
		if len(s.Parts) > 0 && s.Parts[0] == name {
			np := append(append([]string(nil), alias...), s.Parts[1:]...)
			return xgen.Sel{Parts: np, JSONPointer: s.JSONPointer && xgen.CanPointer(np)}
		}
		return s
	}
	switch n := e.(type) {
	case *xgen.Match:
		m := *n
		m.Sel = selSub(n.Sel)
		if !m.Sel.JSONPointer && !xgen.CanBexpr(m.Sel.Parts) {
			if !xgen.CanPointer(m.Sel.Parts) {
				return nil, false
			}
			m.Sel.JSONPointer = true
		}
		return &m, true
	case *xgen.Not:
		x, ok := subst(n.X, name, alias)
		return &xgen.Not{X: x}, ok
	case *xgen.And:
		l, ok1 := subst(n.L, name, alias)
		r, ok2 := subst(n.R, name, alias)
		return &xgen.And{L: l, R: r}, ok1 && ok2
	case *xgen.Or:
		l, ok1 := subst(n.L, name, alias)
		r, ok2 := subst(n.R, name, alias)
		return &xgen.Or{L: l, R: r}, ok1 && ok2
	case *xgen.Quant:
		q := *n
		q.Sel = selSub(n.Sel)
		if !q.Sel.JSONPointer && !xgen.CanBexpr(q.Sel.Parts) {
			if !xgen.CanPointer(q.Sel.Parts) {
				return nil, false
			}
			q.Sel.JSONPointer = true
		}
		rebinds := false
		switch n.Mode {
		case xgen.BindDefault, xgen.BindIndex:
			rebinds = n.Name == name
		case xgen.BindValue:
			rebinds = n.Name2 == name
		case xgen.BindIndexValue:
			rebinds = n.Name == name || n.Name2 == name
		}
		if rebinds {
			return &q, true
		}
		b, ok := subst(n.Body, name, alias)
		q.Body = b
		return &q, ok
	}
	return e, true
}

// boundNames collects the names bound by quantifiers inside e.
func boundNames(e xgen.Expr) map[string]bool {
	out := map[string]bool{}
	var rec func(e xgen.Expr)
	rec = func(e xgen.Expr) {
		switch n := e.(type) {
		case *xgen.Not:
			rec(n.X)
		case *xgen.And:
			rec(n.L)
			rec(n.R)
		case *xgen.Or:
			rec(n.L)
			rec(n.R)
		case *xgen.Quant:
			if n.Name != "" {
				out[n.Name] = true
			}
			if n.Name2 != "" {
				out[n.Name2] = true
			}
			rec(n.Body)
		}
	}
	rec(e)
	return out
}

// usesName reports whether the body refers to a (key/index) binding name.
func usesName(e xgen.Expr, name string) bool {
	if name == "" {
		return false
	}
	switch n := e.(type) {
	case *xgen.Match:
		return len(n.Sel.Parts) > 0 && n.Sel.Parts[0] == name
	case *xgen.Not:
		return usesName(n.X, name)
	case *xgen.And:
		return usesName(n.L, name) || usesName(n.R, name)
	case *xgen.Or:
		return usesName(n.L, name) || usesName(n.R, name)
	case *xgen.Quant:
		if len(n.Sel.Parts) > 0 && n.Sel.Parts[0] == name {
			return true
		}
		return usesName(n.Body, name)
	}
	return false
}

func c06Run(c *mon.Ctx, idx int) {
	r := c.RNG(idx)
	node, opt := drawDatum(c, idx, r)
	opt.Unknown = nil
	g := newEgen(r, node, opt)
	g.pQuant, g.pBroken = 0.7, 0.2
	for k := 0; k < 4; k++ {
		e := g.quant(1+r.Intn(3), 0)
		q, ok := e.(*xgen.Quant)
		if !ok {
			continue
		}
		ec := &evalCase{Expr: q, Text: (&xgen.Renderer{R: r}).Render(q), Datum: node, Opt: opt}
		cls, allowed := checkAgainstReference(c, "C06", ec, "quantifier-workload")
		if cls == "" {
			continue
		}
		collKind := "other"
		var coll *univ.Node
		for _, p := range refsem.Paths(node, opt, 4) {
			if fmt.Sprint(p.Path) == fmt.Sprint(q.Sel.Parts) {
				coll = collOf(p.Val)
			}
		}
		if coll != nil {
			collKind = coll.T.K.String()
		}
		c.Count(fmt.Sprintf("mode:%d/%s", q.Mode, collKind))
		if allowed.Unspec == "" {
			c.Count("quant-outcome:" + cls)
			c.Distinct(xgen.Canon(q) + "|" + node.Shape())
		}
		if _, nested := q.Body.(*xgen.Quant); nested {
			c.Count("nested_quantifier")
		}
		// unrolling: lists, value alias (the index name must be unused)
		if coll == nil || coll.T.K == univ.KMap {
			if coll != nil && len(coll.Items) == 0 {
				c.Count("empty_map")
			}
			continue
		}
		var valueName, indexName string
		switch q.Mode {
		case xgen.BindDefault:
			valueName = q.Name
		case xgen.BindValue:
			valueName = q.Name2
		case xgen.BindIndexValue:
			valueName, indexName = q.Name2, q.Name
		case xgen.BindIndex:
			indexName = q.Name
		}
		if boundNames(q.Body)[q.Sel.Parts[0]] {
			// substituting the alias would be captured by an inner binding
			c.Count("unroll_skipped_capture")
			continue
		}
		if usesName(q.Body, indexName) || (q.Mode == xgen.BindIndexValue && q.Name == q.Name2) {
			c.Count("unroll_skipped_index_used")
			continue
		}
		n := len(coll.Items)
		dflt := "F"
		if q.All {
			dflt = "T"
		}
		if n == 0 {
			c.Count("empty_list")
			if cls != dflt {
				c.Violation(fmt.Sprintf("C06 empty-collection all=%v got=%s", q.All, cls), "quantifier over an empty list is not the documented constant", map[string]any{"expression": clip(ec.Text, 300), "datum": clip(node.Describe(), 800)})
			}
			continue
		}
		var chain xgen.Expr
		okAll := true
		for i := n - 1; i >= 0; i-- {
			body := q.Body
			if valueName != "" {
				alias := append(append([]string(nil), q.Sel.Parts...), strconv.Itoa(i))
				b, ok := subst(q.Body, valueName, alias)
				if !ok {
					okAll = false
					break
				}
				body = b
			}
			if chain == nil {
				chain = body
			} else if q.All {
				chain = &xgen.And{L: body, R: chain}
			} else {
				chain = &xgen.Or{L: body, R: chain}
			}
		}
		if !okAll {
			c.Count("unroll_skipped_unspellable")
			continue
		}
		if a := refsem.Eval(chain, node, opt); a.Unspec != "" || !a.Single() {
			c.Count("unroll_skipped_unspecified")
			continue
		}
		uo, utxt, ok := evalText(chain, r, node, opt)
		c.Evals(1)
		if !ok {
			c.Count("unroll_unparsed")
			continue
		}
		if uo.Class3() != cls {
			c.Violation(fmt.Sprintf("C06 unrolled-differs all=%v mode=%d quant=%s chain=%s n=%d", q.All, q.Mode, cls, uo.Class3(), n), "the quantifier does not equal its unrolled or/and chain",
				map[string]any{"quantifier": clip(ec.Text, 400), "unrolled": clip(utxt, 600), "datum": clip(node.Describe(), 1200), "quantifier_outcome": cls, "chain_outcome": uo.String()})
		}
		c.Count("unrolled_compared")
		c.Count(fmt.Sprintf("unrolled:%s/n=%d", cls, min(n, 4)))
		if idx%1201 == 0 {
			c.Sample(map[string]any{"quantifier": clip(ec.Text, 200), "unrolled": clip(utxt, 300), "outcome": cls})
		}
	}
	c06Fixed(c, idx, r)
}

func min(a, b int) int {
	if a < b {
		return a
	}
	return b
}

// c06Fixed: hand-made scoping / order cases on fixed data, checked against
// the reference AND against the statement's equations.
type c06Case struct {
	expr string
	want string
}

var c06Data = func() *univ.Node {
	obj := func(kv ...interface{}) *univ.Node { return univ.IfaceMap(kv...) }
	return obj(
		"l", univ.IfaceSlice(univ.Int(1), univ.Int(2), univ.Int(3)),
		"e", univ.IfaceSlice(),
		"x", univ.Str("top"),
		"s", univ.Slice(univ.SliceOf(univ.TString), univ.Str("a"), univ.Str("b")),
		"arr", &univ.Node{T: univ.ArrayOf(2, univ.TInt), Items: []*univ.Node{univ.Int(7), univ.Int(8)}},
		"m", obj("a", univ.Int(1), "b", univ.Int(2)),
		"em", obj(),
		"objs", univ.IfaceSlice(obj("f", univ.Int(1), "t", univ.IfaceSlice(univ.Str("p"))), obj("f", univ.Int(2), "t", univ.IfaceSlice(univ.Str("q"), univ.Str("r")))),
		"mix", univ.IfaceSlice(univ.Int(1), univ.IfaceSlice(), univ.Int(3)),
		"im", univ.MapNode(univ.MapOf(univ.TInt, univ.TString), []*univ.Node{univ.Int(1)}, []*univ.Node{univ.Str("a")}),
		"n", univ.Int(5),
		"big", univ.IfaceSlice(univ.Int(0), univ.Int(1), univ.Int(2), univ.Int(3), univ.Int(4), univ.Int(5), univ.Int(6), univ.Int(7), univ.Int(8), univ.Int(9), univ.Int(10), univ.Int(11), univ.Int(12)),
		"bigmix", univ.IfaceSlice(univ.Int(0), univ.Int(1), univ.Int(2), univ.Int(3), univ.Int(4), univ.Int(5), univ.Int(6), univ.Int(7), univ.Int(8), univ.Int(9), univ.IfaceSlice(), univ.Int(99)),
		"pl", univ.Slice(univ.SliceOf(univ.PtrTo(univ.TInt)), univ.Ptr(univ.Int(7)), univ.NilPtr(univ.TInt), univ.Ptr(univ.Int(7))),
		"npl", univ.Slice(univ.SliceOf(univ.PtrTo(univ.TInt)), univ.NilPtr(univ.TInt)),
		"eim", univ.MapNode(univ.MapOf(univ.TInt, univ.TString), nil, nil),
		"nbm", univ.NilOf(univ.MapOf(univ.TBool, univ.TInt)),
		"eifm", univ.MapNode(univ.MapOf(univ.TIface, univ.TInt), nil, nil),
		"ppm", univ.Ptr(univ.Ptr(univ.IfaceMap("a", univ.IfaceSlice(univ.Int(1))))),
		"pppm", univ.Ptr(univ.Ptr(univ.Ptr(univ.MapNode(univ.MapOf(univ.TString, univ.SliceOf(univ.TInt)), []*univ.Node{univ.Str("a")}, []*univ.Node{univ.Slice(univ.SliceOf(univ.TInt), univ.Int(1))})))),
		"lppm", univ.IfaceSlice(univ.Ptr(univ.Ptr(univ.IfaceMap("a", univ.IfaceSlice(univ.Int(1)))))),
		"holder", univ.IfaceSlice(univ.IfaceMap("byid", univ.MapNode(univ.MapOf(univ.TInt, univ.TString), nil, nil))),
	)
}()

var c06Cases = []c06Case{
	{`any l as v { v == 2 }`, "T"}, {`all l as v { v == 2 }`, "F"}, {`any l as v { v == 9 }`, "F"}, {`all l as v { v != 9 }`, "T"},
	{`any e as v { v == 1 }`, "F"}, {`all e as v { v == 1 }`, "T"}, {`any em as k { k == "a" }`, "F"}, {`all em as k { k == "a" }`, "T"},
	{`any zz.y as v { v == 1 }`, "E"}, {`any m.zz as v { v == 1 }`, "F"}, {`all m.zz as v { v == 1 }`, "T"},
	{`any l as i, v { i == 1 and v == 2 }`, "T"}, {`any l as i, v { i == 2 and v == 2 }`, "F"}, {`all l as i, _ { i != 3 }`, "T"}, {`any l as _, v { v == 3 }`, "T"},
	{`any m as k { k == "b" }`, "T"}, {`any m as k { k == 2 }`, "F"}, {`any m as k, v { k == "b" and v == 2 }`, "T"}, {`all m as _, v { v != 3 }`, "T"}, {`any m as k, _ { k == "a" }`, "T"},
	{`any s as v { v == "b" }`, "T"}, {`any arr as v { v == 8 }`, "T"}, {`all arr as i, v { v != 1 and i != 2 }`, "T"},
	{`any objs as o { o.f == 2 }`, "T"}, {`any objs as o { "/o/f" == 2 }`, "T"}, {`all objs as o { o.f != 3 }`, "T"}, {`any objs as o { any o.t as t { t == "r" } }`, "T"},
	{`any objs as o { all o.t as t { t == "p" } }`, "T"}, {`all objs as o { any o.t as t { t == "p" } }`, "F"},
	{`(any objs as x { x.f == 1 }) and x == "top"`, "T"}, {`(any l as x { x == 1 }) and x == "top"`, "T"}, {`x == "top" and (any l as x { x == 3 })`, "T"}, {`x == "top" or any l as x { x == 9 }`, "T"},
	{`any objs as o { any o.t as o { o == "q" } }`, "T"}, {`any objs as o { (any o.t as o { o == "q" }) and o.f == 2 }`, "T"},
	{`any l as i, v { i.x == 1 }`, "E"}, {`any m as k { k.x == 1 }`, "E"}, {`any n as v { v == 5 }`, "E"}, {`all x as v { v == "t" }`, "E"}, {`any im as k { k == 1 }`, "E"},
	{`any mix as v { v == 1 }`, "T"}, {`any mix as v { v == 3 }`, "E"}, {`all mix as v { v == 1 }`, "E"}, {`all mix as v { v == 0 }`, "F"}, {`any l as v { v == 1 or zz == 1 }`, "T"}, {`all l as v { v == 1 and zz == 1 }`, "E"},
	{`any eim as k { k == 1 }`, "E"}, {`all eim as k, v { v == "x" }`, "E"}, {`all nbm as k { k == true }`, "E"}, {`any nbm as _, v { v == 1 }`, "E"}, {`all eifm as k { k == "a" }`, "E"},
	{`all holder as h { all h.byid as k, _ { k == 1 } }`, "E"}, {`any holder as h { any h.byid as k { k == 1 } }`, "E"},
	{`any big as i, x { i == 10 and x == 10 }`, "T"}, {`any big as i, x { i == 2 and x == 10 }`, "F"}, {`all big as i, x { i != 10 or x == 10 }`, "T"}, {`all big as i, x { i != 12 or x == 12 }`, "T"},
	{`any big as i, x { i == 11 and x == 2 }`, "F"}, {`any bigmix as x { x == 99 }`, "E"}, {`any bigmix as x { x == 9 }`, "T"}, {`all bigmix as x { x != 9 }`, "F"}, {`all bigmix as x { x != 99 }`, "E"},
	{`any pl as i, _ { i == 1 }`, "T"}, {`all pl as x { x == 7 }`, "E"}, {`any npl as x { n == 5 }`, "T"}, {`all npl as i, _ { i == 0 }`, "T"}, {`any pl as x { x == 7 }`, "T"}, {`all pl as i, x { i != 1 }`, "F"},
	{`any m as x, _ { any l as x { x == 3 } }`, "T"}, {`any l as x, _ { any m as _, x { x == 2 } }`, "T"}, {`any m as x { any s as x { x == "b" } }`, "T"}, {`any l as x, _ { any s as x { x == 0 } }`, "F"},
	{`any ppm.a as v { v == 1 }`, "T"}, {`any ppm.zz as v { v == 1 }`, "F"}, {`all ppm.zz as v { v == 1 }`, "T"}, {`any pppm.zz as v { v == 1 }`, "F"}, {`all pppm.zz as i, v { v == 1 }`, "T"}, {`all pppm.a as v { v == 1 }`, "T"},
	{`all lppm as g { all g.zz as t { t == 1 } }`, "T"}, {`any lppm as g { any g.zz as t { t == 1 } }`, "F"}, {`any lppm as g { any g.a as t { t == 1 } }`, "T"},
	{`any l as v { l.0 == 1 }`, "T"}, {`all l as v { x == "top" }`, "T"}, {`any l as x { any l as y { x == 1 and y == 3 } }`, "T"},
}

// c06Deep: quantifiers nested 5..24 deep (two names per level, so up to 48
// bindings in scope), each inner one re-binding the value name of the outer
// one and ranging over it: `any x as i1, x { any x as i2, x { ... x == 1 } }`.
// Innermost bindings shadow; every index name stays visible.
func c06Deep(c *mon.Ctx, idx int) {
	depth := []int{5, 8, 9, 10, 12, 16, 17, 18, 24}[idx%9]
	var cur interface{} = 1
	for i := 0; i < depth; i++ {
		cur = []interface{}{cur}
	}
	datum := map[string]interface{}{"x": cur, "top": "t"}
	build := func(leaf string, kind string) string {
		var sb strings.Builder
		for i := 1; i <= depth; i++ {
			fmt.Fprintf(&sb, "%s x as i%d, x { ", kind, i)
		}
		sb.WriteString(leaf + strings.Repeat(" }", depth))
		return sb.String()
	}
	cases := []c06Case{
		{build("x == 1", "any"), "T"}, {build("x != 1", "all"), "F"}, {build("x == 1 and i1 == 0 and i"+fmt.Sprint(depth)+" == 0", "any"), "T"}, {build("x == 2 or top == t", "all"), "T"},
		{build("x == 1 and i"+fmt.Sprint(depth/2)+" == 1", "any"), "F"}, {build("x.y == 1", "any"), "E"}, {build(`"/x" == 1`, "any"), "T"},
	}
	// the same with a top-level field named like the re-bound value name shadowed throughout
	for _, cs := range cases {
		ev, err, pan, _ := createEval(cs.expr)
		c.Evals(1)
		if pan != "" || err != nil {
			c.Violation("C06 fixed-case-rejected", "a deeply nested quantifier expression was rejected", map[string]any{"expression": clip(cs.expr, 300), "error": fmt.Sprint(err) + pan})
			return
		}
		if o := evaluate(ev, datum); o.Class3() != cs.want {
			c.Violation(fmt.Sprintf("C06 deep-nesting got=%s want=%s depth=%d", o.Class3(), cs.want, depth), "quantifiers nested deep, each re-binding the outer value name, do not give the outcome the statement prescribes", map[string]any{"expression": clip(cs.expr, 400), "nesting": depth, "observed": o.String(), "expected": cs.want})
			return
		}
	}
	c.Count("deep_nesting_cases")
}

// c06NameTwins: pairs of different identifiers of equal length with equal
// 32-bit FNV-1a / FNV-1 hashes (found by search). A binding named by one must
// never capture the other, as a field or as another binding.
var c06HashTwins = [][2]string{{"glbvs", "yacxa"}, {"khmtmq", "pcsump"}, {"idynzs", "ynegdn"}, {"xotmoz", "tejrrn"}, {"mkyxjm", "svreec"}}

func c06NameTwins(c *mon.Ctx, idx int) {
	tw := c06HashTwins[idx%len(c06HashTwins)]
	a, b := tw[0], tw[1]
	if (idx/len(c06HashTwins))%2 == 1 {
		a, b = b, a
	}
	datum := map[string]interface{}{"items": []interface{}{map[string]interface{}{"k": 1}, map[string]interface{}{"k": 2}}, a: 7, b: 8, "m": map[string]interface{}{a: 1, b: 2}}
	rep := func(t string) string { return strings.ReplaceAll(strings.ReplaceAll(t, "AAA", a), "BBB", b) }
	cases := []c06Case{
		{rep(`any items as AAA { BBB == 8 }`), "T"}, {rep(`all items as AAA { BBB == 8 and AAA.k != 8 }`), "T"}, {rep(`any items as AAA { BBB.k == 1 }`), "E"},
		{rep(`any items as AAA { any items as BBB { AAA.k == 1 and BBB.k == 2 } }`), "T"}, {rep(`any items as AAA { all items as BBB { AAA.k == 1 or BBB.k == 9 } }`), "T"},
		{rep(`any items as i, AAA { BBB == 8 and AAA.k == 2 and i == 1 }`), "T"}, {rep(`any m as AAA, BBB { AAA == "BBB" and BBB == 2 }`), "T"}, {rep(`any m as AAA { AAA == "BBB" and BBB == 8 }`), "T"},
		{rep(`(any items as AAA { AAA.k == 1 }) and AAA == 7 and BBB == 8`), "T"},
	}
	for _, cs := range cases {
		ev, err, pan, _ := createEval(cs.expr)
		c.Evals(1)
		if pan != "" || err != nil {
			c.Violation("C06 fixed-case-rejected", "a quantifier expression was rejected", map[string]any{"expression": cs.expr, "error": fmt.Sprint(err) + pan})
			return
		}
		if o := evaluate(ev, datum); o.Class3() != cs.want {
			c.Violation(fmt.Sprintf("C06 name-twins got=%s want=%s", o.Class3(), cs.want), "a binding captured (or was shadowed by) a DIFFERENT name of the same length and 32-bit hash", map[string]any{"expression": cs.expr, "names": []string{a, b}, "observed": o.String(), "expected": cs.want})
			return
		}
	}
	c.Count("name_twin_cases")
}

func c06Fixed(c *mon.Ctx, idx int, r interface{ Intn(int) int }) {
	if idx%100 == 37 {
		c06Deep(c, idx/100)
	}
	if idx%100 == 38 {
		c06NameTwins(c, idx/100)
	}
	cs := c06Cases[idx%len(c06Cases)]
	c.Evals(1)
	ev, err, pan, _ := createEval(cs.expr)
	if pan != "" || err != nil {
		c.Violation("C06 fixed-case-rejected", "a fixed quantifier expression was rejected", map[string]any{"expression": cs.expr, "error": fmt.Sprint(err) + pan})
		return
	}
	o := evaluate(ev, c06Data.Datum())
	if got := o.Class3(); got != cs.want {
		c.Violation(fmt.Sprintf("C06 fixed-case got=%s want=%s expr=%s", got, cs.want, cs.expr), "a fixed binding / order / scoping case differs from the statement", map[string]any{"expression": cs.expr, "observed": o.String(), "expected": cs.want, "datum": clip(c06Data.Describe(), 900)})
	}
	c.Count("fixed_cases")
}

func init() {
	mon.Register(&mon.Prop{
		ID: "C06", Level: "exploration",
		Rule:        "per case a seeded document/representation and 4 datum-directed quantifiers (collections of every shape found in the datum: slices, arrays, []interface{}, typed and interface maps, length 0..4; all four binding modes; bodies that use the binding as root, as prefix, through a JSON Pointer, shadowed by an inner quantifier of the same name, shadowing a top-level field, or not at all; nesting<=3; non-iterable and absent targets). oracle (a) the reference semantics (set-valued for maps); (b) relational unrolling for lists: `any S as x {P(x)}` must equal the separately evaluated chain `P(S.0) or P(S.1) or ...` (all: and) built by syntactic substitution - same short-circuit, so index order, early exit and unreported later errors are all visible; (c) 74 fixed scoping/order/precondition cases (incl. 12- and 13-element lists: index order is numeric) with outcomes taken from the statement. non-trivial = quantifier evaluated with a determined outcome; distinct by (canonical expression, datum shape)",
		Assumptions: []string{"unrolling is applied when the body does not use the index/key name (a position is not a path and cannot be substituted)", "map iteration order is not specified by this property: for maps only membership in the reference's allowed set is checked (determinism is C14)"},
		NumCases:    func(tier string) int { return tierN(tier, 6000, 300000) },
		Run:         c06Run,
		Required: func(tier string) []string {
			l := []string{"unrolled_compared", "fixed_cases", "deep_nesting_cases", "name_twin_cases", "nested_quantifier", "empty_list", "quant-outcome:T", "quant-outcome:F", "quant-outcome:E", "unrolled:T/n=3", "unrolled:F/n=3", "unrolled:E/n=2"}
			for m := 0; m < 4; m++ {
				l = append(l, fmt.Sprintf("mode:%d/slice", m), fmt.Sprintf("mode:%d/map", m))
			}
			return l
		},
	})
}
