package props

import (
	"math/rand"
	"regexp"
	"strconv"
	"strings"

	"verif/internal/refsem"
	"verif/internal/univ"
	"verif/internal/xgen"
)

// Datum-directed expression generator: paths are picked from the datum's own
// shape so that evaluation reaches the operators, with controlled
// probabilities of broken paths and ill-typed literals.

type egRoot struct {
	prefix []string   // selector prefix (binding name), nil for the datum
	node   *univ.Node // what the prefix denotes (an element, or a key/index value)
	scalar bool       // key / index binding: cannot be stepped into
}

type egen struct {
	r     *rand.Rand
	datum *univ.Node
	opt   *refsem.Options
	roots []egRoot
	// knobs
	pBroken   float64
	pQuant    float64
	maxQDepth int
	names     []string
}

func newEgen(r *rand.Rand, datum *univ.Node, opt *refsem.Options) *egen {
	return &egen{r: r, datum: datum, opt: opt, roots: []egRoot{{node: datum}}, pBroken: 0.25, pQuant: 0.25, maxQDepth: 3,
		names: []string{"x", "v", "k", "i", "item", "e", "a", "name", "tags"}}
}

func (g *egen) pathsOf(root egRoot) []refsem.PathInfo {
	if root.scalar {
		return nil
	}
	return refsem.Paths(root.node, g.opt, 3)
}

// selFor builds a selector for the full path; ok=false if no spelling exists.
func (g *egen) selFor(parts []string) (xgen.Sel, bool) {
	canB, canP := xgen.CanBexpr(parts), xgen.CanPointer(parts)
	switch {
	case canB && canP:
		if g.r.Intn(3) == 0 {
			return xgen.Sel{Parts: parts, JSONPointer: true}, true
		}
	case canP:
		return xgen.Sel{Parts: parts, JSONPointer: true}, true
	case !canB:
		return xgen.Sel{}, false
	}
	sp := make([]int, len(parts))
	for i := range sp {
		sp[i] = g.r.Intn(3)
	}
	return xgen.Sel{Parts: parts, Spell: sp}, true
}

var brokenParts = []string{"zz", "missing", "Zz", "99", "0", "-1", "x", "", "1e3", "01", "08", "010", "0x2", "1_0", "007", "011"}

// pickPath returns a path (full selector parts) and the node it resolves to
// (nil if broken or unknown).
func (g *egen) pickPath() ([]string, *univ.Node, string) {
	root := g.roots[g.r.Intn(len(g.roots))]
	if len(g.roots) > 1 && g.r.Intn(2) == 0 {
		root = g.roots[len(g.roots)-1-g.r.Intn(len(g.roots)-1)] // prefer bindings
	}
	if root.scalar {
		if g.r.Float64() < 0.15 {
			return append(append([]string(nil), root.prefix...), "x"), nil, "step-into-binding"
		}
		return append([]string(nil), root.prefix...), root.node, "binding"
	}
	paths := g.pathsOf(root)
	var rel []string
	var val *univ.Node
	kind := "resolving"
	if len(paths) > 0 {
		p := paths[g.r.Intn(len(paths))]
		rel, val = p.Path, p.Val
	}
	if root.prefix != nil && g.r.Intn(3) == 0 {
		rel, val = nil, root.node // the alias itself
	}
	if g.r.Float64() < g.pBroken {
		val = nil
		switch g.r.Intn(6) {
		case 0: // absent leaf (append)
			rel = append(append([]string(nil), rel...), brokenParts[g.r.Intn(len(brokenParts))])
			kind = "absent-leaf"
		case 1: // absent leaf (replace)
			if len(rel) > 0 {
				rel = append(append([]string(nil), rel[:len(rel)-1]...), brokenParts[g.r.Intn(3)])
			} else {
				rel = []string{"zz"}
			}
			kind = "absent-leaf"
		case 2: // absent intermediate
			if len(rel) > 0 {
				i := g.r.Intn(len(rel))
				rel = append(append(append([]string(nil), rel[:i]...), "zz"), rel[i:]...)
			} else {
				rel = []string{"zz", "yy"}
			}
			kind = "absent-intermediate"
		case 3: // absent root
			rel = []string{"nosuch"}
			if g.r.Intn(2) == 0 {
				rel = append(rel, "k")
			}
			kind = "absent-root"
		case 4: // deeper than the value
			rel = append(append([]string(nil), rel...), "deep", "er")
			kind = "too-deep"
		case 5: // hidden / unexported field by Go name
			if h := g.hiddenName(root.node); h != nil {
				rel = h
				kind = "hidden-field"
			} else {
				rel = append(append([]string(nil), rel...), "Hidden0")
				kind = "absent-leaf"
			}
		}
	}
	full := append(append([]string(nil), root.prefix...), rel...)
	if len(full) == 0 {
		full = []string{"a"}
	}
	return full, val, kind
}

// hiddenName finds a path to a struct with a hidden or unexported field and
// returns the path naming that field by its Go name.
func (g *egen) hiddenName(root *univ.Node) []string {
	paths := append([]refsem.PathInfo{{Path: nil, Val: root}}, refsem.Paths(root, g.opt, 3)...)
	g.r.Shuffle(len(paths), func(i, j int) { paths[i], paths[j] = paths[j], paths[i] })
	for _, p := range paths {
		n := refsem.Through(p.Val)
		if n == nil || n.T.K != univ.KStruct {
			continue
		}
		for _, f := range n.T.Fields {
			if f.Unexported || strings.Contains(f.Tag, `"-"`) {
				return append(append([]string(nil), p.Path...), f.Name)
			}
		}
	}
	return nil
}

var illTyped = []string{"abc", "", "1.5", "-1", "99999999999999999999", "1e999", "true", "0x1g", "nope", " 1", "1 "}

// literalFor chooses a literal for operator op applied to a value.
func (g *egen) literalFor(op xgen.Op, val *univ.Node) *xgen.Lit {
	v := refsem.Operand(val)
	mk := func(s string) *xgen.Lit {
		sts := xgen.StylesFor(s)
		return &xgen.Lit{S: s, Style: sts[g.r.Intn(len(sts))]}
	}
	rnd := func() *xgen.Lit {
		switch g.r.Intn(4) {
		case 0:
			return mk(univ.BoundaryStrings[g.r.Intn(len(univ.BoundaryStrings))])
		case 1:
			return mk(strconv.FormatInt(univ.BoundaryInts[g.r.Intn(len(univ.BoundaryInts))], 10))
		case 2:
			return mk(illTyped[g.r.Intn(len(illTyped))])
		}
		return mk(strconv.Itoa(g.r.Intn(12) - 2))
	}
	if v == nil {
		return rnd()
	}
	scalarLit := func(n *univ.Node) *xgen.Lit {
		n = derefNode(n)
		if n != nil && n.T.Named == "JSONNumber" {
			return mk(n.S)
		}
		if s, ok := univ.RenderScalar(n); ok {
			switch g.r.Intn(10) {
			case 1: // spellings that a careless reading gets wrong
				if n.T.K.IsInt() || n.T.K.IsUint() {
					v := n.I
					if n.T.K.IsUint() {
						v = int64(n.U)
					}
					switch g.r.Intn(3) {
					case 0: // congruent modulo 2^width: a different number
						if n.T.K.Bits() < 64 {
							return mk(strconv.FormatInt(v+(int64(1)<<uint(n.T.K.Bits())), 10))
						}
					case 1: // legacy octal / leading zero
						if v >= 0 {
							return mk("0" + strconv.FormatInt(v, 8))
						}
					case 2:
						if v >= 0 {
							return mk("0" + strconv.FormatInt(v, 10)) // base 8 reading, or invalid
						}
					}
				}
			case 0: // alternative spellings
				if n.T.K.IsInt() && n.I >= 0 {
					return mk("0x" + strconv.FormatInt(n.I, 16))
				}
				if n.T.K == univ.KBool {
					if n.B {
						return mk([]string{"1", "t", "T", "TRUE", "True"}[g.r.Intn(5)])
					}
					return mk([]string{"0", "f", "F", "FALSE", "False"}[g.r.Intn(5)])
				}
				if n.T.K.IsFloat() {
					return mk(strconv.FormatFloat(n.F, 'e', -1, 64))
				}
			}
			return mk(s)
		}
		return rnd()
	}
	switch xgen.Op(op &^ 1) {
	case xgen.OpEq:
		switch g.r.Intn(5) {
		case 0, 1, 2:
			return scalarLit(v)
		case 3:
			return rnd()
		}
		return mk(illTyped[g.r.Intn(len(illTyped))])
	case xgen.OpIn:
		switch v.T.K {
		case univ.KSlice, univ.KArray:
			if len(v.Items) > 0 && g.r.Intn(3) > 0 {
				it := v.Items[g.r.Intn(len(v.Items))]
				for it != nil && it.T.K == univ.KIface && !it.Nil {
					it = it.Elem
				}
				return scalarLit(it)
			}
		case univ.KMap:
			if len(v.Keys) > 0 && g.r.Intn(3) > 0 {
				return scalarLit(v.Keys[g.r.Intn(len(v.Keys))])
			}
		case univ.KString:
			if len(v.S) > 0 && g.r.Intn(3) > 0 {
				i := g.r.Intn(len(v.S))
				j := i + g.r.Intn(len(v.S)-i+1)
				return mk(v.S[i:j])
			}
		}
		return rnd()
	case xgen.OpMatches:
		s := ""
		switch {
		case v.T.K == univ.KString:
			s = v.S
		case v.T.K == univ.KSlice && v.T.Elem.K == univ.KUint8:
			for _, it := range v.Items {
				s += string(rune(it.U))
			}
		}
		switch g.r.Intn(8) {
		case 6: // inline flags, quoting
			return mk([]string{"(?i)^" + regexp.QuoteMeta(strings.ToUpper(s)) + "$", "(?i)^abc$", "(?s)^.*$", "(?m)^a", "(?U)a+", `\Qa.b`, "(?i:A)", "(?-i)a", "(?i)" + regexp.QuoteMeta(s)}[g.r.Intn(9)])
		case 7:
			return mk([]string{"^abc$", "^def$", "b", "^$", "a|b", "[[:upper:]]", `\x61`, `\pL+`}[g.r.Intn(8)])
		case 0:
			return mk("(") // bad pattern
		case 1:
			return mk("[a-z")
		case 2:
			return mk(".*")
		case 3:
			return mk("^" + regexp.QuoteMeta(s) + "$")
		case 4:
			if len(s) > 1 {
				return mk("^" + regexp.QuoteMeta(s[:len(s)/2]))
			}
			return mk("^$")
		}
		return mk("^[a-z0-9]+$")
	}
	return rnd()
}

func derefNode(n *univ.Node) *univ.Node {
	for n != nil && (n.T.K == univ.KPtr || n.T.K == univ.KIface) {
		if n.Nil {
			return nil
		}
		n = n.Elem
	}
	return n
}

func (g *egen) match() *xgen.Match {
	for try := 0; try < 20; try++ {
		parts, val, _ := g.pickPath()
		sel, ok := g.selFor(parts)
		if !ok {
			continue
		}
		op := xgen.Op(g.r.Intn(8))
		// bias the operator towards what the value supports
		if v := refsem.Operand(val); v != nil && g.r.Intn(3) > 0 {
			switch v.T.K {
			case univ.KSlice, univ.KArray, univ.KMap:
				op = []xgen.Op{xgen.OpIn, xgen.OpNotIn, xgen.OpEmpty, xgen.OpNotEmpty}[g.r.Intn(4)]
				if v.T.Elem.K == univ.KUint8 {
					op = []xgen.Op{xgen.OpMatches, xgen.OpNotMatches, xgen.OpIn, xgen.OpEmpty}[g.r.Intn(4)]
				}
			case univ.KString:
				op = xgen.Op(g.r.Intn(8))
			default:
				if v.T.K.IsScalar() {
					op = []xgen.Op{xgen.OpEq, xgen.OpNe, xgen.OpEq, xgen.OpIn, xgen.OpEmpty, xgen.OpMatches}[g.r.Intn(6)]
				}
			}
		}
		m := &xgen.Match{Sel: sel, Op: op}
		if op.HasValue() {
			m.Lit = g.literalFor(op, val)
		}
		if op == xgen.OpIn || op == xgen.OpNotIn {
			m.Contains = g.r.Intn(2) == 0
		}
		return m
	}
	return &xgen.Match{Sel: xgen.Sel{Parts: []string{"a"}}, Op: xgen.OpEmpty}
}

// quant builds a quantifier over a collection found in the datum.
func (g *egen) quant(depth, qdepth int) xgen.Expr {
	type cand struct {
		parts []string
		coll  *univ.Node
	}
	var cands []cand
	for _, root := range g.roots {
		if root.scalar {
			continue
		}
		if root.prefix != nil {
			if c := collOf(root.node); c != nil {
				cands = append(cands, cand{root.prefix, c})
			}
		}
		for _, p := range g.pathsOf(root) {
			if c := collOf(p.Val); c != nil {
				cands = append(cands, cand{append(append([]string(nil), root.prefix...), p.Path...), c})
			}
		}
	}
	var parts []string
	var coll *univ.Node
	if len(cands) == 0 || g.r.Float64() < 0.12 {
		parts, _, _ = g.pickPath() // possibly not a collection / absent
	} else {
		c := cands[g.r.Intn(len(cands))]
		parts, coll = c.parts, c.coll
	}
	sel, ok := g.selFor(parts)
	if !ok {
		return g.match()
	}
	q := &xgen.Quant{All: g.r.Intn(2) == 0, Sel: sel, Mode: xgen.BindMode(g.r.Intn(4))}
	n1, n2 := g.names[g.r.Intn(len(g.names))], g.names[g.r.Intn(len(g.names))]
	if len(g.roots) > 1 && g.r.Intn(3) == 0 {
		// shadow an enclosing binding
		n1 = g.roots[1+g.r.Intn(len(g.roots)-1)].prefix[0]
		if g.r.Intn(2) == 0 {
			n2 = n1
			n1 = g.names[g.r.Intn(len(g.names))]
		}
	}
	if len(parts) > 0 && g.r.Intn(8) == 0 {
		// a binding named like the root of the collection's own selector
		if g.r.Intn(2) == 0 {
			n1 = parts[0]
		} else {
			n2 = parts[0]
		}
	}
	if n1 == n2 && g.r.Intn(10) > 0 {
		n2 = n2 + "2"
	}
	if !xgen.IsSafeIdent(n1) {
		n1 = "x"
	}
	if !xgen.IsSafeIdent(n2) {
		n2 = "v"
	}
	saved := g.roots
	var elem *univ.Node
	var keyNode *univ.Node
	isMap := false
	if coll != nil && len(coll.Items) > 0 {
		i := g.r.Intn(len(coll.Items))
		elem = coll.Items[i]
		if coll.T.K == univ.KMap {
			isMap = true
			keyNode = coll.Keys[i]
		} else {
			keyNode = univ.Int(int64(i))
		}
	}
	switch q.Mode {
	case xgen.BindDefault:
		q.Name = n1
		if isMap {
			g.roots = append(append([]egRoot(nil), g.roots...), egRoot{prefix: []string{n1}, node: keyNode, scalar: true})
		} else {
			g.roots = append(append([]egRoot(nil), g.roots...), egRoot{prefix: []string{n1}, node: elem, scalar: elem == nil})
		}
	case xgen.BindIndex:
		q.Name = n1
		g.roots = append(append([]egRoot(nil), g.roots...), egRoot{prefix: []string{n1}, node: keyNode, scalar: true})
	case xgen.BindValue:
		q.Name2 = n2
		g.roots = append(append([]egRoot(nil), g.roots...), egRoot{prefix: []string{n2}, node: elem, scalar: elem == nil})
	case xgen.BindIndexValue:
		q.Name, q.Name2 = n1, n2
		g.roots = append(append([]egRoot(nil), g.roots...), egRoot{prefix: []string{n1}, node: keyNode, scalar: true}, egRoot{prefix: []string{n2}, node: elem, scalar: elem == nil})
	}
	q.Body = g.expr(depth-1, qdepth+1)
	g.roots = saved
	return q
}

// collOf returns the list / map a value denotes for a quantifier (no pointer
// look-through: quantifiers do not take pointers to collections).
func collOf(n *univ.Node) *univ.Node {
	for n != nil && n.T.K == univ.KIface {
		if n.Nil {
			return nil
		}
		n = n.Elem
	}
	if n == nil {
		return nil
	}
	switch n.T.K {
	case univ.KSlice, univ.KArray, univ.KMap:
		return n
	}
	return nil
}

func (g *egen) expr(depth, qdepth int) xgen.Expr {
	if depth <= 0 {
		return g.match()
	}
	x := g.r.Float64()
	switch {
	case x < g.pQuant && qdepth < g.maxQDepth:
		return g.quant(depth, qdepth)
	case x < g.pQuant+0.15:
		return &xgen.And{L: g.expr(depth-1, qdepth), R: g.expr(depth-1, qdepth)}
	case x < g.pQuant+0.30:
		return &xgen.Or{L: g.expr(depth-1, qdepth), R: g.expr(depth-1, qdepth)}
	case x < g.pQuant+0.38:
		return &xgen.Not{X: g.expr(depth-1, qdepth)}
	}
	return g.match()
}
