//go:build verifref

package props

import "github.com/hashicorp/go-bexpr/grammar"

// compiled only by the C20 check, whose build adds (through -overlay) a
// generated file to package grammar that defines VerifRefActions: the code
// blocks of grammar.peg compiled as functions.
func c20RefActions() map[string]grammar.VerifAction { return grammar.VerifRefActions() }
