package props

import (
	"fmt"
	"os"
	"sort"
	"strings"
	"sync"

	bexpr "github.com/hashicorp/go-bexpr"
	"github.com/hashicorp/go-bexpr/grammar"

	"verif/internal/mon"
	"verif/internal/xgen"
)

// C11 - WithMaxExpressions is an exact, monotone budget on parser work.

type c11Res struct {
	ok    bool   // parse succeeded
	canon string // tree (ok) or error text (!ok)
	max   bool   // failed with the max-expressions error
	steps uint64
}

func c11Parse(s string, budget uint64) (c11Res, string) {
	o := observeParse(s, budget)
	if o.Panic != "" {
		return c11Res{}, "panic: " + o.Panic
	}
	r := c11Res{steps: o.Steps}
	if o.Err == nil {
		t, err := treeOf(o.Val)
		if err != nil {
			return r, "malformed tree: " + err.Error()
		}
		r.ok, r.canon = true, xgen.Canon(t)
	} else {
		r.canon = o.Err.Error()
		r.max = isMaxExprErr(o.Err)
	}
	return r, ""
}

func c11Inputs(c *mon.Ctx, idx int) (s string, pathological bool, kind string) {
	r := c.RNG(idx)
	switch idx % 6 {
	case 0: // corpus / hostile
		all := append(append([]string{}, c10Corpus...), c10Hostile...)
		return all[(idx/6)%len(all)], false, "corpus"
	case 1: // nested parentheses: never parsed without a budget
		depth := 1 + (idx/6)%60
		switch (idx / 360) % 3 {
		case 0:
			return strings.Repeat("(", depth) + "a == 1" + strings.Repeat(")", depth), depth > 5, "nested-balanced"
		case 1:
			return strings.Repeat("(", depth) + "a == 1", depth > 4, "nested-unbalanced"
		default:
			return strings.Repeat("not (", depth) + "a == 1 and b == 2" + strings.Repeat(")", depth), depth > 5, "nested-not"
		}
	case 2, 3: // valid derivations
		rd := &xgen.Renderer{R: r, MaxRedundantParens: 1}
		return rd.Render(xgen.RandTree(r, 1+r.Intn(3))), false, "derivation"
	case 4: // invalid: mutated derivations
		rd := &xgen.Renderer{R: r, MaxRedundantParens: 1}
		return c15Mutate(r, rd.Render(xgen.RandTree(r, 1+r.Intn(3)))), false, "mutated"
	default: // chains, and long inputs whose error is found early
		n := 1 + r.Intn(40)
		if (idx/6)%5 == 3 {
			// many distinct recorded errors before the budget runs out: invalid
			// bytes at different offsets of one literal / a chain of undecodable literals
			k := 8 + r.Intn(12)
			if (idx/30)%7 == 3 {
				k = 2000 + r.Intn(1500) // enough error text for any size cap
			}
			var sb strings.Builder
			if r.Intn(2) == 0 {
				sb.WriteString(`a == "`)
				for i := 0; i < k; i++ {
					sb.WriteString("x")
					sb.WriteByte([]byte{0xff, 0xfe, 0xc0, 0x80}[i%4])
				}
				sb.WriteString(`" and b != 2 and (c == 3 or d in e)`)
			} else {
				for i := 0; i < k; i++ {
					fmt.Fprintf(&sb, `a%d == "\q%d" and `, i, i)
				}
				sb.WriteString(`((b != 2)) and (c == 3 or d in e)`)
			}
			return sb.String(), false, "many-soft-errors"
		}
		if (idx/6)%2 == 0 {
			tail := strings.Repeat([]string{"z", " z", "(", "\"", " and", "1 "}[r.Intn(6)], 300+r.Intn(3000))
			return c10Corpus[r.Intn(len(c10Corpus))] + " " + tail, false, "long-tail"
		}
		return "a == 1" + strings.Repeat(" and b != 2", n), false, "chain"
	}
}

// c11Concurrent: budgets are per parse - parses that overlap in other
// goroutines must not change a parse's step count or its threshold.
func c11Concurrent(c *mon.Ctx, idx int) {
	r := c.RNG(idx, 7)
	type job struct {
		s  string
		n0 uint64
		ok bool
	}
	var jobs []job
	for len(jobs) < 8 {
		s := c10Corpus[r.Intn(len(c10Corpus))]
		if r.Intn(3) == 0 {
			s = c15Mutate(r, s)
		}
		base, herr := c11Parse(s, 0)
		if herr != "" || base.max {
			continue
		}
		jobs = append(jobs, job{s, base.steps, base.ok})
	}
	const G = 8
	bad := make([]string, G)
	var ready, done sync.WaitGroup
	gate := make(chan struct{})
	ready.Add(G)
	done.Add(G)
	for gi := 0; gi < G; gi++ {
		gi := gi
		go func() {
			defer done.Done()
			ready.Done()
			<-gate
			for k := 0; k < 30 && bad[gi] == ""; k++ {
				j := jobs[(gi+k)%len(jobs)]
				// exactly N suffices, N-1 does not, and a limited parse never exceeds n+1 steps
				for _, n := range []uint64{j.n0, j.n0 - 1, j.n0 / 2, 0} {
					res, herr := c11Parse(j.s, n)
					switch {
					case herr != "":
						bad[gi] = herr
					case n > 0 && res.steps > n+1:
						bad[gi] = fmt.Sprintf("budget %d executed %d steps on %q", n, res.steps, j.s)
					case (n == 0 || n >= j.n0) && (res.max || res.ok != j.ok || res.steps != j.n0):
						bad[gi] = fmt.Sprintf("budget %d (N=%d) on %q: max=%v ok=%v steps=%d", n, j.n0, j.s, res.max, res.ok, res.steps)
					case n > 0 && n < j.n0 && !res.max:
						bad[gi] = fmt.Sprintf("budget %d below N=%d on %q did not fail with the max-expressions error", n, j.n0, j.s)
					}
					// the same through the public option (CreateEvaluator builds the
					// parser's option list itself)
					if n > 1 && bad[gi] == "" {
						ev, err, pan, _ := createEval(j.s, bexpr.WithMaxExpressions(n))
						wantOK := j.ok && n >= j.n0
						switch {
						case pan != "":
							bad[gi] = "CreateEvaluator panicked: " + pan
						case (err == nil) != wantOK || (ev != nil) != wantOK:
							bad[gi] = fmt.Sprintf("CreateEvaluator with budget %d (N=%d, valid=%v) on %q: err=%v", n, j.n0, j.ok, j.s, err)
						case n < j.n0 && !isMaxExprErr(err):
							bad[gi] = fmt.Sprintf("CreateEvaluator with budget %d below N=%d on %q did not fail with the max-expressions error: %v", n, j.n0, j.s, err)
						}
					}
				}
			}
		}()
	}
	ready.Wait()
	close(gate)
	done.Wait()
	for _, b := range bad {
		if b != "" {
			c.Violation("C11 concurrent-parses-interfere", "a budgeted parse behaved differently while other goroutines were parsing", map[string]any{"detail": clip(b, 500)})
			break
		}
	}
	c.Evals(G * 30 * 4)
	c.Count("concurrent_budget_rounds")
}

func c11Run(c *mon.Ctx, idx int) {
	if idx%60 == 0 {
		c11Concurrent(c, idx)
	}
	s, pathological, kind := c11Inputs(c, idx)
	c.Count("kind:" + kind)
	d := func(n uint64) map[string]any {
		return map[string]any{"input": fmt.Sprintf("%q", clip(s, 300)), "budget": n, "kind": kind}
	}
	viol := func(sig, what string, dd map[string]any) { c.Violation("C11 "+sig, what, dd) }

	check := func(n uint64, r c11Res, herr string) bool {
		c.Evals(1)
		if herr != "" {
			dd := d(n)
			dd["error"] = herr
			viol("parse-fault", "parse under a budget panicked or built a malformed tree", dd)
			return false
		}
		if n > 0 && n < 1<<63 && r.steps > n+1 {
			dd := d(n)
			dd["steps"] = r.steps
			viol("steps-exceed-budget", "a limited parse executed more than n+1 parser steps", dd)
			return false
		}
		return true
	}

	if pathological {
		// only ever parsed with a budget: must stop within n+1 steps, and the
		// outcomes must be monotone: once a budget suffices, every larger one
		// gives the identical result.
		var done *c11Res
		for _, n := range []uint64{1, 2, 3, 10, 100, 1000, 4096, 1 << 14, 1 << 16, 1 << 18, 1 << 20} {
			r, herr := c11Parse(s, n)
			if !check(n, r, herr) {
				return
			}
			if r.max {
				c.Count("pathological_rejected_within_budget")
				if done != nil {
					viol("non-monotone", "a larger budget failed after a smaller one sufficed", d(n))
					return
				}
				continue
			}
			if done != nil && (done.ok != r.ok || done.canon != r.canon) {
				viol("result-depends-on-budget", "two sufficient budgets gave different results", d(n))
				return
			}
			rr := r
			done = &rr
		}
		c.Count("pathological_inputs")
		c.Distinct("P/" + s)
		return
	}

	base, herr := c11Parse(s, 0)
	c.Evals(1)
	if herr != "" {
		dd := d(0)
		dd["error"] = herr
		viol("parse-fault", "unlimited parse panicked or built a malformed tree", dd)
		return
	}
	if base.max {
		viol("unlimited-parse-hit-a-limit", "parse without a budget failed with the max-expressions error", d(0))
		return
	}
	n0 := base.steps
	c.Add("steps_total", int64(n0))
	same := func(r c11Res) bool { return r.ok == base.ok && r.canon == base.canon }

	var budgets []uint64
	exhaustive := n0 <= uint64(tierN(c.Tier, 1500, 6000))
	if exhaustive {
		for n := uint64(1); n <= n0+2; n++ {
			budgets = append(budgets, n)
		}
		c.Count("inputs_with_every_budget")
	} else {
		for _, n := range []uint64{1, 2, 3, n0 / 2, n0 - 3, n0 - 2, n0 - 1, n0, n0 + 1, n0 + 2, n0 + 3, 2 * n0} {
			if n >= 1 {
				budgets = append(budgets, n)
			}
		}
		for n := uint64(1); n < 1<<22; n *= 2 {
			budgets = append(budgets, n)
		}
	}
	// budgets above N, related to the input length rather than to N
	for _, n := range []uint64{2 * n0, uint64(len(s)) - 1, uint64(len(s)), uint64(len(s)) + 1, (n0 + uint64(len(s))) / 2, 3 * n0, 10 * n0} {
		if n >= 1 && n < 1<<40 {
			budgets = append(budgets, n)
		}
	}
	// budgets beyond 32 bits whose low bits are small
	budgets = append(budgets, 1<<32+1, 1<<32+n0/2+1, 1<<40+7, 1<<63+12, 1<<64-1, 1<<31+3)
	if exhaustive {
		for n := uint64(1); n < 1<<22; n *= 2 {
			budgets = append(budgets, n)
		}
	}
	sort.Slice(budgets, func(i, j int) bool { return budgets[i] < budgets[j] })
	threshold := uint64(0)
	for _, n := range budgets {
		r, herr := c11Parse(s, n)
		if !check(n, r, herr) {
			return
		}
		switch {
		case same(r):
			if threshold == 0 || n < threshold {
				threshold = n
			}
			if r.steps != n0 {
				dd := d(n)
				dd["steps"], dd["unlimited_steps"] = r.steps, n0
				viol("sufficient-budget-different-work", "a sufficient budget executed a different number of steps than the unlimited parse", dd)
				return
			}
		case r.max:
			if n >= n0+1 {
				dd := d(n)
				dd["unlimited_steps"] = n0
				viol("budget-above-N-fails", "a budget above the unlimited step count failed with the max-expressions error", dd)
				return
			}
			if threshold != 0 && n > threshold {
				dd := d(n)
				dd["threshold"] = threshold
				viol("non-monotone", "a larger budget failed after a smaller one sufficed", dd)
				return
			}
			if r.ok || r.canon == "" {
				viol("max-error-with-result", "max-expressions failure came with a result", d(n))
				return
			}
			c.Count("rejected_below_threshold")
		default:
			dd := d(n)
			dd["unlimited"], dd["limited"] = clip(base.canon, 300), clip(r.canon, 300)
			viol("third-outcome", "a limited parse gave neither the unlimited result nor the max-expressions error", dd)
			return
		}
	}
	if threshold == 0 || threshold > n0+1 {
		dd := d(0)
		dd["unlimited_steps"], dd["threshold"] = n0, threshold
		viol("no-threshold", "no budget up to N+1 reproduced the unlimited result", dd)
		return
	}
	c.Count(fmt.Sprintf("threshold_minus_N=%d", int64(threshold)-int64(n0)))
	// n = 0 means unlimited
	r0o := observeParse(s, 0)
	_ = r0o
	v0, e0, pan, _ := parsePublic(s, grammar.MaxExpressions(0))
	if pan != "" || (e0 == nil) != base.ok {
		viol("budget-zero-not-unlimited", "MaxExpressions(0) does not behave like no limit", d(0))
		return
	}
	_ = v0
	// the bexpr-level option behaves like the grammar-level one
	for _, n := range []uint64{0, 1, threshold - 1, threshold, n0 + 5} {
		ev, err, pan, _ := createEval(s, bexpr.WithMaxExpressions(n))
		c.Evals(1)
		wantOK := base.ok && (n == 0 || n >= threshold)
		if pan != "" || (err == nil) != wantOK || (ev != nil) != wantOK {
			dd := d(n)
			dd["create_err"], dd["want_ok"], dd["threshold"] = fmt.Sprint(err)+pan, wantOK, threshold
			viol("public-option-differs", "CreateEvaluator+WithMaxExpressions does not behave like grammar.Parse+MaxExpressions", dd)
			return
		}
		if !wantOK && n > 0 && n < threshold && !isMaxExprErr(err) {
			dd := d(n)
			dd["create_err"] = fmt.Sprint(err)
			viol("public-option-wrong-error", "CreateEvaluator under an insufficient budget did not fail with the max-expressions error", dd)
			return
		}
	}
	// repeated budgets: the last one counts, also when it is the explicit 0
	if threshold > 1 && idx%2 == 0 {
		below := threshold - 1
		for _, l := range []struct {
			opts   []bexpr.Option
			wantOK bool
		}{
			{[]bexpr.Option{bexpr.WithMaxExpressions(below), bexpr.WithMaxExpressions(0)}, base.ok},
			{[]bexpr.Option{bexpr.WithMaxExpressions(0), bexpr.WithMaxExpressions(below)}, false},
			{[]bexpr.Option{bexpr.WithMaxExpressions(1), bexpr.WithTagName("x"), bexpr.WithMaxExpressions(0), nil}, base.ok},
			{[]bexpr.Option{bexpr.WithMaxExpressions(below), bexpr.WithMaxExpressions(threshold)}, base.ok},
		} {
			ev, err, pan, _ := createEval(s, l.opts...)
			c.Evals(1)
			if pan != "" || (err == nil) != l.wantOK || (ev != nil) != l.wantOK {
				dd := d(below)
				dd["create_err"], dd["want_ok"] = fmt.Sprint(err)+pan, l.wantOK
				viol("repeated-budget-last-does-not-win", "of repeated WithMaxExpressions options the last one does not decide (an explicit 0 lifts an earlier limit)", dd)
				return
			}
		}
		for _, l := range []struct {
			opts   []grammar.Option
			wantOK bool
		}{
			{[]grammar.Option{grammar.MaxExpressions(below), grammar.MaxExpressions(0)}, base.ok},
			{[]grammar.Option{grammar.MaxExpressions(0), grammar.MaxExpressions(below)}, false},
		} {
			_, err, pan, _ := parsePublic(s, l.opts...)
			c.Evals(1)
			if pan != "" || (err == nil) != l.wantOK {
				dd := d(below)
				dd["parse_err"], dd["want_ok"] = fmt.Sprint(err)+pan, l.wantOK
				viol("repeated-budget-last-does-not-win", "of repeated MaxExpressions options the last one does not decide", dd)
				return
			}
		}
		// without panic recovery a budget that runs out may surface as a panic
		// carrying the max-expressions error, or as that error - never as a result
		for _, n := range []uint64{below, threshold / 2, 1 + uint64(idx)%below} {
			if n == 0 {
				continue
			}
			var val interface{}
			var err error
			t := mon.Try(func() { val, err = grammar.Parse("", []byte(s), grammar.Recover(false), grammar.MaxExpressions(n)) })
			c.Evals(1)
			okPanic := t.Panic && strings.Contains(t.PanicVal, maxExprMsg())
			if !okPanic && !isMaxExprErr(err) {
				dd := d(n)
				dd["value"], dd["error"], dd["panic"] = clip(fmt.Sprintf("%#v", val), 200), fmt.Sprint(err), t.PanicVal
				viol("budget-ignored-without-recover", "with Recover(false) a budget below the step count produced a result (or another error) instead of the max-expressions failure", dd)
				return
			}
		}
		c.Count("repeated_budgets_checked")
	}
	// layout twins: the same expression with blanks around it needs more steps;
	// a budget that suffices for the bare text and not for the padded one must
	// refuse the padded one also right after the bare one was created under it
	if base.ok && idx%3 == 0 && threshold > 1 {
		for _, padded := range []string{"  \t" + s + "\n\n  ", s + "    ", "\n" + s} {
			pr, perr2 := c11Parse(padded, 0)
			if perr2 != "" || !pr.ok || pr.steps <= threshold+1 {
				continue
			}
			n := threshold
			ev1, err1, _, _ := createEval(s, bexpr.WithMaxExpressions(n))
			ev2, err2, pan2, _ := createEval(padded, bexpr.WithMaxExpressions(n))
			c.Evals(2)
			if ev1 == nil || err1 != nil {
				break
			}
			if pan2 != "" || ev2 != nil || !isMaxExprErr(err2) {
				viol("padded-twin-accepted-below-its-threshold", "after the bare text was created under a budget, the same text with blanks around it was accepted under that budget although it needs more steps",
					map[string]any{"input": fmt.Sprintf("%q", clip(padded, 200)), "budget": n, "steps_needed_padded": pr.steps, "error": fmt.Sprint(err2) + pan2})
				return
			}
			_, gerr, _, _ := parsePublic(padded, grammar.MaxExpressions(n))
			if !isMaxExprErr(gerr) {
				viol("padded-twin-accepted-below-its-threshold", "grammar.Parse accepted a padded text under a budget below its step count", map[string]any{"input": fmt.Sprintf("%q", clip(padded, 200)), "budget": n})
				return
			}
			c.Count("padded_twins_checked")
		}
	}
	// the other entry points take the same options: ParseReader and ParseFile
	// must honour a budget exactly like Parse; and an Option VALUE can be
	// used for more than one parse
	if idx%7 == 0 && threshold > 1 {
		below := threshold - 1
		for _, n := range []uint64{below, threshold} {
			wantMax := n < threshold
			_, e1 := grammar.ParseReader("", strings.NewReader(s), grammar.MaxExpressions(n))
			if isMaxExprErr(e1) != wantMax || (!wantMax && (e1 == nil) != base.ok) {
				viol("ParseReader-ignores-budget", "grammar.ParseReader does not honour MaxExpressions like grammar.Parse", map[string]any{"input": fmt.Sprintf("%q", clip(s, 200)), "budget": n, "threshold": threshold, "error": fmt.Sprint(e1)})
				return
			}
			if work := os.Getenv("VERIF_WORK"); work != "" {
				path := fmt.Sprintf("%s/c11-%d-%d.bexpr", work, os.Getpid(), idx)
				if os.WriteFile(path, []byte(s), 0o600) == nil {
					_, e2 := grammar.ParseFile(path, grammar.MaxExpressions(n))
					os.Remove(path)
					if isMaxExprErr(e2) != wantMax || (!wantMax && (e2 == nil) != base.ok) {
						viol("ParseFile-ignores-budget", "grammar.ParseFile does not honour MaxExpressions like grammar.Parse", map[string]any{"input": fmt.Sprintf("%q", clip(s, 200)), "budget": n, "threshold": threshold, "error": fmt.Sprint(e2)})
						return
					}
					c.Count("parsefile_parity_checked")
				}
			}
		}
		// ... and so can the caller's option SLICE, spread into several calls
		gslice := []grammar.Option{grammar.MaxExpressions(below), grammar.Recover(true)}
		bslice := []bexpr.Option{nil, bexpr.WithMaxExpressions(below), nil}
		for use := 1; use <= 3; use++ {
			_, e1, _, _ := parsePublic(s, gslice...)
			_, e3 := grammar.ParseReader("", strings.NewReader(s), gslice...)
			_, e2, _, _ := createEval(s, bslice...)
			if !isMaxExprErr(e1) || !isMaxExprErr(e2) || !isMaxExprErr(e3) {
				viol("reused-option-slice-loses-budget", "an option slice spread into a second call no longer enforces its budget", map[string]any{"input": fmt.Sprintf("%q", clip(s, 200)), "budget": below, "use": use, "parse_error": fmt.Sprint(e1), "parsereader_error": fmt.Sprint(e3), "create_error": fmt.Sprint(e2)})
				return
			}
		}
		gopt := grammar.MaxExpressions(below)
		bopt := bexpr.WithMaxExpressions(below)
		for use := 1; use <= 3; use++ {
			_, e1, _, _ := parsePublic(s, gopt)
			_, e2, _, _ := createEval(s, bopt)
			if !isMaxExprErr(e1) || !isMaxExprErr(e2) {
				viol("reused-option-value-loses-budget", "an option value used for a second parse no longer enforces its budget", map[string]any{"input": fmt.Sprintf("%q", clip(s, 200)), "budget": below, "use": use, "parse_error": fmt.Sprint(e1), "create_error": fmt.Sprint(e2)})
				return
			}
		}
		c.Count("entry_point_parity_checked")
	}
	c.Count("inputs")
	if base.ok {
		c.Count("valid_inputs")
	} else {
		c.Count("invalid_inputs")
	}
	c.Distinct(s)
	if idx%97 == 0 {
		c.Sample(map[string]any{"input": fmt.Sprintf("%q", clip(s, 120)), "unlimited_steps": n0, "threshold": threshold, "budgets_tried": len(budgets), "every_budget": exhaustive})
	}
}

func init() {
	mon.Register(&mon.Prop{
		ID: "C11", Level: "exploration",
		Rule: "inputs: corpus + hostile list, seeded valid derivations, mutated (mostly invalid) derivations, and-chains, and nested parentheses depth 1..60 (balanced, unbalanced, under not); for a non-pathological input the unlimited step count N is read through the VerifParse hook and EVERY budget 1..N+2 is tried when N <= 1500 (quick) / 6000 (thorough), otherwise N-3..N+3, N/2, 2N and powers of two up to 2^22; pathological nestings are only ever parsed under budgets 1..2^20. oracle: steps <= n+1; result is the unlimited result or the max-expressions error; a single threshold T <= N+1, monotone; budget 0 == unlimited; bexpr.WithMaxExpressions agrees with grammar.MaxExpressions. non-trivial = every input (each exercises a full budget sweep); distinct by input text",
		Assumptions: []string{"steps are the parser's own expression counter exposed by the verif-tagged hook grammar.VerifParse, which runs exactly what grammar.Parse runs", "wall-clock CPU is not asserted; the bound is on steps",
			"the max-expressions error is recognised by self-calibration against the tree under test (message of `a == 1` under budget 1)"},
		NumCases: func(tier string) int { return tierN(tier, 1200, 40000) },
		Run:      c11Run,
		Required: func(tier string) []string {
			return []string{"inputs", "entry_point_parity_checked", "parsefile_parity_checked", "concurrent_budget_rounds", "valid_inputs", "invalid_inputs", "pathological_inputs", "pathological_rejected_within_budget", "rejected_below_threshold", "inputs_with_every_budget", "kind:nested-balanced", "kind:nested-unbalanced", "kind:long-tail", "kind:chain", "kind:many-soft-errors", "padded_twins_checked", "repeated_budgets_checked"}
		},
	})
}
