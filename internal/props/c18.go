package props

import (
	"fmt"
	"math/rand"
	"reflect"
	"strings"

	bexpr "github.com/hashicorp/go-bexpr"

	"verif/internal/mon"
	"verif/internal/refsem"
	"verif/internal/univ"
	"verif/internal/xgen"
)

// C18 - options act only on their own aspect, in any order, on every Evaluate.

// hooks: a small pure family with a reflect and a Node implementation each.

type hookIdentity struct{}

func (hookIdentity) Apply(n *univ.Node) *univ.Node { return n }
func (hookIdentity) Real() bexpr.ValueTransformationHookFn {
	return func(v reflect.Value) reflect.Value { return v }
}

// hookUnwrap replaces a struct{Wrapped T} by its field.
type hookUnwrap struct{}

func (hookUnwrap) Apply(n *univ.Node) *univ.Node {
	x := n
	for x != nil && x.T.K == univ.KIface && !x.Nil {
		x = x.Elem
	}
	if x != nil && x.T.K == univ.KStruct && len(x.T.Fields) == 1 && x.T.Fields[0].Name == "Wrapped" {
		return x.Items[0]
	}
	return n
}
func (hookUnwrap) Real() bexpr.ValueTransformationHookFn {
	return func(v reflect.Value) reflect.Value {
		x := v
		for x.IsValid() && x.Kind() == reflect.Interface && !x.IsNil() {
			x = x.Elem()
		}
		if x.IsValid() && x.Kind() == reflect.Struct && x.NumField() == 1 && x.Type().Field(0).Name == "Wrapped" {
			return x.Field(0)
		}
		return v
	}
}

// hookConst replaces the string "secret" by "*****".
type hookConst struct{}

func (hookConst) Apply(n *univ.Node) *univ.Node {
	x := n
	for x != nil && x.T.K == univ.KIface && !x.Nil {
		x = x.Elem
	}
	if x != nil && x.T.K == univ.KString && x.T.Named == "" && x.S == "secret" {
		return univ.Str("*****")
	}
	return n
}
func (hookConst) Real() bexpr.ValueTransformationHookFn {
	return func(v reflect.Value) reflect.Value {
		x := v
		for x.IsValid() && x.Kind() == reflect.Interface && !x.IsNil() {
			x = x.Elem()
		}
		if x.IsValid() && x.Kind() == reflect.String && x.Type() == reflect.TypeOf("") && x.String() == "secret" {
			return reflect.ValueOf("*****")
		}
		return v
	}
}

var hookNames = map[string]realHook{"identity": hookIdentity{}, "unwrap": hookUnwrap{}, "const": hookConst{}}

// decorate wraps some scalars in struct{Wrapped T} and plants "secret".
func decorate(r *rand.Rand, n *univ.Node, depth int) *univ.Node {
	if n == nil || depth > 4 {
		return n
	}
	switch n.T.K {
	case univ.KIface:
		if !n.Nil {
			n.Elem = decorate(r, n.Elem, depth)
		}
		return n
	case univ.KMap, univ.KSlice:
		if n.T.Elem.K == univ.KIface {
			for i, it := range n.Items {
				n.Items[i] = decorate(r, it, depth+1)
			}
		}
		return n
	}
	if n.T.K.IsScalar() {
		switch r.Intn(5) {
		case 0:
			return univ.Struct(univ.StructOf(univ.Field{Name: "Wrapped", Type: n.T}), n)
		case 1:
			if n.T.K == univ.KString && n.T.Named == "" {
				return univ.Str("secret")
			}
		}
	}
	return n
}

type optSpec struct {
	kind string // tag, hook, unknown, max
	tag  string
	hook string
	unk  *univ.Node
	max  uint64
}

func (o optSpec) String() string {
	switch o.kind {
	case "tag":
		return "WithTagName(" + o.tag + ")"
	case "hook":
		return "WithHookFn(" + o.hook + ")"
	case "unknown":
		return "WithUnknownValue(" + o.unk.Describe() + ")"
	}
	return fmt.Sprintf("WithMaxExpressions(%d)", o.max)
}

func (o optSpec) real() bexpr.Option {
	switch o.kind {
	case "tag":
		return bexpr.WithTagName(o.tag)
	case "hook":
		if o.hook == "nil" {
			return bexpr.WithHookFn(nil)
		}
		return bexpr.WithHookFn(hookNames[o.hook].Real())
	case "unknown":
		return bexpr.WithUnknownValue(o.unk.Datum())
	}
	return bexpr.WithMaxExpressions(o.max)
}

func describeList(l []optSpec) string {
	var s []string
	for _, o := range l {
		s = append(s, o.String())
	}
	return "[" + strings.Join(s, ", ") + "]"
}

func c18Eval(text string, datum *univ.Node, l []optSpec) (evalObs, bool, string) {
	var opts []bexpr.Option
	for _, o := range l {
		opts = append(opts, o.real())
	}
	ev, err, pan, _ := createEval(text, opts...)
	if pan != "" || err != nil {
		return evalObs{}, false, fmt.Sprint(err) + pan
	}
	// every later Evaluate call is governed by the options: call twice
	o1 := evaluate(ev, datum.Datum())
	o2 := evaluate(ev, datum.Datum())
	if o1.Class3() != o2.Class3() {
		o1.Panic = "second Evaluate differs from the first: " + o1.String() + " vs " + o2.String()
	}
	return o1, true, ""
}

// c18HookFixed: a hook's replacement value is what the operators see - also
// for scalar elements reached through quantifier bindings.
var c18HookData = univ.IfaceMap(
	"l", univ.IfaceSlice(univ.Str("secret"), univ.Str("x")),
	"ls", univ.Slice(univ.SliceOf(univ.TString), univ.Str("y"), univ.Str("secret")),
	"m", univ.IfaceMap("k", univ.Str("secret"), "j", univ.Str("x")),
	"s", univ.Str("secret"),
	"w", univ.IfaceSlice(univ.Struct(univ.StructOf(univ.Field{Name: "Wrapped", Type: univ.TInt}), univ.Int(7)), univ.Int(8)),
)

var c18HookCases = []struct {
	hook, expr, want string
}{
	{"const", `any l as x { x == "*****" }`, "T"}, {"const", `any l as x { x == "secret" }`, "F"}, {"const", `all l as i, x { x != "secret" }`, "T"}, {"const", `any ls as _, x { x == "*****" }`, "T"},
	{"const", `any m as k, v { v == "*****" }`, "T"}, {"const", `any m as _, v { v == "secret" }`, "F"}, {"const", `s == "*****"`, "T"}, {"const", `"*****" in l`, "F"}, {"const", `all ls as x { x matches "^(y|\\*+)$" }`, "T"},
	{"unwrap", `any w as x { x == 7 }`, "T"}, {"unwrap", `all w as x { x != 9 }`, "T"}, {"unwrap", `w.0 == 7`, "T"}, {"identity", `any l as x { x == "secret" }`, "T"}, {"nil", `any l as x { x == "secret" }`, "T"},
}

// c18OddIndices: an identity hook (or a nil hook) is a no-op also for the
// index spellings pointerstructure reads in its own way (leading zeros are
// octal, 0x.., underscores) - compared real against real, no reference.
var c18IndexData = func() *univ.Node {
	var items []*univ.Node
	for i := 0; i < 20; i++ {
		items = append(items, univ.Int(int64(i)))
	}
	tl := univ.Slice(univ.SliceOf(univ.TInt))
	tl.Items = items
	return univ.IfaceMap("list", univ.IfaceSlice(items...), "tl", tl, "m", univ.IfaceMap("010", univ.Int(1), "08", univ.Int(2)))
}()

var c18IndexExprs = []string{`list.010 == 8`, `list.010 == 10`, `list.08 == 8`, `"/list/011" == 9`, `list["010"] == 8`, `list.0x10 == 16`, `list.1_0 == 10`, `tl.010 == 8`, `tl.09 == 9`, `list.007 == 7`, `m.010 == 1`, `m.08 == 2`,
	`any list as i, x { x == 8 } and list.010 == 8`, `list.00 == 0`, `list.019 == 19`, `list.+1 == 1`, `list[" 1"] == 1`}

func c18OddIndices(c *mon.Ctx, idx int) {
	e := c18IndexExprs[(idx/10)%len(c18IndexExprs)]
	var outs []string
	for _, l := range [][]optSpec{nil, {{kind: "hook", hook: "identity"}}, {{kind: "hook", hook: "nil"}}, {{kind: "tag", tag: "bexpr"}}, {{kind: "hook", hook: "identity"}, {kind: "unknown", unk: univ.Str("u")}}, {{kind: "unknown", unk: univ.Str("u")}}} {
		o, ok, cerr := c18Eval(e, c18IndexData, l)
		c.Evals(1)
		if !ok {
			outs = append(outs, "create-failed:"+cerr)
			continue
		}
		outs = append(outs, o.Class3())
	}
	if outs[0] != outs[1] || outs[0] != outs[2] || outs[0] != outs[3] || outs[4] != outs[5] {
		c.Violation("C18 neutral-option-changes-odd-index", "a neutral option (identity hook, nil hook, tag bexpr) changed the outcome of a selector with an unusual index spelling", map[string]any{"expression": e, "outcomes_none_identity_nil_tag_identity+unknown_unknown": outs})
	}
	c.Count("odd_index_neutrality")
}

// c18NilPointerHook: a hook that replaces typed nil pointers (and nil
// interfaces holding them) by a constant; the operators must see the
// constant wherever a selector or a value alias resolves to such a pointer.
type c18T struct{ N int }
type c18Holder struct {
	P  *int
	S  *string
	T  *c18T
	L  []*c18T
	M  map[string]*c18T
	NL []*c18T          // nil pointers only
	NM map[string]*c18T // nil pointers only
	OK *int
}

func c18NilPointerHook(c *mon.Ctx) {
	hook := func(v reflect.Value) reflect.Value {
		x := v
		for x.IsValid() && x.Kind() == reflect.Interface && !x.IsNil() {
			x = x.Elem()
		}
		if x.IsValid() && x.Kind() == reflect.Ptr && x.IsNil() {
			return reflect.ValueOf("was-nil")
		}
		return v
	}
	seven := 7
	d := c18Holder{L: []*c18T{nil, {N: 1}}, M: map[string]*c18T{"k": nil, "j": {N: 2}}, NL: []*c18T{nil, nil}, NM: map[string]*c18T{"a": nil, "b": nil}, OK: &seven}
	cases := []struct{ expr, want string }{
		{`P == "was-nil"`, "T"}, {`P != "was-nil"`, "F"}, {`S == "was-nil"`, "T"}, {`T == "was-nil"`, "T"}, {`P is empty`, "F"}, {`P is not empty`, "T"}, {`P matches "^was"`, "T"}, {`"was" in P`, "T"},
		{`L.0 == "was-nil"`, "T"}, {`M.k == "was-nil"`, "T"}, {`any L as v { v == "was-nil" }`, "T"}, {`any NM as _, v { v == "was-nil" }`, "T"}, {`all NM as k, v { v == "was-nil" and k != zz }`, "T"}, {`all NL as i, v { v == "was-nil" }`, "T"}, {`any NL as v { v != "was-nil" }`, "F"}, {`OK == 7`, "T"}, {`L.1.N == 1`, "T"},
	}
	for _, wrap := range []func() interface{}{func() interface{} { return d }, func() interface{} { return &d }, func() interface{} {
		return map[string]interface{}{"P": d.P, "S": d.S, "T": d.T, "L": d.L, "M": d.M, "NL": d.NL, "NM": d.NM, "OK": d.OK}
	}} {
		for _, cs := range cases {
			ev, err, pan, _ := createEval(cs.expr, bexpr.WithHookFn(hook))
			c.Evals(1)
			if pan != "" || err != nil {
				continue
			}
			if o := evaluate(ev, wrap()); o.Class3() != cs.want {
				c.Violation(fmt.Sprintf("C18 hook-value-not-seen hook=nil-pointer-to-constant got=%s want=%s", o.Class3(), cs.want), "the operators did not see the replacement a hook returns for a typed nil pointer", map[string]any{"expression": cs.expr, "observed": o.String(), "expected": cs.want, "datum_type": fmt.Sprintf("%T", wrap())})
				return
			}
		}
	}
	// a hook that needs ADDRESSABLE values (pointer-receiver getters): with a
	// pointer datum the fields it is handed are addressable
	addrHook := func(v reflect.Value) reflect.Value {
		if v.IsValid() && v.Kind() == reflect.Struct && v.Type() == reflect.TypeOf(c18T{}) {
			if v.CanAddr() {
				return reflect.ValueOf("addressable")
			}
			return reflect.ValueOf("copy")
		}
		return v
	}
	type holder2 struct {
		V c18T
		L []c18T
	}
	h2 := &holder2{V: c18T{N: 1}, L: []c18T{{N: 2}}}
	for _, cs := range []struct{ expr, want string }{{`V == addressable`, "T"}, {`V != copy`, "T"}, {`L.0 == addressable`, "T"}, {`any L as v { v == addressable }`, "T"}} {
		ev, err, pan, _ := createEval(cs.expr, bexpr.WithHookFn(addrHook))
		c.Evals(1)
		if pan != "" || err != nil {
			continue
		}
		if o := evaluate(ev, h2); o.Class3() != cs.want {
			c.Violation(fmt.Sprintf("C18 hook-value-not-seen hook=needs-addressable-values got=%s want=%s", o.Class3(), cs.want), "with a pointer datum the hook is handed copies instead of the addressable fields, so its replacement differs", map[string]any{"expression": cs.expr, "observed": o.String(), "expected": cs.want})
			return
		}
	}
	c.Count("nil_pointer_hook_scenarios")
}

func c18HookFixed(c *mon.Ctx, idx int) {
	if (idx/10)%20 == 3 {
		c18NilPointerHook(c)
	}
	cs := c18HookCases[(idx/10)%len(c18HookCases)]
	o, ok, cerr := c18Eval(cs.expr, c18HookData, []optSpec{{kind: "hook", hook: cs.hook}})
	c.Evals(1)
	if !ok {
		c.Violation("C18 fixed-hook-case-rejected", "a fixed hook expression was rejected", map[string]any{"expression": cs.expr, "error": cerr})
		return
	}
	var eff refsem.Options
	if cs.hook != "nil" {
		eff.Hook = hookNames[cs.hook]
	}
	if v, err, _, _ := parsePublic(cs.expr); err == nil {
		if tree, terr := treeOf(v); terr == nil {
			if a := refsem.Eval(tree, c18HookData, &eff); a.Unspec == "" && !a.Has(cs.want) {
				c.Violation("C18 harness fixed-hook-case-expectation", "harness error: the hand-written expectation disagrees with the reference", map[string]any{"expression": cs.expr, "want": cs.want, "reference": a.String()})
				return
			}
		}
	}
	if o.Class3() != cs.want {
		c.Violation(fmt.Sprintf("C18 hook-value-not-seen hook=%s got=%s want=%s", cs.hook, o.Class3(), cs.want), "the operators did not see the hook's replacement value", map[string]any{"expression": cs.expr, "hook": cs.hook, "observed": o.String(), "expected": cs.want})
	}
	c.Count("fixed_hook_cases")
}

func c18Run(c *mon.Ctx, idx int) {
	r := c.RNG(idx)
	if idx%10 == 0 {
		c18HookFixed(c, idx)
	}
	if idx%10 == 5 {
		c18OddIndices(c, idx)
	}
	doc := univ.GenObj(r, 3, true)
	node := univ.Represent(rand.New(rand.NewSource(r.Int63())), doc, univ.Policy{Mode: idx % 5, Hidden: true, HiddenSeed: 3})
	node = decorate(r, node, 0)
	// the effective configuration
	eff := &refsem.Options{}
	var set []optSpec
	if r.Intn(2) == 0 {
		t := []string{"alt", "bexpr", "alt"}[r.Intn(3)]
		set = append(set, optSpec{kind: "tag", tag: t})
		if t != "bexpr" {
			eff.TagName = t
		}
	}
	if r.Intn(3) > 0 {
		h := []string{"identity", "unwrap", "const", "unwrap"}[r.Intn(4)]
		set = append(set, optSpec{kind: "hook", hook: h})
		eff.Hook = hookNames[h]
	}
	if r.Intn(2) == 0 {
		u := c05Unknowns[r.Intn(len(c05Unknowns))]
		set = append(set, optSpec{kind: "unknown", unk: u})
		eff.Unknown = u
	}
	g := newEgen(r, node, eff)
	g.pBroken = 0.2
	e := g.expr(1+r.Intn(3), 0)
	text := (&xgen.Renderer{R: r}).Render(e)
	steps := observeParse(text, 0).Steps
	if r.Intn(2) == 0 {
		m := []uint64{0, steps, steps + 1, 10 * steps}[r.Intn(4)]
		set = append(set, optSpec{kind: "max", max: m})
	}
	base, ok, cerr := c18Eval(text, node, set)
	c.Evals(1)
	if !ok {
		c.Violation("C18 create-failed", "CreateEvaluator failed with neutral / valid options", map[string]any{"expression": clip(text, 300), "options": describeList(set), "error": cerr})
		return
	}
	if base.Panic != "" && strings.HasPrefix(base.Panic, "second Evaluate") {
		c.Violation("C18 options-not-applied-on-every-evaluate", "two Evaluate calls on one evaluator differ", map[string]any{"expression": clip(text, 300), "options": describeList(set), "detail": base.Panic})
		return
	}
	report := func(rel string, other []optSpec, o evalObs) {
		c.Violation(fmt.Sprintf("C18 %s base=%s other=%s", rel, base.Class3(), o.Class3()), "option lists that must be equivalent gave different outcomes",
			map[string]any{"expression": clip(text, 300), "datum": clip(node.Describe(), 1200), "options": describeList(set), "other_options": describeList(other), "outcome": base.String(), "other_outcome": o.String()})
	}
	same := func(rel string, other []optSpec) {
		o, ok, cerr := c18Eval(text, node, other)
		c.Evals(1)
		if !ok {
			c.Violation("C18 "+rel+" create-failed", "an equivalent option list was rejected", map[string]any{"expression": clip(text, 300), "options": describeList(other), "error": cerr})
			return
		}
		if o.Class3() != base.Class3() || o.Panic != "" {
			report(rel, other, o)
		}
		c.Count("rel:" + rel)
	}
	// 1. permutations
	for k := 0; k < 2 && len(set) > 1; k++ {
		p := append([]optSpec(nil), set...)
		r.Shuffle(len(p), func(i, j int) { p[i], p[j] = p[j], p[i] })
		same("permutation", p)
	}
	// 2. the last of repeated options wins: put a different value before each
	for i, o := range set {
		var dup optSpec
		switch o.kind {
		case "tag":
			dup = optSpec{kind: "tag", tag: map[string]string{"alt": "bexpr", "bexpr": "alt"}[o.tag]}
		case "hook":
			dup = optSpec{kind: "hook", hook: map[string]string{"identity": "unwrap", "unwrap": "const", "const": "identity"}[o.hook]}
		case "unknown":
			dup = optSpec{kind: "unknown", unk: univ.Str("other-unknown")}
		case "max":
			dup = optSpec{kind: "max", max: 1}
		}
		l := append(append(append([]optSpec(nil), set[:i]...), dup), set[i:]...)
		same("last-wins", l)
		// also with other options in between
		l2 := append([]optSpec{dup}, set...)
		same("last-wins", l2)
	}
	// a budget below the parse's step count must refuse the expression - also
	// when the same text was created successfully a moment ago in this process
	if steps > 2 {
		tiny := append(append([]optSpec(nil), set...), optSpec{kind: "max", max: 1 + uint64(r.Intn(int(steps)-2))})
		if _, ok, _ := c18Eval(text, node, tiny); ok {
			c.Violation("C18 insufficient-budget-accepted", "WithMaxExpressions below the parse's step count did not refuse the expression (after the same text had been created successfully)", map[string]any{"expression": clip(text, 300), "options": describeList(tiny), "steps": steps})
		}
		c.Count("rel:insufficient-budget-refused")
	}
	// a later WithHookFn(nil) clears an earlier hook (last wins)
	for i, o := range set {
		if o.kind != "hook" {
			continue
		}
		cleared := append(append([]optSpec(nil), set...), optSpec{kind: "hook", hook: "nil"})
		without := append(append([]optSpec(nil), set[:i]...), set[i+1:]...)
		oc, ok1, _ := c18Eval(text, node, cleared)
		ow, ok2, _ := c18Eval(text, node, without)
		c.Evals(2)
		if ok1 && ok2 && oc.Class3() != ow.Class3() {
			c.Violation(fmt.Sprintf("C18 nil-hook-does-not-clear cleared=%s without=%s", oc.Class3(), ow.Class3()), "WithHookFn(nil) after a hook did not behave like no hook at all",
				map[string]any{"expression": clip(text, 300), "datum": clip(node.Describe(), 1000), "options": describeList(cleared), "outcome": oc.String(), "without_hook": ow.String()})
		}
		c.Count("rel:nil-hook-clears")
	}
	// the evaluator must not keep the caller's option slice: overwriting the
	// slice after creation changes nothing
	if len(set) > 0 {
		var opts []bexpr.Option
		for _, o := range set {
			opts = append(opts, o.real())
		}
		ev, err, pan, _ := createEval(text, opts...)
		if pan == "" && err == nil {
			for i := range opts {
				switch set[i].kind {
				case "tag":
					opts[i] = bexpr.WithTagName(map[string]string{"alt": "bexpr", "bexpr": "alt"}[set[i].tag])
				case "hook":
					opts[i] = bexpr.WithHookFn(hookNames[map[string]string{"identity": "unwrap", "unwrap": "const", "const": "unwrap"}[set[i].hook]].Real())
				case "unknown":
					opts[i] = bexpr.WithUnknownValue("overwritten")
				default:
					opts[i] = nil
				}
			}
			o := evaluate(ev, node.Datum())
			c.Evals(1)
			if o.Class3() != base.Class3() {
				c.Violation(fmt.Sprintf("C18 caller-slice-aliased base=%s after=%s", base.Class3(), o.Class3()), "overwriting the caller's option slice after CreateEvaluator changed the evaluator's behaviour",
					map[string]any{"expression": clip(text, 300), "options": describeList(set), "before": base.String(), "after": o.String()})
			}
			c.Count("rel:caller-slice-not-aliased")
		}
	}
	// 3. neutral settings are no-ops
	has := map[string]bool{}
	for _, o := range set {
		has[o.kind] = true
	}
	if !has["hook"] {
		same("neutral-identity-hook", append(append([]optSpec(nil), set...), optSpec{kind: "hook", hook: "identity"}))
		same("neutral-nil-hook", append([]optSpec{{kind: "hook", hook: "nil"}}, set...))
	}
	if !has["tag"] {
		same("neutral-tag-bexpr", append([]optSpec{{kind: "tag", tag: "bexpr"}}, set...))
	}
	// a tag key that no field of the datum carries - "zz9", or the empty key -
	// hides and renames nothing: both must behave alike (as the last tag option)
	{
		var rest []optSpec
		for _, o := range set {
			if o.kind != "tag" {
				rest = append(rest, o)
			}
		}
		o1, ok1, _ := c18Eval(text, node, append(append([]optSpec(nil), rest...), optSpec{kind: "tag", tag: "zz9"}))
		o2, ok2, _ := c18Eval(text, node, append(append([]optSpec(nil), set...), optSpec{kind: "tag", tag: []string{"", "my tag", "bexpr ", " bexpr", "json:", "a\"b", "\x7f", "\ttab", "bexpr\x00", "Bexpr", "BEXPR", "bExpr"}[r.Intn(12)]}))
		c.Evals(2)
		if ok1 != ok2 || (ok1 && o1.Class3() != o2.Class3()) {
			c.Violation(fmt.Sprintf("C18 unused-tag-keys-differ zz9=%s empty=%s", o1.Class3(), o2.Class3()), "two tag names that no field of the datum carries (\"zz9\" and the empty name, given last) gave different outcomes",
				map[string]any{"expression": clip(text, 300), "datum": clip(node.Describe(), 1000), "options": describeList(set), "with_zz9": o1.String(), "with_empty": o2.String()})
		}
		c.Count("rel:unused-tag-keys-equivalent")
	}
	if !has["max"] {
		same("neutral-budget-0", append(append([]optSpec(nil), set...), optSpec{kind: "max", max: 0}))
		same("neutral-budget-above-steps", append([]optSpec{{kind: "max", max: steps + 1 + uint64(r.Intn(1000))}}, set...))
		same("neutral-budget-equal-steps", append([]optSpec{{kind: "max", max: steps}}, set...))
		huge := []uint64{1<<32 + 1, 1<<32 + 40, 1<<40 + 7, 3<<32 + 99, 1<<63 + 12, 1<<64 - 1, 1 << 32, 1<<31 + 5}
		same("neutral-budget-huge", append(append([]optSpec(nil), set...), optSpec{kind: "max", max: huge[r.Intn(len(huge))]}))
	}
	if !has["unknown"] {
		absent := false
		tr := *eff
		tr.Trace = func(ev string) {
			if ev == "resolve:absent" {
				absent = true
			}
		}
		if a := refsem.Eval(e, node, &tr); a.Unspec == "" && !absent {
			same("neutral-unknown-when-all-resolve", append(append([]optSpec(nil), set...), optSpec{kind: "unknown", unk: c05Unknowns[r.Intn(len(c05Unknowns))]}))
		}
	}
	// 4. the effective configuration is what the reference computes with (a
	// hook's replacement value is what the operators see)
	a := refsem.Eval(e, node, eff)
	if a.Unspec != "" {
		c.Count("unspecified_skipped")
	} else {
		if mismatch(base, a) {
			c.Violation(fmt.Sprintf("C18 effective-configuration observed=%s allowed=%s hook=%T", base.Class3(), a, eff.Hook), "the outcome is not what the configured options (tag name, hook, unknown value) prescribe",
				map[string]any{"expression": clip(text, 300), "datum": clip(node.Describe(), 1200), "options": describeList(set), "observed": base.String(), "allowed": a.String()})
		}
		c.Count("outcome:" + base.Class3())
		if eff.Hook != nil {
			// did the hook matter? compare with the reference without it
			noHook := *eff
			noHook.Hook = nil
			if b := refsem.Eval(e, node, &noHook); b.Unspec == "" && b.Set != a.Set {
				c.Count(fmt.Sprintf("hook_changed_outcome:%T", eff.Hook))
			}
		}
		if eff.TagName != "" {
			noTag := *eff
			noTag.TagName = ""
			if b := refsem.Eval(e, node, &noTag); b.Unspec == "" && b.Set != a.Set {
				c.Count("tag_changed_outcome")
			}
		}
		if eff.Unknown != nil {
			noU := *eff
			noU.Unknown = nil
			if b := refsem.Eval(e, node, &noU); b.Unspec == "" && b.Set != a.Set {
				c.Count("unknown_changed_outcome")
			}
		}
	}
	c.Count(fmt.Sprintf("options_in_list:%d", len(set)))
	c.Distinct(text + "|" + describeList(set) + "|" + node.Shape())
	if idx%1009 == 0 {
		c.Sample(map[string]any{"expression": clip(text, 200), "options": describeList(set), "outcome": base.Class3()})
	}
}

func init() {
	mon.Register(&mon.Prop{
		ID: "C18", Level: "exploration",
		Rule:        "per case a seeded document (some scalars wrapped in struct{Wrapped T}, some strings replaced by \"secret\"), a datum-directed expression and a random subset of {WithTagName(alt|bexpr), WithHookFn(identity|unwrap wrapper|constant replacement), WithUnknownValue(13 values), WithMaxExpressions(0|N|N+1|10N)} (N = the parse's step count from the VerifParse hook); the expression is evaluated (twice per evaluator) under the list, 2 random permutations, every list with a different-valued duplicate inserted before an option (last wins), and neutral extensions (identity hook, nil hook, tag bexpr, budget 0 / N / above N, unknown value when the reference sees no absent selector). oracle (relational): all equal; and the outcome lies in the reference's allowed set for the effective configuration, the reference applying the same pure hook after every lookup step. non-trivial = every case; distinct by (expression, option list, datum shape)",
		Assumptions: []string{"hooks are drawn from a small pure family implemented twice (reflect and Node tree)"},
		NumCases:    func(tier string) int { return tierN(tier, 5000, 250000) },
		Run:         c18Run,
		Required: func(tier string) []string {
			return []string{"fixed_hook_cases", "nil_pointer_hook_scenarios", "odd_index_neutrality", "rel:permutation", "rel:last-wins", "rel:insufficient-budget-refused", "rel:nil-hook-clears", "rel:caller-slice-not-aliased", "rel:neutral-identity-hook", "rel:neutral-nil-hook", "rel:neutral-tag-bexpr", "rel:neutral-budget-0", "rel:neutral-budget-above-steps", "rel:neutral-budget-equal-steps", "rel:neutral-budget-huge",
				"rel:neutral-unknown-when-all-resolve", "outcome:T", "outcome:F", "outcome:E", "hook_changed_outcome:props.hookUnwrap", "hook_changed_outcome:props.hookConst", "tag_changed_outcome", "unknown_changed_outcome",
				"options_in_list:0", "options_in_list:3", "options_in_list:4"}
		},
	})
}
