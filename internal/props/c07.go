package props

import (
	"fmt"
	"math/rand"
	"reflect"
	"strings"

	"github.com/hashicorp/go-bexpr/grammar"

	"verif/internal/mon"
	"verif/internal/univ"
	"verif/internal/xgen"
)

// C07 - dotted, bracket-indexed and JSON-Pointer spellings of a path are
// interchangeable.

// respell returns a copy of e in which every selector is spelled under the
// given policy: 0 all dotted where possible, 1 all ["..."], 2 all [`...`],
// 3 JSON Pointer where possible, 4 random mix.
func respell(e xgen.Expr, pol int, r *rand.Rand) xgen.Expr {
	sel := func(s xgen.Sel) xgen.Sel {
		out := xgen.Sel{Parts: append([]string(nil), s.Parts...)}
		p := pol
		if p == 4 {
			p = r.Intn(4)
		}
		if p == 3 && xgen.CanPointer(s.Parts) {
			out.JSONPointer = true
			return out
		}
		if !xgen.CanBexpr(s.Parts) {
			out.JSONPointer = true // only spelling available
			return out
		}
		out.Spell = make([]int, len(s.Parts))
		for i := range out.Spell {
			switch p {
			case 0, 3:
				out.Spell[i] = xgen.SpDot
			case 1:
				out.Spell[i] = xgen.SpBrackDQ
			case 2:
				out.Spell[i] = xgen.SpBrackRaw
			}
			if pol == 4 {
				out.Spell[i] = r.Intn(3)
			}
		}
		return out
	}
	switch n := e.(type) {
	case *xgen.Match:
		m := *n
		m.Sel = sel(n.Sel)
		return &m
	case *xgen.Not:
		return &xgen.Not{X: respell(n.X, pol, r)}
	case *xgen.And:
		return &xgen.And{L: respell(n.L, pol, r), R: respell(n.R, pol, r)}
	case *xgen.Or:
		return &xgen.Or{L: respell(n.L, pol, r), R: respell(n.R, pol, r)}
	case *xgen.Quant:
		q := *n
		q.Sel = sel(n.Sel)
		q.Body = respell(n.Body, pol, r)
		return &q
	}
	return e
}

// pathsOfTree lists the selector paths of a real parse tree in pre-order.
func pathsOfTree(e grammar.Expression, out *[][]string) {
	switch n := e.(type) {
	case *grammar.UnaryExpression:
		pathsOfTree(n.Operand, out)
	case *grammar.BinaryExpression:
		pathsOfTree(n.Left, out)
		pathsOfTree(n.Right, out)
	case *grammar.MatchExpression:
		*out = append(*out, n.Selector.Path)
	case *grammar.CollectionExpression:
		*out = append(*out, n.Selector.Path)
		pathsOfTree(n.Inner, out)
	}
}

var c07PolNames = []string{"dotted", "bracket-dq", "bracket-raw", "pointer", "mixed"}

func c07Run(c *mon.Ctx, idx int) {
	r := c.RNG(idx)
	var node *univ.Node
	var opt = genOptions(r)
	opt.TagName = ""
	if idx%4 == 0 {
		node = c07Exact
	} else if idx%4 == 1 {
		node = collisionDatum
		c.Count("collision_datum_cases")
	} else {
		node, _ = drawDatum(c, idx, r)
	}
	g := newEgen(r, node, opt)
	g.pBroken = 0.15
	for k := 0; k < 3; k++ {
		e := g.expr(1+r.Intn(3), 0)
		type res struct {
			pol   int
			text  string
			cls   string
			o     evalObs
			paths string
		}
		var results []res
		for pol := 0; pol < 5; pol++ {
			v := respell(e, pol, r)
			rd := &xgen.Renderer{R: r, KeepSpell: true}
			ec := &evalCase{Expr: v, Text: rd.Render(v), Datum: node, Opt: opt}
			c.Evals(1)
			o, ok, cerr := ec.run()
			if !ok {
				c.Violation("C07 spelling-rejected pol="+c07PolNames[pol], "a respelled selector was rejected", map[string]any{"expression": clip(ec.Text, 300), "error": cerr})
				continue
			}
			var paths [][]string
			if v, err, _, _ := parsePublic(ec.Text); err == nil {
				if t, ok := v.(grammar.Expression); ok {
					pathsOfTree(t, &paths)
				}
			}
			results = append(results, res{pol, ec.Text, o.Class3(), o, fmt.Sprintf("%q", paths)})
			c.Count("spelling:" + c07PolNames[pol])
		}
		if len(results) < 2 {
			continue
		}
		distinctTexts := map[string]bool{}
		for _, x := range results {
			distinctTexts[x.text] = true
		}
		base := results[0]
		for _, x := range results[1:] {
			if x.paths != base.paths {
				c.Violation(fmt.Sprintf("C07 paths-differ %s-vs-%s", c07PolNames[base.pol], c07PolNames[x.pol]), "two spellings of the same path parse to different path slices",
					map[string]any{"first": clip(base.text, 300), "first_paths": base.paths, "second": clip(x.text, 300), "second_paths": x.paths})
				break
			}
			if x.cls != base.cls {
				c.Violation(fmt.Sprintf("C07 outcome-differs %s=%s %s=%s", c07PolNames[base.pol], base.cls, c07PolNames[x.pol], x.cls), "two spellings of the same path evaluate differently",
					map[string]any{"first": clip(base.text, 300), "first_outcome": base.o.String(), "second": clip(x.text, 300), "second_outcome": x.o.String(), "datum": clip(node.Describe(), 1000)})
				break
			}
		}
		if len(distinctTexts) >= 2 {
			c.Count("cases_with_two_spellings")
			c.Distinct(base.text + "|" + node.Shape())
			c.Count("outcome:" + base.cls)
		}
		if _, isQ := e.(*xgen.Quant); isQ {
			c.Count("quantified")
		}
		if idx%1501 == 0 && k == 0 {
			var l []string
			for _, x := range results {
				l = append(l, clip(x.text, 120))
			}
			c.Sample(map[string]any{"spellings": l, "outcome": base.cls})
		}
	}
	c07Fixed(c, idx)
	if idx%150 == 11 {
		c07Wide(c, idx)
	}
}

// exactness: keys that differ only in case, surrounding spaces or escapes
var c07Exact = univ.IfaceMap(
	"m", univ.IfaceMap("a", univ.Int(1), "A", univ.Int(2), " a", univ.Int(3), "a ", univ.Int(4), "a/b", univ.Int(5), "~", univ.Int(6), "~1", univ.Int(7), "a~b", univ.Int(8), "0", univ.Int(9), "00", univ.Int(10), "a.b", univ.Int(11), "é", univ.Int(12), "", univ.Int(13), "~0", univ.Int(14), "/", univ.Int(15), "~01", univ.Int(16),
		"e\u0301", univ.Int(17), "K", univ.Int(18), "\u212a", univ.Int(19), "k", univ.Int(20), "ß", univ.Int(21), "SS", univ.Int(22), "ss", univ.Int(23), "İ", univ.Int(24), "i", univ.Int(25), "I", univ.Int(26), "ı", univ.Int(27),
		"ＡＢ", univ.Int(28), "AB", univ.Int(29), "a\u00a0", univ.Int(30), "\ufeffa", univ.Int(31), "a\u200b", univ.Int(32), "Ω", univ.Int(33), "\u2126", univ.Int(34)),
	"l", univ.IfaceSlice(univ.Str("x"), univ.Str("y"), univ.IfaceMap("k", univ.Str("z"))),
	"lm", univ.IfaceSlice(univ.IfaceMap("k", univ.Str("z")), univ.IfaceMap("k", univ.Str("w"))),
	"S", univ.Struct(univ.StructOf(univ.Field{Name: "Name", Type: univ.TString}, univ.Field{Name: "F", Tag: `bexpr:"name"`, Type: univ.TString}), univ.Str("go"), univ.Str("tag")),
)

var c07FixedCases = []c06Case{
	{`m.a == 1`, "T"}, {`m["a"] == 1`, "T"}, {"m[`a`] == 1", "T"}, {`"/m/a" == 1`, "T"}, {`m.A == 2`, "T"}, {`m["A"] == 2`, "T"}, {`"/m/A" == 2`, "T"}, {`m.A == 1`, "F"},
	{`m[" a"] == 3`, "T"}, {`m["a "] == 4`, "T"}, {`m[" a"] == 1`, "F"}, {`m["a/b"] == 5`, "T"}, {`"/m/a~1b" == 5`, "T"}, {`"/m/~0" == 6`, "T"}, {`m["~"] == 6`, "T"}, {`"/m/~01" == 7`, "T"}, {`m["~1"] == 7`, "T"},
	{`"/m/a~0b" == 8`, "T"}, {`m["a~b"] == 8`, "T"}, {`m.0 == 9`, "T"}, {`m["0"] == 9`, "T"}, {`"/m/0" == 9`, "T"}, {`m.00 == 10`, "T"}, {`m["00"] == 10`, "T"}, {`"/m/00" == 10`, "T"}, {`m["a.b"] == 11`, "T"}, {`"/m/a.b" == 11`, "T"},
	{`m["é"] == 12`, "T"}, {`"/m/é" == 12`, "T"}, {`m[""] == 13`, "T"}, {`m["~0"] == 14`, "T"}, {`"/m/~00" == 14`, "T"}, {`m["/"] == 15`, "T"}, {`"/m/~1" == 15`, "T"}, {`m["~01"] == 16`, "T"}, {`"/m/~001" == 16`, "T"},
	{`m["é"] == 17`, "F"}, {`m["e\u0301"] == 17`, "T"}, {`m.K == 18`, "T"}, {`m.k == 20`, "T"}, {`m["\u212a"] == 19`, "T"}, {"\"/m/\u212a\" == 19", "T"}, {`m["ß"] == 21`, "T"}, {`m.SS == 22`, "T"}, {`m.ss == 23`, "T"},
	{`m["İ"] == 24`, "T"}, {`m.i == 25`, "T"}, {`m.I == 26`, "T"}, {`"/m/ı" == 27`, "T"}, {`m["ＡＢ"] == 28`, "T"}, {`m.AB == 29`, "T"}, {`m["a\u00a0"] == 30`, "T"}, {`m["\ufeffa"] == 31`, "T"}, {`m["a\u200b"] == 32`, "T"},
	{`"/m/Ω" == 33`, "T"}, {"\"/m/\u2126\" == 34", "T"}, {`m["Ω"] == 34`, "F"}, {`m["k"] == 18`, "F"}, {`m["AB"] == 28`, "F"}, {`m["a"] == 30`, "F"},
	{`l.0 == x`, "T"}, {`l["0"] == x`, "T"}, {`"/l/0" == x`, "T"}, {`l.2.k == z`, "T"}, {`l["2"]["k"] == z`, "T"}, {`"/l/2/k" == z`, "T"}, {`l.2["k"] == z`, "T"}, {"l[`2`].k == z", "T"},
	{`S.Name == go`, "T"}, {`S.name == tag`, "T"}, {`S["name"] == tag`, "T"}, {`"/S/name" == tag`, "T"}, {`S.NAME == go`, "E"}, {`S.F == tag`, "E"}, {`S[" name"] == tag`, "E"},
	{`any l.2 as k { k == k }`, "T"}, {`any "/l/2" as k { k == k }`, "T"}, {`any l["2"] as k { k == k }`, "T"}, {`any m as k, v { k == "~1" and v == 7 }`, "T"},
	{`any lm as v { "/v/k" == w }`, "T"}, {`any lm as v { v["k"] == w }`, "T"}, {`any lm as v { v.k == w }`, "T"}, {`all lm as v { "/v/k" == w }`, "F"}, {"all lm as i, v { v[`k`] != q }", "T"},
}

// c07Wide: names and shapes at sizes where a table or a cache might be
// indexed by something narrower than the thing itself: identifiers of 20..80
// bytes that share their first 16 / 24 / 32 / 64 bytes (created one after the
// other in one process, both orders), structs with 255..300 and 1030 fields.
var c07WideStruct = map[int]interface{}{}

func c07Wide(c *mon.Ctx, idx int) {
	expectT := func(text string, datum interface{}, what string) {
		ev, err, pan, _ := createEval(text)
		c.Evals(1)
		if pan != "" || err != nil {
			c.Violation("C07 fixed-case-rejected", "a selector-spelling expression was rejected", map[string]any{"expression": clip(text, 200), "error": fmt.Sprint(err) + pan})
			return
		}
		if o := evaluate(ev, datum); o.Class3() != "T" {
			c.Violation("C07 outcome-differs "+what+" got="+o.Class3()+" want=T", "one spelling of a path does not select the element the other spellings select", map[string]any{"expression": clip(text, 200), "observed": o.String(), "case": what})
		}
	}
	// long identifiers with a common prefix
	for _, plen := range []int{15, 16, 23, 24, 25, 31, 32, 33, 63, 64, 65} {
		prefix := strings.Repeat("ServiceTaggedAddresses", 4)[:plen]
		a, b := prefix+fmt.Sprintf("IPv4x%d", idx%7), prefix+fmt.Sprintf("IPv6x%d", idx%7)
		if idx%2 == 1 {
			a, b = b, a
		}
		datum := map[string]interface{}{"Node": map[string]interface{}{a: "va", b: "vb"}, a: "ta", b: "tb", "l": []interface{}{map[string]interface{}{a: 1, b: 2}}}
		for _, pr := range [][2]string{{a, "a"}, {b, "b"}} {
			id, v := pr[0], pr[1]
			expectT(fmt.Sprintf(`Node.%s == v%s`, id, v), datum, "long-identifier-twins/dotted")
			expectT(fmt.Sprintf(`Node["%s"] == v%s`, id, v), datum, "long-identifier-twins/bracket")
			expectT(fmt.Sprintf(`"/Node/%s" == v%s`, id, v), datum, "long-identifier-twins/pointer")
			expectT(fmt.Sprintf(`%s == t%s`, id, v), datum, "long-identifier-twins/top-level")
			expectT(fmt.Sprintf(`"/%s" == t%s`, id, v), datum, "long-identifier-twins/top-level-pointer")
			expectT(fmt.Sprintf(`any l as %s { %s.%s == %d }`, id, id, id, map[string]int{"a": 1, "b": 2}[v]), datum, "long-identifier-twins/binding")
			expectT(fmt.Sprintf(`any l as %s { "/%s/%s" == %d }`, id, id, id, map[string]int{"a": 1, "b": 2}[v]), datum, "long-identifier-twins/binding-pointer")
		}
	}
	// index spellings with leading zeros, in every spelling of the path, on
	// generic and on typed lists: whatever such an index means, it means the
	// same in all three spellings
	{
		xs := make([]interface{}, 12)
		txs := make([]int, 12)
		for i := range xs {
			xs[i], txs[i] = i, i
		}
		datum := map[string]interface{}{"doc": map[string]interface{}{"xs": xs, "txs": txs, "m": map[string]interface{}{"010": 8, "08": 10}}}
		for _, list := range []string{"xs", "txs", "m"} {
			for _, ix := range []string{"010", "08", "009", "011", "007", "00", "0", "10", "11", "012", "0011"} {
				for _, v := range []int{8, 9, 10, 11} {
					texts := []string{fmt.Sprintf(`doc.%s.%s == %d`, list, ix, v), fmt.Sprintf(`doc["%s"]["%s"] == %d`, list, ix, v), fmt.Sprintf(`"/doc/%s/%s" == %d`, list, ix, v), fmt.Sprintf("doc.%s[`%s`] == %d", list, ix, v)}
					var outs []string
					for _, text := range texts {
						ev, err, pan, _ := createEval(text)
						c.Evals(1)
						if pan != "" || err != nil {
							outs = append(outs, "rejected")
							continue
						}
						outs = append(outs, evaluate(ev, datum).Class3())
					}
					for i := 1; i < len(outs); i++ {
						if outs[i] != outs[0] {
							c.Violation(fmt.Sprintf("C07 outcome-differs zero-prefixed-index dotted=%s other=%s", outs[0], outs[i]), "a zero-prefixed index selects differently in different spellings of the same path",
								map[string]any{"spellings": texts, "outcomes": outs, "list": list})
							break
						}
					}
				}
			}
		}
	}
	// wide structs
	for _, n := range []int{255, 256, 257, 300, 1030} {
		v, ok := c07WideStruct[n]
		if !ok {
			fs := make([]reflect.StructField, n)
			for i := range fs {
				fs[i] = reflect.StructField{Name: fmt.Sprintf("F%d", i), Type: reflect.TypeOf(0)}
			}
			sv := reflect.New(reflect.StructOf(fs)).Elem()
			for i := 0; i < n; i++ {
				sv.Field(i).SetInt(int64(i + 1))
			}
			v = sv.Interface()
			c07WideStruct[n] = v
		}
		for _, i := range []int{0, 1, 127, 128, 254, 255, 256, 257, 299, 511, 512, 1023, 1024, n - 1} {
			if i >= n {
				continue
			}
			expectT(fmt.Sprintf(`F%d == %d`, i, i+1), v, "wide-struct/dotted")
			expectT(fmt.Sprintf(`"/F%d" == %d`, i, i+1), v, "wide-struct/pointer")
			expectT(fmt.Sprintf(`S.F%d == %d and S["F%d"] == %d and "/S/F%d" == %d`, i, i+1, i, i+1, i, i+1), map[string]interface{}{"S": v}, "wide-struct/nested")
			expectT(fmt.Sprintf(`F%d != %d`, i, i), reflect.ValueOf(&v).Elem().Interface(), "wide-struct/dotted")
		}
	}
	c.Count("wide_cases")
}

func c07Fixed(c *mon.Ctx, idx int) {
	cs := c07FixedCases[idx%len(c07FixedCases)]
	c.Evals(1)
	ev, err, pan, _ := createEval(cs.expr)
	if pan != "" || err != nil {
		c.Violation("C07 fixed-case-rejected", "a fixed selector-spelling expression was rejected", map[string]any{"expression": cs.expr, "error": fmt.Sprint(err) + pan})
		return
	}
	o := evaluate(ev, c07Exact.Datum())
	if got := o.Class3(); got != cs.want {
		c.Violation(fmt.Sprintf("C07 fixed-case got=%s want=%s expr=%s", got, cs.want, cs.expr), "exact / escaped path matching differs from the statement", map[string]any{"expression": cs.expr, "observed": o.String(), "expected": cs.want})
	}
	c.Count("fixed_cases")
}

func init() {
	mon.Register(&mon.Prop{
		ID: "C07", Level: "exploration",
		Rule:        "per case a seeded document (or a fixed document whose keys differ only in case, surrounding spaces, '/', '~', '~1', leading zeros, empty key) and 3 datum-directed expressions (matches, connectives, quantifiers - selectors also as the quantified collection and inside bodies); each expression is re-spelled under 5 policies (all dotted, all [\"..\"], all [`..`], JSON Pointer with ~0/~1 escapes, random per-part mix) and each spelling goes through the real parser and Evaluate. oracle (relational): identical Path slices in the parsed trees and identical outcomes; plus 85 fixed exactness cases (case, spaces, escapes, leading zeros, Unicode look-alikes: composed vs decomposed, Kelvin sign, sharp s, dotted/dotless i, full-width letters, zero-width and no-break spaces) with outcomes taken from the statement. non-trivial = at least two textually different spellings existed; distinct by (first spelling, datum shape)",
		Assumptions: []string{"a part is only re-spelled in a form that can express it (first part must be an identifier for the dotted/bracket syntax; pointer parts are restricted to the pointer character class)"},
		NumCases:    func(tier string) int { return tierN(tier, 6000, 300000) },
		Run:         c07Run,
		Required: func(tier string) []string {
			return []string{"cases_with_two_spellings", "fixed_cases", "wide_cases", "quantified", "outcome:T", "outcome:F", "outcome:E", "spelling:dotted", "spelling:bracket-dq", "spelling:bracket-raw", "spelling:pointer", "spelling:mixed"}
		},
	})
}
