package props

import (
	"bytes"
	"fmt"
	"os"
	"reflect"
	"strings"
	"sync"

	"github.com/hashicorp/go-bexpr/grammar"

	"verif/internal/mon"
	"verif/internal/pegexec"
	"verif/internal/pegread"
	"verif/internal/xgen"
)

// End-to-end stage of C20: grammar.peg, interpreted directly by a generic PEG
// machine (package pegexec) whose actions are the grammar's own code blocks
// compiled at check time, is run side by side with the shipped parser on
// inputs derived from the grammar itself (random derivations of every rule,
// boundary runes of every character class / range / literal, invalid
// encodings), on rendered random expressions and on mutants of both, from
// every rule as entry point. Acceptance, the value returned and the errors
// the code blocks put on record must be the same. This closes the gap a
// table / action comparison leaves: a change to the interpreting engine, or
// state that survives from one Parse call to the next.

const c20BatchSize = 250

var c20Once sync.Once
var c20Machine *pegexec.Machine
var c20Gen *pegexec.Gen

func c20Setup(g *pegread.Grammar) bool {
	c20Once.Do(func() {
		ref := c20RefActions()
		if ref == nil {
			return
		}
		c20Machine = pegexec.New(g, func(key string, text []byte, labels map[string]any) (any, error) {
			f := ref[key]
			if f == nil {
				panic("no reference action " + key)
			}
			return f(text, labels)
		})
		c20Gen = pegexec.NewGen(g)
	})
	return c20Machine != nil
}

type c20LiveErr struct {
	off int
	msg string
}

// c20LiveErrors reads the list of errors the shipped parser returned: for
// every entry the Inner error's text and the offset it was recorded at.
func c20LiveErrors(err error) (out []c20LiveErr, ok bool) {
	defer func() {
		if recover() != nil {
			out, ok = nil, false
		}
	}()
	rv := reflect.ValueOf(err)
	if rv.Kind() != reflect.Slice {
		return nil, false
	}
	for i := 0; i < rv.Len(); i++ {
		e := rv.Index(i)
		for e.Kind() == reflect.Interface || e.Kind() == reflect.Ptr {
			e = e.Elem()
		}
		if e.Kind() != reflect.Struct {
			return nil, false
		}
		in := e.FieldByName("Inner")
		pos := e.FieldByName("pos")
		if !in.IsValid() || !pos.IsValid() || !pos.FieldByName("offset").IsValid() {
			return nil, false
		}
		ie, isErr := in.Interface().(error)
		if !isErr || ie == nil {
			return nil, false
		}
		out = append(out, c20LiveErr{int(pos.FieldByName("offset").Int()), ie.Error()})
	}
	return out, true
}

func c20Work() string { return os.Getenv("VERIF_WORK") }

// c20Big: inputs beyond any plausible size guard of an entry point (1 MiB of
// layout between two clauses, a literal of more than 1 MiB, a tail the grammar
// rejects after 1 MiB), through every entry point.
func c20Big(c *mon.Ctx) {
	blanks := strings.Repeat(" ", 1<<20)
	inputs := []string{
		"foo == 1" + blanks + " and bar == 2",
		"foo == 1" + blanks + ") bar",
		"foo == \"" + strings.Repeat("x", 1<<20+17) + "\"",
		blanks + "foo == 1",
		"foo == 1 and bar in baz" + strings.Repeat("\n", 1<<20+3),
	}
	old := c20Machine.MaxSteps
	c20Machine.MaxSteps = 400_000_000
	defer func() { c20Machine.MaxSteps = old }()
	for i, s := range inputs {
		data := []byte(s)
		c.Risk(fmt.Sprintf("e2e big input %d", i))
		ref := c20Machine.Run("", data)
		if ref.Aborted != "" {
			c.Count("e2e_reference_gave_up")
			continue
		}
		for _, via := range []string{"Parse", "ParseReader", "ParseFile"} {
			var val any
			var err error
			t := mon.Try(func() {
				switch via {
				case "Parse":
					val, err = grammar.Parse("", data)
				case "ParseReader":
					val, err = grammar.ParseReader("", bytes.NewReader(data))
				default:
					if c20Work() == "" {
						val, err = grammar.Parse("", data)
						return
					}
					path := fmt.Sprintf("%s/c20-big-%d.bexpr", c20Work(), os.Getpid())
					if os.WriteFile(path, data, 0o600) != nil {
						val, err = grammar.Parse("", data)
						return
					}
					val, err = grammar.ParseFile(path)
					os.Remove(path)
				}
			})
			c.Evals(1)
			if t.Panic || ref.Accepted() != (err == nil) || (ref.Accepted() && !reflect.DeepEqual(ref.Val, val)) {
				c.Violation("C20 end-to-end big-input via="+via, "on an input of more than 1 MiB the shipped parser and grammar.peg interpreted directly disagree",
					map[string]any{"input_shape": clip(strings.ReplaceAll(s[:30], "\n", "\\n"), 40) + fmt.Sprintf("... (%d bytes)", len(s)), "via": via, "grammar_accepts": ref.Accepted(), "shipped_error": fmt.Sprint(err), "panic": t.PanicVal,
						"shipped_value": clip(fmt.Sprintf("%#v", val), 200), "grammar_value": clip(fmt.Sprintf("%#v", ref.Val), 200)})
				break
			}
		}
		c.Count("e2e_big_inputs")
	}
}

func c20Input(c *mon.Ctx, idx, k int) (entry string, s string, origin string) {
	r := c.RNG(idx, k)
	switch p := r.Intn(20); {
	case p < 5:
		tree := xgen.RandTree(r, 1+r.Intn(4))
		rd := &xgen.Renderer{R: r, MaxRedundantParens: 2}
		return "", rd.Render(tree), "rendered-expression"
	case p < 8:
		tree := xgen.RandTree(r, 1+r.Intn(3))
		rd := &xgen.Renderer{R: r, MaxRedundantParens: 1}
		return "", c15Mutate(r, rd.Render(tree)), "token-mutant"
	case p < 10:
		tree := xgen.RandTree(r, 1+r.Intn(3))
		rd := &xgen.Renderer{R: r, MaxRedundantParens: 1}
		return "", c20Gen.Mutate(r, rd.Render(tree), 1+r.Intn(2)), "rune-mutant"
	case p < 14:
		s := c20Gen.Sentence(r, c20Gen.G.Rules[0].Name, 2+r.Intn(9))
		if r.Intn(3) == 0 {
			s = c20Gen.Mutate(r, s, 1+r.Intn(2))
		}
		return "", s, "grammar-derivation"
	default:
		names := c20Gen.RuleNames()
		entry = names[r.Intn(len(names))]
		s := c20Gen.Sentence(r, entry, 1+r.Intn(7))
		if r.Intn(3) == 0 {
			s = c20Gen.Mutate(r, s, 1+r.Intn(2))
		}
		if r.Intn(6) == 0 {
			s += []string{" ", "x", ".", "\"", "1", "\xff", " \xff", "x \xfe", " == \xff", "\n\n\xc0", " \u200f", "\ufeff"}[r.Intn(12)]
		}
		return entry, s, "rule-derivation"
	}
}

func c20E2E(c *mon.Ctx, g *pegread.Grammar, batch int) {
	if !c20Setup(g) {
		c.Count("reference_actions_not_compiled_in")
		return
	}
	if batch == 0 {
		c20Big(c)
	}
	for k := 0; k < c20BatchSize; k++ {
		entry, s, origin := c20Input(c, batch, k)
		data := []byte(s)
		ref := c20Machine.Run(entry, data)
		if ref.Aborted != "" {
			c.Count("e2e_reference_gave_up")
			c.Note("e2e_reference_gave_up", ref.Aborted)
			continue
		}
		var opts []grammar.Option
		if entry != "" {
			opts = append(opts, grammar.Entrypoint(entry))
		}
		var val any
		var err error
		viaReader := (batch+k)%11 == 0
		viaFile := (batch+k)%11 == 5 && c20Work() != ""
		c.Risk("e2e " + clip(fmt.Sprintf("%q", s), 100))
		t := mon.Try(func() {
			switch {
			case viaReader:
				val, err = grammar.ParseReader("", bytes.NewReader(data), opts...)
			case viaFile:
				path := fmt.Sprintf("%s/c20-%d.bexpr", c20Work(), os.Getpid())
				if werr := os.WriteFile(path, data, 0o600); werr != nil {
					viaFile = false
					val, err = grammar.Parse("", append([]byte(nil), data...), opts...)
					return
				}
				val, err = grammar.ParseFile(path, opts...)
				os.Remove(path)
				c.Count("e2e_via_ParseFile")
			default:
				val, err = grammar.Parse("", append([]byte(nil), data...), opts...)
			}
		})
		if viaReader {
			c.Count("e2e_via_ParseReader")
		}
		c.Evals(1)
		c.Count("e2e_inputs")
		c.Count("e2e_origin:" + origin)
		ent := entry
		if ent == "" {
			ent = "(start)"
		}
		detail := func() map[string]any {
			return map[string]any{"input": clip(s, 300), "input_quoted": clip(fmt.Sprintf("%q", s), 400), "entry_rule": ent, "origin": origin, "via": map[bool]string{true: "ParseReader", false: map[bool]string{true: "ParseFile", false: "Parse"}[viaFile]}[viaReader],
				"grammar_peg_interpreted": fmt.Sprintf("matched=%v value=%s errors=%v", ref.Matched, clip(fmt.Sprintf("%#v", ref.Val), 300), ref.Errs),
				"shipped_parser":          fmt.Sprintf("value=%s err=%v panic=%v", clip(fmt.Sprintf("%#v", val), 300), err, t.PanicVal)}
		}
		if t.Panic {
			c.Violation("C20 end-to-end panic entry="+ent, "the shipped parser panicked on an input grammar.peg gives a meaning to", detail())
			continue
		}
		if ref.Accepted() != (err == nil) {
			what := "shipped-rejects-grammar-accepts"
			if err == nil {
				what = "shipped-accepts-grammar-rejects"
			}
			c.Violation("C20 end-to-end "+what+" entry="+ent, "the shipped parser and grammar.peg interpreted directly disagree on whether the input is accepted", detail())
			continue
		}
		// the value is compared where the grammar defines it: on accepted
		// inputs (what Parse hands back next to an error is the engine's
		// business, not the grammar's)
		if ref.Accepted() && !reflect.DeepEqual(ref.Val, val) {
			c.Violation("C20 end-to-end value-differs entry="+ent, "the shipped parser returns a different value from grammar.peg interpreted directly", detail())
			continue
		}
		if ref.Accepted() {
			c.Count("e2e_accepted")
			c.Distinct("e2e/acc/" + ent + "/" + c15Shape(s))
		} else {
			c.Count("e2e_rejected")
			c.Distinct("e2e/rej/" + ent + "/" + c15Shape(s))
		}
		if len(ref.Errs) > 0 {
			live, ok := c20LiveErrors(err)
			if !ok {
				c.Count("e2e_error_list_unreadable")
			} else {
				// compared as SETS of (offset, message): which errors the code
				// blocks and the encoding rule raise where is the grammar's; their
				// order and de-duplication are the engine's presentation
				want := map[string]bool{}
				for _, e := range ref.Errs {
					k := fmt.Sprintf("%d/", e.Offset)
					if e.Kind != "encoding" {
						k += e.Msg
					} else {
						k += "<encoding>"
					}
					want[k] = true
				}
				got := map[string]bool{}
				encMsg := ""
				for _, l := range live {
					k := fmt.Sprintf("%d/%s", l.off, l.msg)
					if !want[k] && want[fmt.Sprintf("%d/<encoding>", l.off)] && (encMsg == "" || encMsg == l.msg) {
						// an encoding error: its text is the engine's
						encMsg = l.msg
						k = fmt.Sprintf("%d/<encoding>", l.off)
					}
					got[k] = true
				}
				same := len(got) == len(want)
				for k := range want {
					if !got[k] {
						same = false
					}
				}
				if !same {
					c.Violation("C20 end-to-end recorded-errors-differ entry="+ent, "the errors put on record for the input differ from those grammar.peg's code blocks and encoding rule produce", detail())
					continue
				}
				c.Count("e2e_error_lists_compared")
				for _, e := range ref.Errs {
					c.Count("e2e_errkind:" + e.Kind)
				}
			}
		}
		if (batch*c20BatchSize+k)%4001 == 3 {
			c.Sample(map[string]any{"kind": "end-to-end", "entry_rule": ent, "origin": origin, "input": clip(s, 120), "accepted": ref.Accepted(), "steps_of_reference": ref.Steps})
		}
	}
	// coverage of the grammar by the reference interpreter, per node
	var walk func(rule string, n *pegread.Node)
	walk = func(rule string, n *pegread.Node) {
		if cv := c20Machine.Cover[n]; cv != nil {
			if cv[0] > 0 {
				c.Add(fmt.Sprintf("e2ecover:%s%d:m", rule, n.Index), cv[0])
			}
			if cv[1] > 0 {
				c.Add(fmt.Sprintf("e2ecover:%s%d:f", rule, n.Index), cv[1])
			}
			cv[0], cv[1] = 0, 0
		}
		for _, k := range n.Kids {
			walk(rule, k)
		}
	}
	for _, r := range g.Rules {
		walk(r.Name, r.Expr)
	}
}

// c20CoverSummary folds the per-node coverage counters into a summary.
func c20CoverSummary(a *mon.Agg) {
	matched, failed, both := 0, 0, 0
	m := map[string][2]bool{}
	for k := range a.Counters {
		if !strings.HasPrefix(k, "e2ecover:") {
			continue
		}
		parts := strings.Split(k, ":")
		v := m[parts[1]]
		if parts[2] == "m" {
			v[0] = true
		} else {
			v[1] = true
		}
		m[parts[1]] = v
		delete(a.Counters, k)
	}
	var never []string
	for _, v := range m {
		if v[0] {
			matched++
		}
		if v[1] {
			failed++
		}
		if v[0] && v[1] {
			both++
		}
	}
	_ = never
	a.Counters["e2e_grammar_nodes_reached"] = int64(len(m))
	a.Counters["e2e_grammar_nodes_seen_matching"] = int64(matched)
	a.Counters["e2e_grammar_nodes_seen_failing"] = int64(failed)
	a.Counters["e2e_grammar_nodes_seen_both_ways"] = int64(both)
}
