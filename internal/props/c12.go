package props

import (
	"encoding/json"
	"fmt"
	"math/rand"
	"os"
	"path/filepath"
	"reflect"
	"regexp"
	"runtime"
	"sort"
	"strings"
	"sync"
	"time"

	bexpr "github.com/hashicorp/go-bexpr"

	"verif/internal/mon"
	"verif/internal/refsem"
	"verif/internal/univ"
	"verif/internal/xgen"
)

// C12 - one Evaluator or Filter shared by concurrent goroutines. The binary
// is built with -race; the worker runs with GORACE="halt_on_error=0
// log_path=..." and reads the race log after every round.

type c12Item struct {
	text  string
	opts  func() []bexpr.Option
	data  []func() interface{} // constructors: a fresh private copy per call
	descr string
}

var c12FixedData = func() *univ.Node {
	obj := univ.IfaceMap
	return obj(
		"s", univ.Str("alpha"), "n", univ.Int(5), "f", univ.Float(1.5), "b", univ.Bool(true), "e", univ.IfaceSlice(),
		"l", univ.IfaceSlice(univ.Int(1), univ.Int(2), univ.Int(3)), "ls", univ.Slice(univ.SliceOf(univ.TString), univ.Str("alpha"), univ.Str("beta")),
		"m", obj("x", univ.Int(1), "y", univ.Int(2), "z", univ.IfaceSlice()),
		"a", obj("b", obj("c", univ.IfaceSlice(univ.Int(1), univ.Int(2), univ.Int(7)), "d", obj("e", obj("f", obj("g", univ.IfaceSlice(univ.Str("alpha"), univ.Str("q"))))))),
		"objs", univ.IfaceSlice(obj("name", univ.Str("web-1"), "tags", univ.IfaceSlice(univ.Str("a"), univ.Str("b")), "port", univ.Int(80)), obj("name", univ.Str("db-2"), "tags", univ.IfaceSlice(univ.Str("c")), "port", univ.Int(5432))),
		"st", univ.Struct(univ.StructOf(univ.Field{Name: "Name", Tag: `bexpr:"name" alt:"altname"`, Type: univ.TString}, univ.Field{Name: "Hidden", Tag: `bexpr:"-"`, Type: univ.TString}, univ.Field{Name: "L", Type: univ.SliceOf(univ.TInt)}), univ.Str("go"), univ.Str("h"), univ.Slice(univ.SliceOf(univ.TInt), univ.Int(4), univ.Int(5))),
		"w", univ.Struct(univ.StructOf(univ.Field{Name: "Wrapped", Type: univ.TString}), univ.Str("inner")),
		"deep", univ.IfaceSlice(obj("b", univ.IfaceSlice(obj("c", univ.IfaceSlice(obj("d", univ.IfaceSlice(obj("k", univ.Int(1), "e", univ.IfaceSlice(obj("f", univ.IfaceSlice(univ.Int(3)))))))))))),
	)
}()

var c12FixedExprs = []string{
	`s == "alpha"`, `s != "alpha"`, `n == 5`, `f == 1.5`, `b == true`, `"alpha" in ls`, `7 not in a.b.c`, `ls contains "beta"`, `s contains "lph"`, `x in m`, `e is empty`, `l is not empty`,
	`s matches "^al.*a$"`, `s not matches "^b"`, `s matches "a+"`, `"/a/b/d/e/f/g/0" matches "^alp"`, `s matches "("`, `n matches "5"`,
	`any l as v { v == 3 }`, `all l as i, v { v != i }`, `any l as i, _ { i == 2 }`, `all l as _, v { v != 9 }`, `any m as k { k == "y" }`, `any m as k, v { v == 2 }`, `all m as _, v { v != 3 }`, `any m as k, _ { k matches "^z" }`,
	`any a.b.c as x { x == 7 }`, `all a.b.c as x { x != 9 and x != 10 }`, `any a.b.c as i, x { x == 7 and i == 2 }`, `any "/a/b/c" as x { x == 2 }`, `any a.b.d.e.f.g as x { x matches "^q" }`, `all a.b.d.e.f as k, v { k == "g" }`, `any a.b.d.e.f as k, v { "q" in v }`,
	`any objs as o { o.name matches "^web" and (any o.tags as t { t == "b" }) }`, `all objs as o { o.port != 0 and (all o.tags as t { t not matches "^z" }) }`, `any objs as i, o { any o.tags as j, t { t == "c" and j == 0 and i == 1 } }`,
	`any ls as x { x matches "^be" }`, `all ls as x { x not matches "^z" and x matches "a$" }`, `any objs as o { o.zz == 1 }`, `zz == 1`, `m.zz == 1`, `m.zz != 1`, `any m.zz as x { x == 1 }`, `not (s == "alpha") or (n == 5 and f != 2)`,
	`st.name == go`, `st.L.1 == 5`, `any st.L as v { v == 4 }`, `st.Hidden == h`, `(any objs as o { o.name == "db-2" }) and (any l as v { v == 1 })`, `all l as v { any l as w { w == v } }`,
	// many regular expressions in ONE expression (more than any batch size of a creation-time pass)
	func() string {
		var sb strings.Builder
		for i := 0; i < 150; i++ {
			fmt.Fprintf(&sb, `s matches "^never%d$" or `, i)
		}
		sb.WriteString(`s matches "^alpha$"`)
		return sb.String()
	}(),
	func() string {
		var sb strings.Builder
		for i := 0; i < 70; i++ {
			fmt.Fprintf(&sb, `s not matches "^n%d" and `, i)
		}
		sb.WriteString(`(any ls as x { x matches "^be" })`)
		return sb.String()
	}(),
	// value aliases four to six quantifiers deep: the rewritten paths have 9..13 parts; absent last keys
	`any deep as x { any x.b as y { any y.c as z { any z.d as w { w.missing is empty } } } }`, `all deep as x { all x.b as y { all y.c as z { all z.d as w { w.missing != 1 and w.k == 1 } } } }`,
	`any deep as x { any x.b as y { any y.c as z { any z.d as w { any w.e as u { u.nope is empty and (any u.f as t { t == 3 }) } } } } }`, `any deep as x { any x.b as y { any y.c as z { any z.d as w { w.missing == 1 } } } }`,
	`any deep as _, x { any x.b as _, y { any y.c as _, z { any z.d as i, w { w.gone not in l or i == 0 } } } }`,
}

func c12Pool(r *rand.Rand, n int) []c12Item {
	var pool []c12Item
	fixed := []func() interface{}{func() interface{} { return c12FixedData.Datum() }}
	for _, e := range c12FixedExprs {
		pool = append(pool, c12Item{text: e, opts: func() []bexpr.Option { return nil }, data: fixed, descr: "fixed"})
	}
	// option variants
	pool = append(pool,
		c12Item{text: `zz == "u" or any objs as o { o.nope == "u" }`, opts: func() []bexpr.Option { return []bexpr.Option{bexpr.WithUnknownValue("u")} }, data: fixed, descr: "unknown"},
		c12Item{text: `st.altname == go and (any st.L as v { v == 5 })`, opts: func() []bexpr.Option { return []bexpr.Option{bexpr.WithTagName("alt")} }, data: fixed, descr: "tag"},
		c12Item{text: `w == inner and (any l as v { v == 2 }) and s matches "^a"`, opts: func() []bexpr.Option { return []bexpr.Option{bexpr.WithHookFn(hookUnwrap{}.Real())} }, data: fixed, descr: "hook-unwrap"},
		c12Item{text: `(any a.b.c as x { x == 7 }) and (any objs as o { any o.tags as t { t == "c" } })`, opts: func() []bexpr.Option {
			h := func(v reflect.Value) reflect.Value { runtime.Gosched(); return v }
			return []bexpr.Option{bexpr.WithHookFn(h)}
		}, data: fixed, descr: "hook-gosched"},
		c12Item{text: `(all a.b.d.e.f.g as x { x matches "^[a-z]+$" }) and (any m as k, v { k == "y" and v == 2 })`, opts: func() []bexpr.Option {
			h := func(v reflect.Value) reflect.Value { runtime.Gosched(); return v }
			return []bexpr.Option{bexpr.WithHookFn(h), bexpr.WithMaxExpressions(100000)}
		}, data: fixed, descr: "hook-gosched+budget"},
	)
	pool = append(pool,
		c12Item{text: `zz == "x" or any l as v { v == 3 }`, opts: func() []bexpr.Option { return []bexpr.Option{bexpr.WithUnknownValue("u")} }, data: fixed, descr: "unknown+quantifier"},
		c12Item{text: `all objs as i, o { o.port != i and (any o.tags as t { t != "u" }) }`, opts: func() []bexpr.Option {
			return []bexpr.Option{bexpr.WithHookFn(hookIdentity{}.Real()), bexpr.WithUnknownValue("u")}
		}, data: fixed, descr: "unknown+hook+quantifier"},
		c12Item{text: `any m as k, v { k == "y" and v == 2 }`, opts: func() []bexpr.Option {
			return []bexpr.Option{bexpr.WithUnknownValue(1), bexpr.WithTagName("alt"), bexpr.WithHookFn(hookIdentity{}.Real())}
		}, data: fixed, descr: "unknown+tag+hook+quantifier"},
	)
	// exported options that name things the expression never mentions: three
	// creation-time local variables (on this tree: ignored)
	pool = append(pool,
		c12Item{text: `(any l as v { v == 3 }) and (all objs as i, o { o.port != i and (any o.tags as t { t != "u" }) })`, opts: func() []bexpr.Option {
			return []bexpr.Option{bexpr.WithLocalVariable("unused1", nil, 1), bexpr.WithLocalVariable("unused2", []string{"s"}, nil), bexpr.WithLocalVariable("unused3", nil, "x")}
		}, data: fixed, descr: "preset-locals+quantifier"},
		c12Item{text: `any m as k, v { k == "y" and v == 2 }`, opts: func() []bexpr.Option {
			return []bexpr.Option{bexpr.WithLocalVariable("unused1", nil, 1), bexpr.WithLocalVariable("unused2", nil, 2), bexpr.WithLocalVariable("unused3", nil, 3), bexpr.WithLocalVariable("unused4", nil, 4), bexpr.WithLocalVariable("unused5", nil, 5), bexpr.WithUnknownValue("u")}
		}, data: fixed, descr: "preset-locals+quantifier"},
	)
	// evaluators created from 5, 7 and 9 options (nil entries and repeats count)
	for _, no := range []int{5, 7, 9, 6} {
		no := no
		pool = append(pool, c12Item{text: `(any objs as o { o.name matches "^db" and (any o.tags as t { t == "c" }) }) and zz == u`, opts: func() []bexpr.Option {
			l := []bexpr.Option{bexpr.WithUnknownValue("x"), nil, bexpr.WithTagName("alt"), bexpr.WithHookFn(hookIdentity{}.Real()), bexpr.WithTagName("bexpr"), nil, bexpr.WithMaxExpressions(0), bexpr.WithUnknownValue("y"), bexpr.WithUnknownValue("u")}
			return append(l[len(l)-no:len(l)-1:len(l)-1], bexpr.WithUnknownValue("u"))
		}, data: fixed, descr: "many-options+quantifier"})
	}
	// datum-directed random ones
	for len(pool) < n {
		doc := univ.GenObj(r, 4, true)
		seed := r.Int63()
		mode := r.Intn(5)
		node := univ.Represent(rand.New(rand.NewSource(seed)), doc, univ.Policy{Mode: mode, Hidden: true, HiddenSeed: 1})
		g := newEgen(r, node, &refsem.Options{})
		g.pQuant, g.pBroken = 0.5, 0.15
		e := g.expr(2+r.Intn(3), 0)
		text := (&xgen.Renderer{R: r}).Render(e)
		node2 := univ.Represent(rand.New(rand.NewSource(seed+1)), doc, univ.Policy{Mode: (mode + 1) % 5})
		pool = append(pool, c12Item{text: text, opts: func() []bexpr.Option { return nil }, descr: "random",
			data: []func() interface{}{func() interface{} { return node.Datum() }, func() interface{} { return node2.Datum() }}})
	}
	return pool
}

type c12Call struct {
	start, end int64
	cls        string
	datum      int
}

var raceBlockRe = regexp.MustCompile(`(?s)WARNING: DATA RACE.*?==================`)

// c12ReadRaceLogs returns the new race report blocks since the last call.
var c12Seen = map[string]bool{}

func c12ReadRaceLogs() []string {
	work := os.Getenv("VERIF_WORK")
	if work == "" {
		return nil
	}
	files, _ := filepath.Glob(filepath.Join(work, "race.*"))
	var out []string
	for _, f := range files {
		b, err := os.ReadFile(f)
		if err != nil {
			continue
		}
		for _, blk := range raceBlockRe.FindAllString(string(b), -1) {
			if !c12Seen[blk] {
				c12Seen[blk] = true
				out = append(out, blk)
			}
		}
	}
	return out
}

var frameRe = regexp.MustCompile(`(?m)^\s+(\S+)\(`)

// raceSig: the innermost go-bexpr frame of each of the two stacks.
func raceSig(blk string) (string, bool) {
	parts := regexp.MustCompile(`(?m)^(Previous|Goroutine)`).Split(blk, -1)
	var frames []string
	for i, p := range parts {
		if i > 1 {
			break
		}
		for _, m := range frameRe.FindAllStringSubmatch(p, -1) {
			if strings.Contains(m[1], "go-bexpr") {
				frames = append(frames, strings.TrimPrefix(m[1], "github.com/hashicorp/go-bexpr"))
				break
			}
		}
	}
	if len(frames) == 0 {
		return "", false
	}
	sort.Strings(frames)
	return strings.Join(frames, " <-> "), true
}

var c12Cold = true

// c12ColdStart: the very first parser uses of the process happen
// concurrently (lazily built global state would be written here).
func c12ColdStart(c *mon.Ctx) {
	if !c12Cold {
		return
	}
	c12Cold = false
	const G = 16
	var ready, done sync.WaitGroup
	gate := make(chan struct{})
	fails := make([]string, G)
	ready.Add(G)
	done.Add(G)
	for gi := 0; gi < G; gi++ {
		gi := gi
		go func() {
			defer done.Done()
			text := c12FixedExprs[gi%len(c12FixedExprs)]
			ready.Done()
			<-gate
			switch gi % 3 {
			case 0:
				if ev, err, pan, _ := createEval(text); pan != "" || err != nil || ev == nil {
					fails[gi] = "CreateEvaluator(" + text + "): " + fmt.Sprint(err) + pan
				}
			case 1:
				var f *bexpr.Filter
				var err error
				if t := mon.Try(func() { f, err = bexpr.CreateFilter(text) }); t.Panic || err != nil || f == nil {
					fails[gi] = "CreateFilter(" + text + "): " + fmt.Sprint(err) + t.PanicVal
				}
			default:
				if _, err, pan, _ := parsePublic(text); pan != "" || err != nil {
					fails[gi] = "Parse(" + text + "): " + fmt.Sprint(err) + pan
				}
			}
		}()
	}
	ready.Wait()
	close(gate)
	done.Wait()
	for _, f := range fails {
		if f != "" {
			c.Violation("C12 concurrent-first-creation-failed", "creating evaluators concurrently as the first parser use of the process failed", map[string]any{"failure": f})
			break
		}
	}
	c.Count("cold_start_concurrent_creations")
}

// c12FilterArrays: one shared Filter executed concurrently on Go arrays (and
// slices, maps) of different types.
func c12FilterArrays(c *mon.Ctx) {
	type e1 struct{ A int }
	type e2 struct {
		A int
		B string
	}
	inputs := []func() interface{}{
		func() interface{} { return [3]e1{{1}, {2}, {1}} },
		func() interface{} { return [2]e2{{1, "x"}, {3, "y"}} },
		func() interface{} { return [4]map[string]interface{}{{"A": 1}, {"A": 2}, {"A": 1}, {"A": 1}} },
		func() interface{} { return []e1{{1}, {5}} },
		func() interface{} { return map[string]e2{"k": {1, "x"}, "l": {2, "y"}} },
		func() interface{} { return [0]e1{} },
	}
	for _, text := range []string{`A == 1`, `A != 1`} {
		shared, _ := bexpr.CreateFilter(text)
		want := make([]string, len(inputs))
		for i, mk := range inputs {
			fresh, _ := bexpr.CreateFilter(text)
			x := execute(fresh, mk())
			want[i] = fmt.Sprintf("%T %#v err=%v %s", x.out, x.out, x.err != nil, x.panic)
		}
		const G = 12
		var ready, done sync.WaitGroup
		gate := make(chan struct{})
		bad := make([]string, G)
		ready.Add(G)
		done.Add(G)
		for gi := 0; gi < G; gi++ {
			gi := gi
			go func() {
				defer done.Done()
				ready.Done()
				<-gate
				for k := 0; k < 40; k++ {
					i := (gi + k) % len(inputs)
					x := execute(shared, inputs[i]())
					if got := fmt.Sprintf("%T %#v err=%v %s", x.out, x.out, x.err != nil, x.panic); got != want[i] && bad[gi] == "" {
						bad[gi] = "input " + fmt.Sprint(i) + ": concurrent " + got + " / sequential " + want[i]
					}
				}
			}()
		}
		ready.Wait()
		close(gate)
		done.Wait()
		for _, b := range bad {
			if b != "" {
				c.Violation("C12 concurrent-filter-result-differs arrays", "a Filter shared by goroutines filtering containers of different types returned something else than sequentially", map[string]any{"expression": text, "difference": clip(b, 600)})
				break
			}
		}
		c.Add("concurrent_calls", G*40)
		c.Count("shared_filter_over_mixed_container_types")
	}
}

// c12FreshTypes: `matches` on values of Go types the process has never seen
// before, met for the first time by several goroutines at once (no sequential
// warm-up: the expected outcome is known by construction - arrays are not
// convertible to []byte, so it is an error).
var c12TypeSeq = 1000

func c12FreshTypes(c *mon.Ctx) {
	ev, err, pan, _ := createEval(`v matches "^a" or v not matches "b"`)
	ev2, err2, _, _ := createEval(`any l as x { x matches "a" }`)
	if pan != "" || err != nil || err2 != nil {
		return
	}
	const G = 12
	base := c12TypeSeq
	c12TypeSeq += G * 8
	var ready, done sync.WaitGroup
	gate := make(chan struct{})
	bad := make([]string, G)
	ready.Add(G)
	done.Add(G)
	for gi := 0; gi < G; gi++ {
		gi := gi
		go func() {
			defer done.Done()
			ready.Done()
			<-gate
			for k := 0; k < 8; k++ {
				// every goroutine pair shares a fresh type, and each has its own
				n := base + (gi/2)*8 + k
				if k%2 == 1 {
					n = base + gi*8 + k
				}
				arr := reflect.New(reflect.ArrayOf(n%97+2, reflect.TypeOf(uint8(0)))).Elem()
				typ := reflect.ArrayOf(n, reflect.TypeOf(uint8(0)))
				arr = reflect.New(typ).Elem()
				o := evaluate(ev, map[string]interface{}{"v": arr.Interface()})
				if o.Class() != "E" && bad[gi] == "" {
					bad[gi] = fmt.Sprintf("%s on %s: %s", ev.Expression(), typ, o.String())
				}
				o2 := evaluate(ev2, map[string]interface{}{"l": []interface{}{arr.Interface()}})
				if o2.Class() != "E" && bad[gi] == "" {
					bad[gi] = fmt.Sprintf("%s on %s: %s", ev2.Expression(), typ, o2.String())
				}
			}
		}()
	}
	ready.Wait()
	close(gate)
	done.Wait()
	for _, b := range bad {
		if b != "" {
			c.Violation("C12 concurrent-result-differs fresh-types", "matches on a value of a fresh, non-convertible type did not return an error under concurrency", map[string]any{"detail": b})
			break
		}
	}
	c.Add("concurrent_calls", G*16)
	c.Count("fresh_type_first_sight_rounds")
}

// c12GrowingLists: goroutines walk lists, each round longer than any list
// the process has walked before (300 ... 70000 elements), while others
// evaluate quantifiers over short lists: process-wide tables that grow with
// the largest index / length seen would be written while being read.
var c12MaxList = 0

func c12GrowingLists(c *mon.Ctx) {
	steps := []int{300, 700, 1500, 4000, 9000, 20000, 40000, 66000, 70000, 90000}
	next := steps[len(steps)-1] + c12MaxList/10 + 1000
	for _, s := range steps {
		if s > c12MaxList {
			next = s
			break
		}
	}
	c12MaxList = next
	const G = 12
	texts := []string{`any l as i, v { v == 1 }`, `any l as v { v == 1 }`, `all l as i, _ { i != 99999999 }`, `any l as i, _ { i == LAST }`, `any s as i, v { v == 2 and i == 1 }`, `all s as v { v != 9 }`}
	mkList := func(n int) map[string]interface{} {
		l := make([]int, n)
		l[n-1] = 1
		return map[string]interface{}{"l": l, "s": []interface{}{1, 2, 3}}
	}
	var ready, done sync.WaitGroup
	gate := make(chan struct{})
	fails := make([]string, G)
	ready.Add(G)
	done.Add(G)
	for gi := 0; gi < G; gi++ {
		gi := gi
		go func() {
			defer done.Done()
			n := 3 + gi
			if gi%3 == 0 {
				n = next - gi // the long walkers, each a different length
			}
			text := strings.ReplaceAll(texts[gi%len(texts)], "LAST", fmt.Sprintf("%d", n-1))
			ev, err, pan, _ := createEval(text)
			datum := mkList(n)
			ready.Done()
			<-gate
			if pan != "" || err != nil {
				fails[gi] = "create: " + fmt.Sprint(err) + pan
				return
			}
			for k := 0; k < 3; k++ {
				if o := evaluate(ev, datum); o.Class() != "T" {
					fails[gi] = fmt.Sprintf("%s on a list of %d elements: %s (want T)", text, n, o.String())
					return
				}
			}
		}()
	}
	ready.Wait()
	close(gate)
	done.Wait()
	for _, f := range fails {
		if f != "" {
			c.Violation("C12 concurrent-result-differs growing-lists", "a quantifier evaluated concurrently with walks over longer lists than ever before gave a wrong result", map[string]any{"failure": f, "longest_list": next})
			break
		}
	}
	c.Count("growing_list_rounds")
	c.Add("longest_list_walked_concurrently", int64(next))
}

// c12ManyPatterns: goroutines create evaluators for more distinct patterns,
// literals and selectors than any small cache holds (80 new ones per round,
// recurring), concurrently, and use each at once: the evaluator must be the
// one for ITS expression.
var c12PatternBase = 0

func c12ManyPatterns(c *mon.Ctx) {
	base := c12PatternBase
	c12PatternBase += 80
	const G = 16
	const P = 80
	var ready, done sync.WaitGroup
	gate := make(chan struct{})
	fails := make([]string, G)
	created := make([]int, G)
	ready.Add(G)
	done.Add(G)
	for gi := 0; gi < G; gi++ {
		gi := gi
		go func() {
			defer done.Done()
			ready.Done()
			<-gate
			for k := 0; k < 120; k++ {
				j := base + (gi*7+k*(1+gi%5))%P
				name := fmt.Sprintf("p%d", j)
				other := fmt.Sprintf("p%d", j+1)
				var text string
				uname := []string{"é", "ü", "ñ", "ω", "ж", "日", "ǩ", "ö", "ç"}[(j+gi)%9] + fmt.Sprintf("%d", j)
				switch (k + gi) % 5 {
				case 4:
					text = fmt.Sprintf(`"/u/%s" == 1 and "/u/%sx" != 1`, uname, uname)
				case 0:
					text = fmt.Sprintf(`x matches "^%s$"`, name)
				case 1:
					text = fmt.Sprintf(`x not matches "^%s$"`, other)
				case 2:
					text = fmt.Sprintf(`x == %s and m.%s == 1`, name, name)
				case 3:
					text = fmt.Sprintf(`"%s" in l and (any l as v { v matches "^%s$" })`, name, name)
				}
				// an INVALID expression created concurrently: its error is its own
				bad := fmt.Sprintf(`x == "%s\q" and y%d ==`, name, j)
				if _, berr, bpan, _ := createEval(bad); bpan != "" || berr == nil {
					fails[gi] = "create " + bad + ": no error / panic " + bpan
					return
				} else {
					msg := berr.Error()
					runtime.Gosched()
					if _, serr, _, _ := createEval(bad); serr == nil || msg != berr.Error() || !strings.Contains(msg, "invalid syntax") && !strings.Contains(msg, "no match") {
						fails[gi] = fmt.Sprintf("the error of %q changed after it was returned: %q then %q", bad, msg, berr.Error())
						return
					}
				}
				ev, err, pan, _ := createEval(text)
				if pan != "" || err != nil || ev == nil {
					fails[gi] = "create " + text + ": " + fmt.Sprint(err) + pan
					return
				}
				created[gi]++
				yes := map[string]interface{}{"x": name, "m": map[string]interface{}{name: 1, other: 2}, "l": []interface{}{"q", name}, "u": map[string]interface{}{uname: 1, uname + "x": 2}}
				no := map[string]interface{}{"x": other, "m": map[string]interface{}{name: 2, other: 1}, "l": []interface{}{"q", other}, "u": map[string]interface{}{uname: 2, uname + "x": 2}}
				if o := evaluate(ev, yes); o.Class() != "T" {
					fails[gi] = fmt.Sprintf("%s on x=%s: %s (want T)", text, name, o.String())
					return
				}
				if o := evaluate(ev, no); o.Class() != "F" {
					fails[gi] = fmt.Sprintf("%s on x=%s: %s (want F)", text, other, o.String())
					return
				}
			}
		}()
	}
	ready.Wait()
	close(gate)
	done.Wait()
	for _, f := range fails {
		if f != "" {
			c.Violation("C12 concurrent-result-differs many-patterns", "an evaluator created concurrently with many others does not answer for its own expression", map[string]any{"failure": f})
			break
		}
	}
	n := 0
	for _, k := range created {
		n += k
	}
	c.Add("evaluators_created_concurrently_over_many_patterns", int64(n))
	c.Count("many_pattern_rounds")
}

// c12SharedOptionSlice: goroutines create evaluators at once from ONE
// caller-owned option slice (with nil entries in several positions) spread
// into the call; the slice must still hold what the caller put there.
func c12SharedOptionSlice(c *mon.Ctx) {
	const G = 12
	tag, unk, hk := bexpr.WithTagName("alt"), bexpr.WithUnknownValue(json.Number("7")), bexpr.WithHookFn(hookIdentity{}.Real())
	shared := []bexpr.Option{nil, tag, nil, nil, unk, hk, nil}
	want := []bool{true, false, true, true, false, false, true}
	data := make([]interface{}, G)
	for i := range data {
		data[i] = c12FixedData.Datum() // built here: the data universe is not meant for concurrent use
	}
	var ready, done sync.WaitGroup
	gate := make(chan struct{})
	fails := make([]string, G)
	ready.Add(G)
	done.Add(G)
	for gi := 0; gi < G; gi++ {
		gi := gi
		go func() {
			defer done.Done()
			ready.Done()
			<-gate
			ev, err, pan, _ := createEval(`st.altname == go and zz == 7 and zz != 8`, shared...)
			if pan != "" || err != nil {
				fails[gi] = "create: " + fmt.Sprint(err) + pan
				return
			}
			if o := evaluate(ev, data[gi]); o.Class() != "T" {
				fails[gi] = "st.altname == go and zz == 7 and zz != 8 with [nil, tag alt, nil, nil, unknown json.Number(7), identity hook, nil]: " + o.String() + " (want T)"
			}
		}()
	}
	ready.Wait()
	close(gate)
	done.Wait()
	for i, o := range shared {
		if (o == nil) != want[i] {
			fails[0] += fmt.Sprintf(" caller's slice changed at position %d", i)
		}
	}
	for _, f := range fails {
		if f != "" {
			c.Violation("C12 concurrent-result-differs shared-option-slice", "evaluators created concurrently from one caller-owned option slice (with nil entries) are wrong, or the caller's slice was changed", map[string]any{"failure": f})
			break
		}
	}
	c.Count("shared_option_slice_rounds")
}

// c12LongChainShared: one evaluator for a flat chain of 70 000 operands
// (nothing short-circuits) evaluated by 16 goroutines at once: the depths in
// flight add up to more than 10^6.
var c12ChainDone = false

func c12LongChainShared(c *mon.Ctx) {
	if c12ChainDone {
		return
	}
	c12ChainDone = true
	n := 70000
	text := "a != 0" + strings.Repeat(" and a != 0", n-1)
	ev, err, pan, _ := createEval(text)
	if pan != "" || err != nil {
		c.Violation("C12 long-chain create-failed", "a flat chain was rejected", map[string]any{"operands": n, "error": clip(fmt.Sprint(err)+pan, 200)})
		return
	}
	const G = 16
	datum := map[string]interface{}{"a": 1}
	var ready, done sync.WaitGroup
	gate := make(chan struct{})
	fails := make([]string, G)
	ready.Add(G)
	done.Add(G)
	for gi := 0; gi < G; gi++ {
		gi := gi
		go func() {
			defer done.Done()
			ready.Done()
			<-gate
			for k := 0; k < 6; k++ {
				if o := evaluate(ev, datum); o.Class() != "T" {
					fails[gi] = o.String()
					return
				}
			}
		}()
	}
	ready.Wait()
	close(gate)
	done.Wait()
	for _, f := range fails {
		if f != "" {
			c.Violation("C12 concurrent-result-differs long-chain", "a 70 000-operand chain evaluated by 16 goroutines at once did not give the sequential result", map[string]any{"observed": clip(f, 300), "want": "(true, nil)"})
			break
		}
	}
	c.Count("long_chain_shared_rounds")
}

func c12Run(c *mon.Ctx, idx int) {
	procs := []int{16, 4, 2}[idx%3]
	old := runtime.GOMAXPROCS(procs)
	defer runtime.GOMAXPROCS(old)
	c12ColdStart(c)
	c12FreshTypes(c)
	c12FilterArrays(c)
	c12GrowingLists(c)
	c12ManyPatterns(c)
	c12SharedOptionSlice(c)
	c12LongChainShared(c)
	r := c.RNG(idx)
	nEval := tierN(c.Tier, 110, 600)
	G := tierN(c.Tier, 12, 24)
	calls := tierN(c.Tier, 12, 30)
	pool := c12Pool(r, nEval)
	var overlapFirst, overlapAll, totalCalls int64
	for pi, it := range pool {
		c.Risk("evaluator " + clip(it.text, 100))
		ev, err, pan, _ := createEval(it.text, it.opts()...)
		if pan != "" || err != nil {
			c.Count("unparsed")
			c.Note("unparsed", clip(it.text, 100))
			continue
		}
		// sequential reference results: a FRESH evaluator per datum (the shared
		// one is not touched before the barrier, so first-use races on lazily
		// initialised state are exercised)
		want := make([]string, len(it.data))
		for di, mk := range it.data {
			fresh, _, _, _ := createEval(it.text, it.opts()...)
			want[di] = evaluate(fresh, mk()).Class()
		}
		freshAST := ""
		if fresh, _, _, _ := createEval(it.text, it.opts()...); fresh != nil {
			freshAST = astDump(fresh.VerifAST())
		}
		shared := make([]interface{}, len(it.data))
		for di, mk := range it.data {
			shared[di] = mk()
		}
		var filt *bexpr.Filter
		if it.descr == "fixed" || it.descr == "random" {
			filt, _ = bexpr.CreateFilter(it.text)
		}
		var wantFilter string
		var filterIn interface{}
		if filt != nil {
			filterIn = []interface{}{shared[0], shared[len(shared)-1], shared[0]}
			ff, _ := bexpr.CreateFilter(it.text)
			x := execute(ff, filterIn)
			wantFilter = fmt.Sprintf("%d/%v/%s", lenOf(x.out), x.err != nil, x.panic)
		}
		results := make([][]c12Call, G)
		filterRes := make([]string, G)
		var start sync.WaitGroup
		var done sync.WaitGroup
		barrier := make(chan struct{})
		start.Add(G)
		done.Add(G)
		for gi := 0; gi < G; gi++ {
			gi := gi
			results[gi] = make([]c12Call, 0, calls)
			go func() {
				defer done.Done()
				lr := rand.New(rand.NewSource(int64(idx*100000 + pi*100 + gi)))
				start.Done()
				<-barrier
				// no synchronisation between workers from here to the join
				for k := 0; k < calls; k++ {
					di := (gi + k) % len(it.data)
					var datum interface{}
					if k == 0 || lr.Intn(2) == 0 {
						datum = shared[di] // the same shared datum
					} else {
						datum = it.data[di]() // a private copy
					}
					t0 := time.Now().UnixNano()
					o := evaluate(ev, datum)
					t1 := time.Now().UnixNano()
					results[gi] = append(results[gi], c12Call{t0, t1, o.Class(), di})
					if k == 1 && gi%3 == 0 {
						// create evaluators concurrently
						if e2, err2, p2, _ := createEval(it.text, it.opts()...); p2 != "" || err2 != nil || e2 == nil {
							results[gi] = append(results[gi], c12Call{t0, t1, "create-failed", di})
						}
					}
					if k == 2 && filt != nil {
						x := execute(filt, filterIn)
						filterRes[gi] = fmt.Sprintf("%d/%v/%s", lenOf(x.out), x.err != nil, x.panic)
					}
				}
			}()
		}
		start.Wait()
		close(barrier)
		done.Wait()
		// (b) every concurrent result equals the sequential result of a fresh evaluator
		for gi := range results {
			for k, cl := range results[gi] {
				totalCalls++
				if cl.cls != want[cl.datum] {
					c.Violation(fmt.Sprintf("C12 concurrent-result-differs got=%s want=%s kind=%s", cl.cls, want[cl.datum], it.descr), "a concurrent call returned something else than the same call made sequentially",
						map[string]any{"expression": clip(it.text, 300), "goroutine": gi, "call": k, "gomaxprocs": procs, "concurrent": cl.cls, "sequential_fresh": want[cl.datum]})
					break
				}
			}
			if filt != nil && filterRes[gi] != "" && filterRes[gi] != wantFilter {
				c.Violation("C12 concurrent-filter-result-differs kind="+it.descr, "a concurrent Execute returned something else than a sequential one", map[string]any{"expression": clip(it.text, 300), "concurrent": filterRes[gi], "sequential": wantFilter})
			}
		}
		// (c) the shared evaluator's syntax tree is what a fresh parse gives
		if got := astDump(ev.VerifAST()); freshAST != "" && got != freshAST {
			c.Violation("C12 syntax-tree-changed kind="+it.descr, "after concurrent use the shared evaluator's syntax tree differs from a fresh one", map[string]any{"expression": clip(it.text, 300), "shared": clip(got, 900), "fresh": clip(freshAST, 900)})
		}
		// evidence: overlapping intervals
		firstOverlap := false
		for a := 0; a < G; a++ {
			for b := a + 1; b < G; b++ {
				ra, rb := results[a], results[b]
				if len(ra) > 0 && len(rb) > 0 && ra[0].start < rb[0].end && rb[0].start < ra[0].end {
					firstOverlap = true
				}
				for _, x := range ra {
					for _, y := range rb {
						if x.start < y.end && y.start < x.end {
							overlapAll++
						}
					}
				}
			}
		}
		if firstOverlap {
			overlapFirst++
		}
		c.Count("evaluators_shared")
		c.Count("evaluator_kind:" + it.descr)
		c.Distinct(fmt.Sprintf("%d|%s", procs, it.text))
		if pi%37 == 0 {
			c.Sample(map[string]any{"expression": clip(it.text, 160), "goroutines": G, "calls_each": calls, "gomaxprocs": procs, "kind": it.descr})
		}
	}
	c.Add("concurrent_calls", totalCalls)
	c.Add("overlapping_call_pairs", overlapAll)
	c.Add("evaluators_with_overlapping_first_calls", overlapFirst)
	c.Evals(int(totalCalls))
	// (a) race reports
	for _, blk := range c12ReadRaceLogs() {
		c.Count("race_report_blocks")
		sig, ok := raceSig(blk)
		if !ok {
			c.Count("harness_only_race_blocks")
			c.Note("harness_race", clip(blk, 600))
			continue
		}
		c.Violation("C12 race "+sig, "the race detector reported a data race in go-bexpr between goroutines sharing an evaluator / filter", map[string]any{"report": clip(blk, 3000), "gomaxprocs": procs})
	}
	if os.Getenv("VERIF_WORK") != "" && strings.Contains(os.Getenv("GORACE"), "log_path") {
		c.Count("race_log_inspected")
	}
}

func lenOf(v interface{}) int {
	if v == nil {
		return -1
	}
	rv := reflect.ValueOf(v)
	switch rv.Kind() {
	case reflect.Slice, reflect.Map, reflect.Array:
		return rv.Len()
	}
	return -2
}

func init() {
	mon.Register(&mon.Prop{
		ID: "C12", Level: "exploration",
		Rule:          "binary built with -race (GORACE halt_on_error=0, log read after every round). per round (GOMAXPROCS 16 / 4 / 2 in turn) a pool of evaluators: 50 fixed expressions covering every operator incl. matches / not matches with distinct patterns also inside quantifier bodies, quantifiers in all binding modes over selectors of 1..7 segments, nesting, absent keys; option variants (unknown value, tag name, unwrap hook, hooks calling runtime.Gosched inside every lookup step, budget); datum-directed random expressions. per evaluator G goroutines are released by one barrier, make their first call at once on the same shared datum, then loop over shared and private data, some creating evaluators and executing a shared Filter meanwhile - no synchronisation between barrier and join. oracle: (a) zero race reports with a go-bexpr frame; (b) every concurrent result equals the result of the same call made sequentially on a FRESH evaluator; (c) at quiescence the shared evaluator's syntax tree (VerifAST hook, incl. spare capacity of selector paths and the regexp cache) equals a freshly created one. non-trivial = an evaluator shared by G goroutines; distinct by (GOMAXPROCS, expression)",
		Assumptions:   []string{"the race detector only sees accesses that execute: code the pool does not reach is not judged", "happens-before race detection makes the verdict independent of the particular interleaving observed; overlapping_call_pairs reports how much real overlap this run had"},
		NumCases:      func(tier string) int { return tierN(tier, 3, 6) },
		Run:           c12Run,
		SingleProcess: true,
		Extra:         map[string]any{"race": true},
		Required: func(tier string) []string {
			return []string{"evaluators_shared", "cold_start_concurrent_creations", "shared_filter_over_mixed_container_types", "fresh_type_first_sight_rounds", "growing_list_rounds", "many_pattern_rounds", "shared_option_slice_rounds", "long_chain_shared_rounds", "evaluator_kind:preset-locals+quantifier", "evaluator_kind:many-options+quantifier", "evaluator_kind:unknown+quantifier", "evaluator_kind:unknown+hook+quantifier", "concurrent_calls", "overlapping_call_pairs", "evaluators_with_overlapping_first_calls", "race_log_inspected", "evaluator_kind:fixed", "evaluator_kind:random", "evaluator_kind:hook-gosched", "evaluator_kind:unknown", "evaluator_kind:tag"}
		},
		Post: func(a *mon.Agg) {
			if a.Counters["harness_only_race_blocks"] > 0 {
				a.Inconclusive("the race detector reported a race without any go-bexpr frame (harness bug)")
			}
		},
	})
}
