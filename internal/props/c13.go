package props

import (
	"encoding/json"
	"fmt"
	"math/rand"
	"reflect"
	"strings"

	bexpr "github.com/hashicorp/go-bexpr"
	"github.com/hashicorp/go-bexpr/grammar"

	"verif/internal/mon"
	"verif/internal/refsem"
	"verif/internal/univ"
	"verif/internal/xgen"
)

// C13 - evaluation is pure and history-independent; Expression() returns the
// source. C14 - results do not depend on map iteration order.

// astDump renders the evaluator's syntax tree including the spare capacity of
// every selector path (where an append-aliasing bug would write); the regexp
// cache is reduced to its presence and pattern.
func astDump(e grammar.Expression) string {
	var sb strings.Builder
	var sel func(s grammar.Selector)
	sel = func(s grammar.Selector) {
		fmt.Fprintf(&sb, "sel(type=%d len=%d cap=%d %q", s.Type, len(s.Path), cap(s.Path), s.Path)
		if cap(s.Path) > len(s.Path) {
			fmt.Fprintf(&sb, " spare=%q", s.Path[len(s.Path):cap(s.Path)])
		}
		sb.WriteString(")")
	}
	var rec func(e grammar.Expression)
	rec = func(e grammar.Expression) {
		switch n := e.(type) {
		case *grammar.UnaryExpression:
			fmt.Fprintf(&sb, "U%d(", n.Operator)
			rec(n.Operand)
			sb.WriteString(")")
		case *grammar.BinaryExpression:
			fmt.Fprintf(&sb, "B%d(", n.Operator)
			rec(n.Left)
			sb.WriteString(",")
			rec(n.Right)
			sb.WriteString(")")
		case *grammar.MatchExpression:
			fmt.Fprintf(&sb, "M%d(", n.Operator)
			sel(n.Selector)
			if n.Value != nil {
				fmt.Fprintf(&sb, ",raw=%q", n.Value.Raw)
				switch cv := n.Value.Converted.(type) {
				case nil:
					sb.WriteString(",conv=nil")
				case interface{ String() string }:
					fmt.Fprintf(&sb, ",conv=%T:%s", cv, cv.String())
				default:
					fmt.Fprintf(&sb, ",conv=%T:%v", cv, cv)
				}
			}
			sb.WriteString(")")
		case *grammar.CollectionExpression:
			fmt.Fprintf(&sb, "C(%s,%+v,", n.Op, n.NameBinding)
			sel(n.Selector)
			sb.WriteString(",")
			rec(n.Inner)
			sb.WriteString(")")
		default:
			fmt.Fprintf(&sb, "<%T>", e)
		}
	}
	rec(e)
	return sb.String()
}

// c13Doc: the SAME root struct type whose interface-typed field holds a map
// in one datum and a struct (or nil, or a pointer) in the next: anything
// memoised per (root type, selector) would be replayed on the wrong shape.
type c13Doc struct {
	Name string
	Meta interface{}
	L    []interface{}
}
type c13Meta struct {
	Env  string `bexpr:"env"`
	Tier int
}

func c13SameRootType(c *mon.Ctx, r *rand.Rand) {
	data := []interface{}{
		c13Doc{Name: "a", Meta: map[string]interface{}{"env": "prod"}, L: []interface{}{1}},
		c13Doc{Name: "b", Meta: c13Meta{Env: "prod"}, L: []interface{}{"x"}},
		c13Doc{Name: "c", Meta: map[string]interface{}{"other": 1}},
		c13Doc{Name: "d", Meta: c13Meta{}},
		c13Doc{Name: "e", Meta: nil},
		&c13Doc{Name: "f", Meta: &c13Meta{Env: "dev"}},
		&c13Doc{Name: "g", Meta: map[string]string{"zone": "x"}},
		c13Doc{Name: "h", Meta: map[string]interface{}{"env": map[string]interface{}{"k": 1}}, L: []interface{}{[]interface{}{}}},
	}
	exprs := []string{`Meta.env == "prod"`, `Meta.env != "prod"`, `Meta.zone is empty`, `Meta.zone == x`, `Meta.Tier == 0`, `Meta.env.k == 1`, `any L as x { x == 1 }`, `Meta.nosuch matches "a"`, `"prod" in Meta.env`, `all Meta as k, v { v != 2 }`}
	text := exprs[r.Intn(len(exprs))]
	used, err, pan, _ := createEval(text)
	if pan != "" || err != nil {
		return
	}
	var hist []string
	for step := 0; step < 10; step++ {
		d := data[r.Intn(len(data))]
		fresh, _, _, _ := createEval(text)
		ou, of := evaluate(used, d), evaluate(fresh, d)
		c.Evals(2)
		hist = append(hist, fmt.Sprintf("%T/%v=%s", d, reflect.Indirect(reflect.ValueOf(d)).Field(0), ou.Class()))
		if ou.Class() != of.Class() {
			c.Violation(fmt.Sprintf("C13 history-dependent same-root-type used=%s fresh=%s", ou.Class(), of.Class()), "a call on a used evaluator differs from a fresh evaluator (data of the same struct type with differently shaped interface fields)",
				map[string]any{"expression": text, "history": hist, "used_evaluator": ou.String(), "fresh_evaluator": of.String()})
			return
		}
	}
	c.Count("same_root_type_histories")
}

// c13LongRun: one evaluator and one filter called many thousands of times on
// a rotating set of data (anything that accumulates - a cache that fills up,
// a counter that wraps, a pool - gets its chance); every result must be what
// the first call on that datum returned from a fresh evaluator.
func c13LongRun(c *mon.Ctx, r *rand.Rand) {
	data := []interface{}{
		map[string]interface{}{"a": 1, "l": []interface{}{1, 2, 3}, "m": map[string]interface{}{"k": "v"}, "s": "abc"},
		map[string]interface{}{"a": "x", "l": []interface{}{}, "m": map[string]interface{}{}, "s": ""},
		map[string]interface{}{"a": 2.5, "l": []int{3}, "s": []byte("abc")},
		c13Doc{Name: "n", Meta: map[string]interface{}{"a": 1}}, nil,
		map[string]interface{}{"a": 1, "l": []interface{}{"3", nil}, "m": map[string]int{"k": 1, "j": 2}, "s": "zzz"},
	}
	exprs := []string{`a == 1 or 3 in l`, `any l as i, x { x == 3 and i != 7 } or m.k == v`, `s matches "^a" and not (a == 2)`, `all m as k, v { k != zz } and s is not empty`, `m.zz == 1 or l is empty or a != 1`}
	text := exprs[r.Intn(len(exprs))]
	used, err, pan, _ := createEval(text)
	if pan != "" || err != nil {
		return
	}
	want := make([]string, len(data))
	for i, d := range data {
		fresh, _, _, _ := createEval(text)
		want[i] = evaluate(fresh, d).Class()
	}
	n := tierN(c.Tier, 20000, 300000)
	for k := 0; k < n; k++ {
		i := (k*7 + k/13) % len(data)
		if got := evaluate(used, data[i]).Class(); got != want[i] {
			c.Violation(fmt.Sprintf("C13 history-dependent long-run used=%s fresh=%s", got, want[i]), "after many calls a used evaluator answers differently from a fresh one", map[string]any{"expression": text, "call_number": k, "datum_index": i})
			return
		}
	}
	c.Evals(n)
	f, _ := bexpr.CreateFilter(`a == 1`)
	in := []interface{}{data[0], data[1], data[5]}
	for k := 0; k < n/10; k++ {
		x := execute(f, in)
		if x.panic != "" || x.err != nil || lenOf(x.out) != 2 {
			c.Violation("C13 execute-history-dependent long-run", "after many calls a used filter answers differently", map[string]any{"call_number": k, "kept": lenOf(x.out), "error": fmt.Sprint(x.err) + x.panic})
			return
		}
	}
	c.Count("long_runs")
}

// c13InPlaceHooked: as c13InPlace, with a value-transformation hook whose
// output is COMPUTED from what a pointer points to, on data reached through
// pointers that stay the same while their pointees change.
type c13Wrap struct{ Wrapped string }
type c13Rec struct {
	Box  *c13Wrap
	List []*c13Wrap
	M    map[string]*c13Wrap
	N    *int
}

func c13InPlaceHooked(c *mon.Ctx, r *rand.Rand) {
	hook := func(v reflect.Value) reflect.Value {
		x := v
		for x.IsValid() && x.Kind() == reflect.Interface && !x.IsNil() {
			x = x.Elem()
		}
		if x.IsValid() && x.Kind() == reflect.Ptr && !x.IsNil() {
			if w, ok := x.Interface().(*c13Wrap); ok {
				return reflect.ValueOf(strings.ToUpper(w.Wrapped))
			}
			if n, ok := x.Interface().(*int); ok {
				return reflect.ValueOf(*n * 2)
			}
		}
		return v
	}
	n := 1
	rec := &c13Rec{Box: &c13Wrap{"a"}, List: []*c13Wrap{{"a"}, {"x"}}, M: map[string]*c13Wrap{"k": {"a"}}, N: &n}
	var datum interface{} = rec
	if r.Intn(2) == 0 {
		datum = map[string]interface{}{"Box": rec.Box, "List": rec.List, "M": rec.M, "N": rec.N}
	}
	exprs := []string{`Box == A`, `Box != A`, `Box matches "^B$"`, `N == 2`, `any List as v { v == B }`, `all List as v { v != B }`, `M.k == A`, `B in List`, `any M as _, v { v == "B" }`, `List.0 == A and N == 2`}
	text := exprs[r.Intn(len(exprs))]
	used, err, pan, _ := createEval(text, bexpr.WithHookFn(hook))
	if pan != "" || err != nil {
		return
	}
	step := func(label string) bool {
		fresh, _, _, _ := createEval(text, bexpr.WithHookFn(hook))
		ou, of := evaluate(used, datum), evaluate(fresh, datum)
		c.Evals(2)
		if ou.Class() != of.Class() {
			c.Violation(fmt.Sprintf("C13 history-dependent in-place-update hooked used=%s fresh=%s", ou.Class(), of.Class()), "after the caller changed what a pointer points to, a used evaluator (with a hook) answers differently from a fresh one",
				map[string]any{"expression": text, "after": label, "used_evaluator": ou.String(), "fresh_evaluator": of.String()})
			return false
		}
		return true
	}
	if !step("first call") {
		return
	}
	rec.Box.Wrapped, rec.List[0].Wrapped, rec.M["k"].Wrapped, n = "b", "b", "b", 5
	if !step("pointees overwritten") {
		return
	}
	rec.Box.Wrapped, rec.List[0].Wrapped, rec.M["k"].Wrapped, n = "a", "a", "a", 1
	if !step("change undone") {
		return
	}
	c.Count("in_place_update_histories_with_hook")
}

// c13ManyExpressions: the process creates 9000 distinct filters and
// evaluators (more than any ring of 1024 / 4096 / 8192 entries holds), then
// creates the early ones again: each must be the one for ITS expression.
var c13ManyDone = false

func c13ManyExpressions(c *mon.Ctx) {
	if c13ManyDone {
		return
	}
	c13ManyDone = true
	n := tierN(c.Tier, 9000, 40000)
	text := func(i int) string { return fmt.Sprintf("Name == \"svc-%d\" or N == %d", i, i) }
	datum := func(i int) interface{} { return map[string]interface{}{"Name": fmt.Sprintf("svc-%d", i), "N": -1} }
	for i := 0; i < n; i++ {
		f, _ := bexpr.CreateFilter(text(i))
		ev, _, _, _ := createEval(text(i))
		if f == nil || ev == nil {
			return
		}
	}
	c.Evals(2 * n)
	for _, i := range []int{0, 1, 2, 17, 100, 1023, 1024, 4095, 4096, 8191, n - 1} {
		if i >= n {
			continue
		}
		f, _ := bexpr.CreateFilter(text(i))
		ev, _, _, _ := createEval(text(i))
		if f == nil || ev == nil {
			continue
		}
		x := execute(f, []interface{}{datum(i), datum(i + 1)})
		o1, o2 := evaluate(ev, datum(i)), evaluate(ev, datum(i+1))
		if x.panic != "" || x.err != nil || lenOf(x.out) != 1 || o1.Class() != "T" || o2.Class() != "F" || ev.Expression() != text(i) || f.VerifEvaluator().Expression() != text(i) {
			c.Violation("C13 history-dependent many-expressions", "after the process created thousands of other expressions, creating an early one again gives something that does not answer for it",
				map[string]any{"expression": text(i), "created_before": n, "filter_kept": lenOf(x.out), "filter_error": fmt.Sprint(x.err) + x.panic, "evaluate_own": o1.String(), "evaluate_other": o2.String(), "Expression()": ev.Expression()})
			return
		}
	}
	c.Count("many_expression_runs")
}

// c13PointerUnknown: the unknown value is a POINTER; the caller changes what
// it points to between calls (the evaluator was given the pointer).
func c13PointerUnknown(c *mon.Ctx, r *rand.Rand) {
	x := 5
	s := "a"
	type box struct{ V int }
	b := &box{V: 1}
	cases := []struct {
		unk    interface{}
		expr   string
		mutate func()
		undo   func()
	}{
		{&x, `zz == 5`, func() { x = 6 }, func() { x = 5 }}, {&s, `m.zz == a`, func() { s = "b" }, func() { s = "a" }}, {b, `zz.V == 1`, func() { b.V = 2 }, func() { b.V = 1 }},
		{&x, `any l as v { v.zz == 5 }`, func() { x = 7 }, func() { x = 5 }},
	}
	cs := cases[r.Intn(len(cases))]
	datum := map[string]interface{}{"m": map[string]interface{}{"k": 1}, "l": []interface{}{map[string]interface{}{"k": 1}}}
	used, err, pan, _ := createEval(cs.expr, bexpr.WithUnknownValue(cs.unk))
	if pan != "" || err != nil {
		return
	}
	for phase, f := range []func(){func() {}, cs.mutate, cs.undo} {
		f()
		fresh, _, _, _ := createEval(cs.expr, bexpr.WithUnknownValue(cs.unk))
		ou, of := evaluate(used, datum), evaluate(fresh, datum)
		c.Evals(2)
		if ou.Class() != of.Class() {
			c.Violation(fmt.Sprintf("C13 history-dependent pointer-unknown-value used=%s fresh=%s", ou.Class(), of.Class()), "after the caller changed what the unknown value points to, a used evaluator answers differently from a fresh one given the same pointer",
				map[string]any{"expression": cs.expr, "phase": phase, "used_evaluator": ou.String(), "fresh_evaluator": of.String()})
			cs.undo()
			return
		}
	}
	c.Count("pointer_unknown_value_histories")
}

// c13KindHistories: one evaluator meets the same selector as a float, then
// as an int / uint / string (and in other orders), with literals that only
// some kinds can read ("0x10", "0b11", "1e2", "010", "+5").
func c13KindHistories(c *mon.Ctx, r *rand.Rand) {
	vals := []interface{}{1.5, float32(16), 16, uint(16), int8(16), "0x10", json.Number("16"), true, nil, []interface{}{16, 1.5, "0x10"}, uint64(3), int64(100), 8}
	exprs := []string{`x == "0x10"`, `x != "0b11"`, `"0x10" in l`, `x == "1e2"`, `x == "010"`, `x == "+5" or x == "0x10"`, `x == 0x10`, `l contains "0o20"`, `any l as v { v == "0x10" }`}
	text := exprs[r.Intn(len(exprs))]
	used, err, pan, _ := createEval(text)
	if pan != "" || err != nil {
		return
	}
	for step := 0; step < 10; step++ {
		v := vals[r.Intn(len(vals))]
		d := map[string]interface{}{"x": v, "l": []interface{}{v, vals[r.Intn(len(vals))]}}
		fresh, _, _, _ := createEval(text)
		ou, of := evaluate(used, d), evaluate(fresh, d)
		c.Evals(2)
		if ou.Class() != of.Class() {
			c.Violation(fmt.Sprintf("C13 history-dependent kind-history used=%s fresh=%s", ou.Class(), of.Class()), "after meeting the same selector with values of other kinds, a used evaluator reads a literal differently from a fresh one",
				map[string]any{"expression": text, "step": step, "value": fmt.Sprintf("%T %v", v, v), "used_evaluator": ou.String(), "fresh_evaluator": of.String()})
			return
		}
	}
	c.Count("kind_histories")
}

// c13ManySubjects: one evaluator sees hundreds of DISTINCT data (more than any
// small cache holds: 64, 128, 256, 1024), then the earlier ones again in
// another order; every answer must be the one a fresh evaluator gives.
func c13ManySubjects(c *mon.Ctx, r *rand.Rand) {
	n := []int{70, 130, 260, 1030}[r.Intn(4)]
	exprs := []string{`s matches "^p1"`, `s not matches "7$"`, `s == p17 or s == "p3"`, `s in l`, `l contains s`, `any l as x { x == s }`, `n == 17 or n == 3`, `s matches "1" and s matches "^p[0-9]+$"`, `m.k matches "^p2"`, `s is not empty and s != p5`}
	text := exprs[r.Intn(len(exprs))]
	used, err, pan, _ := createEval(text)
	if pan != "" || err != nil {
		return
	}
	mk := func(i int) interface{} {
		return map[string]interface{}{"s": fmt.Sprintf("p%d", i), "n": i, "l": []interface{}{fmt.Sprintf("p%d", i%3), "p17"}, "m": map[string]interface{}{"k": fmt.Sprintf("p%d", i/2)}}
	}
	want := make([]string, n)
	for i := 0; i < n; i++ {
		fresh, _, _, _ := createEval(text)
		want[i] = evaluate(fresh, mk(i)).Class()
	}
	check := func(i int, phase string) bool {
		if got := evaluate(used, mk(i)).Class(); got != want[i] {
			c.Violation(fmt.Sprintf("C13 history-dependent many-subjects used=%s fresh=%s", got, want[i]), "after seeing many distinct data a used evaluator answers differently from a fresh one",
				map[string]any{"expression": text, "distinct_data": n, "phase": phase, "datum_index": i})
			return false
		}
		return true
	}
	for i := 0; i < n; i++ {
		if !check(i, "first pass") {
			return
		}
	}
	for _, i := range r.Perm(n) {
		if !check(i, "second pass, permuted") {
			return
		}
	}
	for i := n - 1; i >= 0; i-- {
		if !check(i, "third pass, reversed") {
			return
		}
	}
	c.Evals(3 * n)
	c.Count("many_subject_runs")
}

// c13InPlace: the caller changes a long-lived datum in place between calls
// (same map / slice object, same length, different contents); the evaluator
// must see the datum as it is now.
func c13InPlace(c *mon.Ctx, r *rand.Rand) {
	n := []int{3, 31, 32, 33, 64, 100, 1024, 4096, 5000}[r.Intn(9)]
	m := map[string]interface{}{}
	typed := map[string]int{}
	l := make([]interface{}, n)
	for i := 0; i < n; i++ {
		m[fmt.Sprintf("k%03d", i)] = i
		typed[fmt.Sprintf("k%03d", i)] = i
		l[i] = i
	}
	datum := map[string]interface{}{"m": m, "t": typed, "l": l}
	exprs := []string{`any m as k, v { k == "fresh" and v == -77 }`, `all m as k { k != "fresh" }`, `any t as k, v { k == "fresh" }`, `fresh in m`, `m.fresh == -77`, `any l as x { x == -77 }`, `-77 in l`, `all t as _, v { v != -77 }`, `m.k000 == 0`, `all m as k, _ { k != k000 }`}
	ei := r.Intn(len(exprs))
	text := exprs[ei]
	// outcomes known by construction: before the update / after it / after it is undone
	known := [][3]string{{"F", "T", "F"}, {"T", "F", "T"}, {"F", "T", "F"}, {"F", "T", "F"}, {"F", "T", "F"}, {"F", "T", "F"}, {"F", "T", "F"}, {"T", "F", "T"}, {"T", "", "T"}, {"F", "T", "F"}}
	phase := 0
	used, err, pan, _ := createEval(text)
	if pan != "" || err != nil {
		return
	}
	step := func(label string) bool {
		fresh, _, _, _ := createEval(text)
		ou, of := evaluate(used, datum), evaluate(fresh, datum)
		c.Evals(2)
		if want := known[ei][phase]; want != "" && of.Class3() != want {
			c.Violation(fmt.Sprintf("C13 in-place-update stale-view got=%s want=%s", of.Class3(), want), "after the caller changed the datum in place, an evaluator (even a freshly created one) does not see the datum as it is now",
				map[string]any{"expression": text, "entries": n, "after": label, "observed": of.String(), "expected_by_construction": want})
			return false
		}
		phase++
		if ou.Class() != of.Class() {
			c.Violation(fmt.Sprintf("C13 history-dependent in-place-update used=%s fresh=%s", ou.Class(), of.Class()), "after the caller changed the datum in place a used evaluator answers differently from a fresh one",
				map[string]any{"expression": text, "entries": n, "after": label, "used_evaluator": ou.String(), "fresh_evaluator": of.String()})
			return false
		}
		return true
	}
	if !step("first call") {
		return
	}
	// same objects, same lengths, different contents
	delete(m, "k000")
	m["fresh"] = -77
	delete(typed, "k000")
	typed["fresh"] = -77
	l[n-1] = -77
	if !step("one key replaced, one element overwritten") {
		return
	}
	delete(m, "fresh")
	m["k000"] = 0
	delete(typed, "fresh")
	typed["k000"] = 0
	l[n-1] = n - 1
	if !step("change undone") {
		return
	}
	c.Count("in_place_update_histories")
}

func c13Run(c *mon.Ctx, idx int) {
	r := c.RNG(idx)
	if idx%25 == 1 {
		c13InPlace(c, r)
	}
	if idx%25 == 2 {
		c13InPlaceHooked(c, r)
	}
	if idx%25 == 3 {
		c13PointerUnknown(c, r)
	}
	if idx%25 == 4 {
		c13KindHistories(c, r)
	}
	if idx%800 == 5 {
		c13ManyExpressions(c)
	}
	if idx%20 == 0 {
		c13SameRootType(c, r)
	}
	if idx%800 == 3 {
		c13LongRun(c, r)
	}
	if idx%50 == 7 {
		c13ManySubjects(c, r)
	}
	doc := univ.GenObj(r, 3, true)
	seed := r.Int63()
	// a pool of data: the same logical document in several representations
	// (so that the selected values change kind between calls), mutated
	// copies and an unrelated document
	var pool []*univ.Node
	for m := 0; m < 5; m++ {
		pool = append(pool, univ.Represent(rand.New(rand.NewSource(seed+int64(m))), doc, univ.Policy{Mode: m, Hidden: true, HiddenSeed: seed}))
	}
	doc2 := univ.GenObj(r, 3, true)
	// share keys with doc so that the same selectors resolve differently
	for i := range doc2.Keys {
		if i < len(doc.Keys) {
			doc2.Keys[i] = doc.Keys[i]
		}
	}
	seen := map[string]bool{}
	for i, k := range doc2.Keys {
		if seen[k] {
			doc2.Keys[i] = k + "x"
		}
		seen[doc2.Keys[i]] = true
	}
	pool = append(pool, univ.Represent(rand.New(rand.NewSource(seed+9)), doc2, univ.Policy{Mode: 4}), univ.NilIface(), univ.Represent(rand.New(rand.NewSource(seed+10)), doc2, univ.Policy{Mode: 0}))
	opt := genOptions(r)
	g := newEgen(r, pool[r.Intn(5)], opt)
	g.pBroken, g.pQuant = 0.2, 0.35
	e := g.expr(1+r.Intn(4), 0)
	text := (&xgen.Renderer{R: r}).Render(e)
	ec := &evalCase{Expr: e, Text: text, Datum: pool[0], Opt: opt}
	ev, err, pan, _ := createEval(text, ec.bexprOpts()...)
	if pan != "" || err != nil {
		c.Count("unparsed")
		return
	}
	if got := ev.Expression(); got != text {
		c.Violation("C13 expression-string-differs", "Expression() is not the creation string byte for byte", map[string]any{"created_with": fmt.Sprintf("%q", text), "returned": fmt.Sprintf("%q", got)})
	}
	astBefore := astDump(ev.VerifAST())
	var filt *bexpr.Filter
	if opt.TagName == "" && opt.Unknown == nil {
		filt, _ = bexpr.CreateFilter(text)
	}
	k := 2 + r.Intn(11)
	var history []string
	for step := 0; step < k; step++ {
		d := pool[r.Intn(len(pool))]
		datum := d.Datum()
		c.Evals(1)
		if filt != nil && r.Intn(4) == 0 {
			// an Execute call: the container holds several pool data
			var in interface{} = []interface{}{datum, pool[r.Intn(len(pool))].Datum(), datum}
			switch r.Intn(4) {
			case 0:
				in = [2]interface{}{datum, pool[r.Intn(len(pool))].Datum()}
			case 1:
				if m, ok := datum.(map[string]interface{}); ok {
					in = [1]map[string]interface{}{m}
				}
			case 2:
				in = map[string]interface{}{"a": datum, "b": pool[r.Intn(len(pool))].Datum()}
			}
			before := mon.Snapshot(in)
			x := execute(filt, in)
			if after := mon.Snapshot(in); after != before {
				c.Violation("C13 execute-modified-datum", "Filter.Execute modified its input", map[string]any{"expression": clip(text, 300), "history": history, "before": clip(before, 500), "after": clip(after, 500)})
				return
			}
			ff, _ := bexpr.CreateFilter(text)
			fx := execute(ff, in)
			if (x.err == nil) != (fx.err == nil) || x.panic != fx.panic || !reflect.DeepEqual(x.out, fx.out) {
				c.Violation("C13 execute-history-dependent", "Execute on a used filter differs from a fresh filter", map[string]any{"expression": clip(text, 300), "history": history, "used": fmt.Sprintf("%#v %v %s", x.out, x.err, x.panic), "fresh": fmt.Sprintf("%#v %v %s", fx.out, fx.err, fx.panic)})
				return
			}
			// the caller owns the result and writes into it; a later call must
			// not see that
			if x.err == nil && x.panic == "" && x.out != nil {
				switch ov := reflect.ValueOf(x.out); ov.Kind() {
				case reflect.Map:
					if ov.Type().Key().Kind() == reflect.String {
						ov.SetMapIndex(reflect.ValueOf("a").Convert(ov.Type().Key()), reflect.ValueOf(&datum).Elem())
						ov.SetMapIndex(reflect.ValueOf("written-by-the-caller").Convert(ov.Type().Key()), reflect.ValueOf(&datum).Elem())
						c.Count("execute_results_written_into")
					}
				case reflect.Slice:
					if ov.Len() > 0 {
						ov.Index(0).Set(reflect.Zero(ov.Type().Elem()))
						c.Count("execute_results_written_into")
					}
				}
			}
			history = append(history, "Execute")
			c.Count("execute_calls")
			continue
		}
		before := mon.Snapshot(datum)
		o := evaluate(ev, datum)
		if after := mon.Snapshot(datum); after != before {
			c.Violation("C13 evaluate-modified-datum", "Evaluate modified the datum (or something reachable from it)", map[string]any{"expression": clip(text, 300), "datum": clip(d.Describe(), 800), "before": clip(before, 500), "after": clip(after, 500)})
			return
		}
		fresh, ferr, _, _ := createEval(text, ec.bexprOpts()...)
		if ferr != nil {
			return
		}
		fo := evaluate(fresh, datum)
		history = append(history, fmt.Sprintf("Evaluate(#%d)=%s", indexOf(pool, d), o.Class()))
		c.Count("evaluate_calls")
		c.Count("call_outcome:" + o.Class3())
		if o.Class() != fo.Class() {
			c.Violation(fmt.Sprintf("C13 history-dependent used=%s fresh=%s step=%d", o.Class(), fo.Class(), min(step, 3)), "a call on a used evaluator differs from the same call on a freshly created evaluator",
				map[string]any{"expression": clip(text, 300), "options": describeOpt(opt), "history": history, "datum": clip(d.Describe(), 1000), "used_evaluator": o.String(), "fresh_evaluator": fo.String()})
			return
		}
		if step > 0 && o.Class3() == "E" {
			c.Count("calls_after_an_error_follow")
		}
	}
	if after := astDump(ev.VerifAST()); after != astBefore {
		c.Violation("C13 syntax-tree-modified", "the evaluator's syntax tree changed during evaluation", map[string]any{"expression": clip(text, 300), "history": history, "before": clip(astBefore, 800), "after": clip(after, 800)})
	}
	if ev.Expression() != text {
		c.Violation("C13 expression-string-changed", "Expression() changed after evaluations", nil)
	}
	c.Count("histories")
	c.Count(fmt.Sprintf("history_len:%d", min(k/4, 3)))
	c.Distinct(text + "|" + strings.Join(history, ","))
	if idx%701 == 0 {
		c.Sample(map[string]any{"expression": clip(text, 200), "history": history})
	}
}

func indexOf(pool []*univ.Node, d *univ.Node) int {
	for i, p := range pool {
		if p == d {
			return i
		}
	}
	return -1
}

// ---------------------------------------------------------------------------
// C14

// permuteMaps returns a clone in which the entries of every map are
// re-ordered (the materialiser inserts in order, giving another insertion
// order for the same logical map).
func permuteMaps(n *univ.Node, r *rand.Rand) *univ.Node {
	c := n.Clone()
	var rec func(x *univ.Node)
	rec = func(x *univ.Node) {
		if x == nil {
			return
		}
		rec(x.Elem)
		for _, it := range x.Items {
			rec(it)
		}
		if x.T.K == univ.KMap && len(x.Items) > 1 {
			r.Shuffle(len(x.Items), func(i, j int) {
				x.Items[i], x.Items[j] = x.Items[j], x.Items[i]
				x.Keys[i], x.Keys[j] = x.Keys[j], x.Keys[i]
			})
		}
	}
	rec(c)
	return c
}

// c14Datum builds a document with a map whose element outcomes mix.
func c14Datum(r *rand.Rand) (*univ.Node, []string) {
	n := 2 + r.Intn(7)
	keys := []string{"alpha", "beta", "gamma", "delta", "eps", "zeta", "eta", "theta", "omega"}
	switch r.Intn(5) {
	case 0: // long keys that share a long prefix
		keys = []string{"service-web-1", "service-web-2", "service-web-10", "service-web-3", "service-web-a", "service-web-", "service-web-21", "service-web-b", "service-web"}
	case 1: // keys that are prefixes of one another, non-ASCII
		keys = []string{"a", "aa", "aaa", "aaaa", "ä", "a\x00", "A", "aaaaaaaaa", "aaaaaaaab"}
	case 2: // digit strings of different lengths mixed with keys that merely start with a digit
		keys = []string{"9", "10", "1a", "2", "100", "1b", "19", "x9", "0"}
	}
	r.Shuffle(len(keys), func(i, j int) { keys[i], keys[j] = keys[j], keys[i] })
	keys = keys[:n]
	var kv []interface{}
	for _, k := range keys {
		var v *univ.Node
		switch r.Intn(5) {
		case 0:
			v = univ.Int(1) // decisive for v == 1
		case 1:
			v = univ.Int(int64(2 + r.Intn(3)))
		case 2:
			v = univ.IfaceSlice() // `v == 1` errors on a list
		case 3:
			v = univ.IfaceMap("f", univ.Int(int64(r.Intn(2))))
		default:
			v = univ.Str("s")
		}
		kv = append(kv, k, v)
	}
	m := univ.IfaceMap(kv...)
	if r.Intn(3) == 0 {
		// typed map: map[string]interface{} inside a struct / pointer
		return univ.IfaceMap("m", univ.Ptr(m), "owners", univ.IfaceSlice(univ.Str("ops")), "name", univ.Str("n")), keys
	}
	return univ.IfaceMap("m", m, "owners", univ.IfaceSlice(univ.Str("ops")), "name", univ.Str("n"), "nested", univ.IfaceMap("m", m)), keys
}

var c14Bodies = []string{
	`V == 1`, `V != 1`, `V == 1 or V == 2`, `V.f == 1`, `V is empty`, `K == "KEY"`, `K == "KEY" or owners == "ops"`, `K != "KEY" and owners == "ops"`, `K == "KEY" or V == 1`, `V == 1 and K != "KEY"`,
	`not (V == 1)`, `K matches "^[a-e]" or V == 1`, `V == 1 or any owners as o { o == "ops" }`, `(any owners as o { o == "ops" }) and V == 1`, `V == 1 or name == "n"`, `K == "KEY" or zz == 1`, `V in owners or V == 2`,
}

// c14Large: Execute over maps large enough (hundreds of entries, > 128 / 256
// distinct subjects, recurring subjects with opposite outcomes) and over
// entries that share storage (sub-slices of one backing array, one pointer
// under several keys) that anything remembered between elements - per
// address, per subject, per printed form - shows up as a dependence on the
// visiting order.
type c14Rec struct{ Tags []string }

func c14Large(c *mon.Ctx, r *rand.Rand) {
	type scen struct {
		name  string
		ftext string
		in    interface{}
	}
	nd := []int{130, 150, 257, 300}[r.Intn(4)]
	big := map[string]interface{}{}
	for i := 0; i < 2*nd+37; i++ {
		big[fmt.Sprintf("e%04d", i)] = map[string]interface{}{"name": fmt.Sprintf("n%d", i%nd), "n": i % nd, "tags": []interface{}{fmt.Sprintf("t%d", i%7)}}
	}
	typed := map[int]c14Rec{}
	for i := 0; i < 2*nd; i++ {
		typed[i] = c14Rec{Tags: []string{fmt.Sprintf("n%d", i%nd)}}
	}
	x := []int{1, 2, 3, 4}
	shared := map[string][]int{"a": x[:3], "b": x[:1], "c": x[:2], "d": x[1:], "e": x[:4], "f": x[:0]}
	p := &c14Rec{Tags: []string{"x"}}
	q := &c14Rec{Tags: []string{"y"}}
	ptrs := map[string]*c14Rec{"a": p, "b": q, "c": p, "d": nil, "e": q}
	scens := []scen{
		{"recurring-subjects", `name matches "^n1"`, big}, {"recurring-subjects", `name not matches "1$"`, big}, {"recurring-subjects", `name == n7 or name == "n77"`, big},
		{"recurring-subjects", `n == 5 or "t3" in tags`, big}, {"recurring-subjects", `any tags as t { t matches "^t[0-3]$" } and name matches "[05]$"`, big},
		{"recurring-subjects-typed", `any Tags as t { t matches "^n1" }`, typed}, {"recurring-subjects-typed", `"n5" in Tags`, typed},
		{"shared-backing-array", `"/2" == 3`, shared}, {"shared-backing-array", `"/0" == 1`, shared}, {"shared-backing-array", `"/1" == 2 or "/0" == 2`, shared},
		{"one-pointer-under-several-keys", `"x" in Tags`, ptrs}, {"one-pointer-under-several-keys", `Tags is not empty`, ptrs},
	}
	// Evaluate on long lists whose elements are of many kinds (some of them
	// erroring for the operator, one matching, in a fixed position each):
	// the list is ordered, so is the outcome
	if r.Intn(3) == 0 {
		n := []int{127, 128, 129, 200, 256, 300, 1000}[r.Intn(7)]
		l := make([]interface{}, n)
		for i := range l {
			switch i % 7 {
			case 0:
				l[i] = i
			case 1:
				l[i] = fmt.Sprintf("s%d", i)
			case 2:
				l[i] = float64(i) + 0.5
			case 3:
				l[i] = i%2 == 0
			case 4:
				l[i] = uint8(i)
			case 5:
				l[i] = int64(i)
			default:
				l[i] = nil
			}
		}
		pos := r.Intn(n)
		l[pos] = "needle"
		epos := r.Intn(n)
		if epos == pos {
			epos = (pos + 1) % n
		}
		l[epos] = []interface{}{map[string]interface{}{"nested": 1}, []interface{}{1}, struct{ X int }{1}}[r.Intn(3)]
		datum := map[string]interface{}{"l": l, "m": map[string]interface{}{"a": l, "b": l[:n/2], "c": l[n/3:]}}
		text := []string{`needle in l`, `needle not in l`, `l contains "needle"`, `any m as _, v { needle in v }`, `all m as k, v { needle not in v }`, `999999 in l`, `"s1" in l or needle in l`}[r.Intn(7)]
		counts := map[string]int{}
		ev, err, pan, _ := createEval(text)
		if pan == "" && err == nil {
			for i := 0; i < 60; i++ {
				use := ev
				if i%5 == 4 {
					use, _, _, _ = createEval(text)
				}
				counts[evaluate(use, datum).Class()]++
				c.Evals(1)
			}
			if len(counts) > 1 {
				c.Violation(fmt.Sprintf("C14 nondeterministic %v long-mixed-list", keysOf(counts)), "repeating the same call on a long list of many kinds gave different outcomes", map[string]any{"expression": text, "elements": n, "needle_at": pos, "erroring_element_at": epos, "outcome_counts": counts})
			}
		}
		c.Count("large_or_aliased_map_scenarios")
		c.Count("large_or_aliased:long-mixed-list")
		return
	}
	// quantifiers over collections of 4096+ elements with an erroring element
	// ahead of the first decisive one, and over typed map[string]string data
	// whose entries error or decide depending on the value
	if r.Intn(4) == 0 {
		n := []int{4095, 4096, 4097, 5000}[r.Intn(4)]
		l := make([]interface{}, n)
		m := make(map[string]interface{}, n)
		for i := range l {
			l[i] = 0
			m[fmt.Sprintf("k%06d", i)] = 0
		}
		epos, dpos := 5+r.Intn(n/8), n/2+r.Intn(n/2)
		l[epos], l[dpos] = []interface{}{}, 1
		m[fmt.Sprintf("k%06d", epos)], m[fmt.Sprintf("k%06d", dpos)] = []interface{}{}, 1
		sm := map[string]string{"a": "hit", "b": "miss", "c": "miss", "d": "hit", "e": "x"}
		type named map[string]string
		datum := map[string]interface{}{"l": l, "m": m, "sm": sm, "nm": named(sm), "sl": []string{"miss", "hit"}}
		text := []string{`any l as v { v == 1 }`, `all l as v { v != 1 }`, `any m as _, v { v == 1 }`, `all m as k, v { v != 1 }`, `any l as i, v { v == 1 and i != 0 }`,
			`any sm as _, v { v == "hit" or v.x == 1 }`, `all sm as k, v { v == "miss" and v.x == 1 }`, `any sm as k, v { k == "e" or v.x == 1 }`, `any nm as _, v { v == "hit" or v.x == 1 }`, `all sm as k { k != "c" and sm.zz.y == 1 }`}[r.Intn(10)]
		counts := map[string]int{}
		ev, err, pan, _ := createEval(text)
		if pan == "" && err == nil {
			for i := 0; i < 14; i++ {
				use := ev
				if i%5 == 4 {
					use, _, _, _ = createEval(text)
				}
				counts[evaluate(use, datum).Class()]++
				c.Evals(1)
			}
			if len(counts) > 1 {
				c.Violation(fmt.Sprintf("C14 nondeterministic %v large-collection", keysOf(counts)), "repeating the same call on a large collection / a typed string map with erroring and decisive elements gave different outcomes", map[string]any{"expression": text, "elements": n, "erroring_element_at": epos, "decisive_element_at": dpos, "outcome_counts": counts})
			}
		}
		c.Count("large_or_aliased_map_scenarios")
		c.Count("large_or_aliased:large-collection-mixed-outcomes")
		return
	}
	sc := scens[r.Intn(len(scens))]
	f, _ := bexpr.CreateFilter(sc.ftext)
	if f == nil {
		return
	}
	outcomes := map[string]int{}
	for i := 0; i < 24; i++ {
		use := f
		if i%3 == 2 {
			use, _ = bexpr.CreateFilter(sc.ftext)
		}
		xo := execute(use, sc.in)
		c.Evals(1)
		k := "error"
		if xo.panic != "" {
			k = "panic"
		} else if xo.err == nil {
			k = keptPositions(reflect.ValueOf(sc.in), reflect.ValueOf(xo.out))
		}
		outcomes[fmt.Sprintf("%x", mon.Hash64(k))+"/"+clip(k, 40)]++
	}
	if len(outcomes) > 1 {
		c.Violation("C14 filter-nondeterministic "+sc.name, "repeating Filter.Execute over the same map gave different outcomes", map[string]any{"scenario": sc.name, "expression": sc.ftext, "entries": reflect.ValueOf(sc.in).Len(), "outcome_counts": outcomes})
	}
	c.Count("large_or_aliased_map_scenarios")
	c.Count("large_or_aliased:" + sc.name)
}

func c14Run(c *mon.Ctx, idx int) {
	r := c.RNG(idx)
	if idx%9 == 7 && idx%2 == 1 {
		c14Large(c, r)
		return
	}
	if idx%18 == 16 {
		c14HookBuilt(c, r)
		return
	}
	if idx%18 == 5 {
		c14OddKeys(c, r)
		return
	}
	var datum *univ.Node
	var text string
	var e xgen.Expr
	opt := &refsem.Options{}
	if idx%9 == 4 {
		// interface-keyed maps: membership and quantifiers must not depend on
		// the order in which the keys come out
		keyT := univ.StructOf(univ.Field{Name: "A", Type: univ.TInt})
		keys := []*univ.Node{univ.Iface(univ.Str("alpha")), univ.Iface(univ.Struct(keyT, univ.Int(1))), univ.Iface(univ.Int(5)), univ.Iface(univ.UintOf(univ.TUint64, 1<<63)), univ.Iface(univ.Str("beta")),
			univ.Iface(&univ.Node{T: univ.ArrayOf(1, univ.TInt), Items: []*univ.Node{univ.Int(1)}}), univ.Iface(univ.Bool(true))}
		r.Shuffle(len(keys), func(i, j int) { keys[i], keys[j] = keys[j], keys[i] })
		keys = keys[:2+r.Intn(len(keys)-1)]
		var vals []*univ.Node
		for range keys {
			vals = append(vals, []*univ.Node{univ.Str("ok"), univ.IfaceSlice(univ.Int(1)), univ.Int(1)}[r.Intn(3)])
		}
		im := univ.MapNode(univ.MapOf(univ.TIface, univ.TIface), keys, vals)
		sm := univ.MapNode(univ.MapOf(univ.TIface, univ.TIface), []*univ.Node{univ.Iface(univ.Str("a")), univ.Iface(univ.Str("b")), univ.Iface(univ.Str("c"))}, []*univ.Node{univ.Str("ok"), univ.IfaceSlice(univ.Int(1)), univ.Int(2)})
		datum = univ.IfaceMap("im", im, "sm", sm, "name", univ.Str("n"))
		text = []string{`alpha in im`, `"alpha" not in im`, `im contains "beta"`, `18446744073709551615 in im`, `9223372036854775808 in im`, `5 in im`, `true in im`, `zz in im`,
			`any sm as _, v { v == "ok" }`, `all sm as k, v { v == 2 }`, `any sm as k { k == "c" }`, `any im as k, v { v == "ok" }`, `any name as x { x == 1 } or alpha in im`, `im is empty`, `any sm as k, v { "ok" in v or v == 2 }`}[r.Intn(15)]
		c.Count("interface_keyed_map_cases")
	} else if idx%3 != 0 {
		// directed: quantifier over a map with mixed element outcomes
		var keys []string
		datum, keys = c14Datum(r)
		body := c14Bodies[r.Intn(len(c14Bodies))]
		bind, kname, vname := "", "k", "v"
		mode := r.Intn(4)
		switch mode {
		case 0:
			bind = "k"
			vname = `m["` + keys[0] + `"]` // no value name in this mode: use a fixed element
		case 1:
			bind = "k, _"
			vname = `m["` + keys[r.Intn(len(keys))] + `"]`
		case 2:
			bind = "_, v"
			kname = "name"
		case 3:
			bind = "k, v"
		}
		body = strings.ReplaceAll(strings.ReplaceAll(strings.ReplaceAll(body, "KEY", keys[r.Intn(len(keys))]), "K", kname), "V", vname)
		sel := []string{"m", "nested.m", `"/m"`}[r.Intn(3)]
		if refsem.Through(datum.Items[0]) == nil || datum.Items[0].Elem.T.K == univ.KPtr {
			sel = "m"
		}
		text = fmt.Sprintf("%s %s as %s { %s }", []string{"any", "all"}[r.Intn(2)], sel, bind, body)
		if r.Intn(4) == 0 {
			text = "not (" + text + ") or name == \"zz\""
		}
		c.Count(fmt.Sprintf("directed_mode:%d", mode))
	} else {
		doc := univ.GenObj(r, 3, true)
		datum = univ.Represent(rand.New(rand.NewSource(r.Int63())), doc, univ.Policy{Mode: idx % 5})
		g := newEgen(r, datum, opt)
		g.pQuant, g.pBroken = 0.6, 0.25
		e = g.expr(2+r.Intn(2), 0)
		text = (&xgen.Renderer{R: r}).Render(e)
	}
	ev, err, pan, _ := createEval(text)
	if pan != "" || err != nil {
		c.Count("unparsed")
		c.Note("unparsed", clip(text, 100))
		return
	}
	if e == nil {
		if v, perr, _, _ := parsePublic(text); perr == nil {
			e, _ = treeOf(v)
		}
	}
	sensitive := false
	if e != nil {
		if a := refsem.Eval(e, datum, opt); a.Unspec == "" && !a.Single() {
			sensitive = true
			c.Count("order_sensitive_cases")
		}
	}
	reps := tierN(c.Tier, 120, 200)
	variants := []*univ.Node{datum, permuteMaps(datum, r), permuteMaps(datum, r)}
	first := ""
	counts := map[string]int{}
	for vi, v := range variants {
		d := v.Datum()
		for i := 0; i < reps/len(variants)+1; i++ {
			use := ev
			if i%4 == 3 {
				use, _, _, _ = createEval(text)
			}
			o := evaluate(use, d)
			c.Evals(1)
			counts[o.Class()]++
			if first == "" {
				first = o.Class()
			}
			_ = vi
		}
	}
	if len(counts) > 1 {
		c.Violation(fmt.Sprintf("C14 nondeterministic %v sensitive=%v", keysOf(counts), sensitive), "repeating the same call gave different outcomes",
			map[string]any{"expression": clip(text, 300), "datum": clip(datum.Describe(), 1000), "outcome_counts": counts})
		return
	}
	c.Count("outcome:" + first)
	// filters over the map's entries
	if m := collOf(pathVal(datum, "m")); m != nil && m.T.K == univ.KMap && idx%3 != 0 && idx%9 != 4 {
		ftext := []string{`f == 1`, `f != 1`, `f is empty`, `zz == 1`}[r.Intn(4)]
		f, _ := bexpr.CreateFilter(ftext)
		fc := map[string]int{}
		for _, v := range variants {
			mv := collOf(pathVal(v, "m"))
			if mv == nil {
				continue
			}
			in := mv.Value().Interface()
			for i := 0; i < 30; i++ {
				x := execute(f, in)
				c.Evals(1)
				k := "error"
				if x.panic != "" {
					k = "panic"
				} else if x.err == nil {
					k = keptPositions(reflect.ValueOf(in), reflect.ValueOf(x.out))
				}
				fc[k]++
			}
		}
		if len(fc) > 1 {
			c.Violation("C14 filter-nondeterministic", "repeating Filter.Execute over the same map gave different outcomes", map[string]any{"expression": ftext, "map": clip(m.Describe(), 800), "outcome_counts": fc})
		}
		c.Count("filter_repetitions")
	}
	// evidence that Go really randomises: distinct orders of ranging over the map
	if m := collOf(pathVal(datum, "m")); m != nil && m.T.K == univ.KMap && len(m.Items) >= 2 && idx%50 == 1 {
		gm := m.Value()
		orders := map[string]bool{}
		for i := 0; i < 50; i++ {
			var ks []string
			it := gm.MapRange()
			for it.Next() {
				ks = append(ks, it.Key().String())
			}
			orders[strings.Join(ks, ",")] = true
		}
		c.Add("go_map_orders_seen_in_50_ranges", int64(len(orders)))
		c.Count("go_map_order_probes")
	}
	c.Distinct(text + "|" + datum.Describe())
	if idx%401 == 0 {
		c.Sample(map[string]any{"expression": clip(text, 200), "datum": clip(datum.Describe(), 400), "repetitions": reps, "insertion_order_variants": 3, "outcome": first, "order_sensitive_by_reference": sensitive})
	}
}

func keysOf(m map[string]int) []string {
	var l []string
	for k := range m {
		l = append(l, k)
	}
	for i := range l {
		for j := i + 1; j < len(l); j++ {
			if l[j] < l[i] {
				l[i], l[j] = l[j], l[i]
			}
		}
	}
	return l
}

// pathVal returns the value of a top-level key of an interface map node.
func pathVal(d *univ.Node, key string) *univ.Node {
	if d == nil || d.T.K != univ.KMap {
		return nil
	}
	for i, k := range d.Keys {
		if k.S == key {
			v := d.Items[i]
			for v != nil && (v.T.K == univ.KIface || v.T.K == univ.KPtr) && !v.Nil {
				v = v.Elem
			}
			return v
		}
	}
	return nil
}

func init() {
	mon.Register(&mon.Prop{
		ID: "C13", Level: "exploration",
		Rule:        "per case one datum-directed expression (with options) and ONE evaluator (and filter) used for a history of 2..12 mixed Evaluate / Execute calls on data drawn from a pool: the same logical document in 5 Go representations (so selected values change kind between calls), an unrelated document sharing its top-level keys, and nil; errors included. oracle (relational): every call's outcome equals that of a freshly created evaluator for the same datum; a canonical deep snapshot of the datum (all fields incl. unexported, pointer graph, slice len/cap and contents up to cap, sorted maps) is identical before and after each call; the evaluator's syntax tree (VerifAST hook; selector paths with spare capacity, literals, regexp cache) is unchanged at the end; Expression() returns the creation string byte for byte. non-trivial = a completed history; distinct by (expression, history)",
		Assumptions: []string{"fresh-evaluator results are the specification of history independence (C01 decides those results themselves)"},
		NumCases:    func(tier string) int { return tierN(tier, 4000, 150000) },
		Run:         c13Run,
		Required: func(tier string) []string {
			return []string{"histories", "in_place_update_histories", "in_place_update_histories_with_hook", "pointer_unknown_value_histories", "kind_histories", "many_expression_runs", "long_runs", "many_subject_runs", "same_root_type_histories", "evaluate_calls", "execute_calls", "execute_results_written_into", "calls_after_an_error_follow", "call_outcome:T", "call_outcome:F", "call_outcome:E", "history_len:0", "history_len:2", "history_len:3"}
		},
	})
	mon.Register(&mon.Prop{
		ID: "C14", Level: "exploration",
		Rule:        "two thirds of the cases: a map of 2..8 entries whose element outcomes mix true / false / error (ints, lists, maps, strings), quantified with any/all in every binding mode over 16 body templates (bodies that error independently of the element, bodies decisive on one key, nested quantifiers), also behind a pointer, nested, via JSON Pointer, under not/or; one third: datum-directed quantifier-heavy expressions over seeded documents. each call is repeated 120 (quick) / 200 (thorough) times on 3 insertion-order variants of the same logical map, with the same and with fresh evaluators; filters over the map's entries are repeated 90 times; one case in 18: nested quantifiers over collections that a pure WithHookFn hook builds afresh per request (maps from name/value lists, lists from strings; 12..40 short-lived collections of equal length per call), 22 calls in 5 legs whose hooks force a garbage collection on every / every 3rd / every 7th / no request; one case in 18: quantifiers over maps keyed by integers, named strings, bools, floats, structs and arrays (2..8 entries, mixed element outcomes) in a struct, behind a pointer and in a generic document, 70 calls each. oracle: all repetitions give the same (bool, error-or-not). order_sensitive_cases counts cases whose outcome the reference says depends on the visiting order (the ones that can expose a defect). non-trivial = every case; distinct by (expression, datum)",
		Assumptions: []string{"Go randomises the start of every map iteration; go_map_orders_seen_in_50_ranges reports what this run actually observed when ranging over the same maps"},
		NumCases:    func(tier string) int { return tierN(tier, 2400, 40000) },
		Run:         c14Run,
		Required: func(tier string) []string {
			return []string{"order_sensitive_cases", "interface_keyed_map_cases", "large_or_aliased_map_scenarios", "hook_built_collection_scenarios", "non_string_keyed_map_scenarios", "filter_repetitions", "go_map_order_probes", "directed_mode:0", "directed_mode:1", "directed_mode:2", "directed_mode:3", "outcome:T", "outcome:F", "outcome:E"}
		},
	})
}
