package props

import (
	"bytes"
	"fmt"
	"os"
	"runtime/debug"
	"strings"

	bexpr "github.com/hashicorp/go-bexpr"
	"github.com/hashicorp/go-bexpr/grammar"

	"verif/internal/mon"
	"verif/internal/xgen"
)

// C10 - creating an evaluator is total on arbitrary bytes.

var c10Corpus = []string{
	`a == 1`, `a.b.c != "x"`, `"/a/b" == 3`, `x in tags`, `"x" not in a.b`, `a contains "x"`, `a not contains x`, `a is empty`, `a.b is not empty`,
	`a matches "^x.*"`, `a not matches ` + "`\\d+`", `not a == 1`, `not not a == 1`, `a == 1 and b == 2`, `a == 1 or b == 2 and c == 3`, `(a == 1 or b == 2) and c == 3`,
	`( a == 1 )`, `any a as x { x == 1 }`, `all a.b as i, v { v.c == i }`, `any m as k, _ { k == "x" }`, `all "/l" as _, v { v is empty }`,
	`any a as x { any x.b as y { y == x.c } }`, `a["b"].c == 1`, "a[`b`][ \"c\" ].0 == 1", `a.0.1 == -1.5`, `a == "\x22q\x22"`, `a == "é\t\u00e9"`,
	`a == foo.bar`, `-1 in a`, `1.5 in a`, `"" == ""`, `"/~0/~1" is empty`, `a/b == c/d`, `not (a == 1) or not (b in c)`,
	`any a as x { x == 1 } or b == 2`, `b == 2 or any a as x { x == 1 }`, `(any a as x { x == 1 }) and b == 2`,
	"a ==\t1\r\nand\nb\t!=  2", `a   ==1`, `a==1`, `((a==1))`, `a=="/usr/bin"`, `"/p|q:r" == 1`, `a == 0`, `a == 10.25`,
}

var c10Hostile = []string{
	// many recorded errors on different lines / at different offsets
	"a == `\xff\n\xfe\n\xfd\n\xfc\n\xfb\n\xfa\n\xf9\n\xf8\n\xc0\n\xc1\n\x80\n\x81\n\x82`", "a == \"x\xffy\" and\nb == \"\xfe\" and\nc == \"\xfd\" and\nd == \"\xfc\" and\ne == \"\xfb\" and\nf == \"\xfa\" and\ng == \"\xf9\" and\nh == \"\xf8\" and\ni == \"\xc0\" and\nj == \"\xc1\" and\nk == \"\x80\" and\nl == \"\x81\"",
	"a == \"\\q1\"\nand b == \"\\q2\"\nand c == \"\\q3\"\nand d == \"\\q4\"\nand e == \"\\q5\"\nand f == \"\\q6\"\nand g == \"\\q7\"\nand h == \"\\q8\"\nand i == \"\\q9\"\nand j == \"\\qa\"\nand k == \"\\qb\"\nand l == \"\\qc\"",
	"a == \"\ufffd\"", "a == `x\ufffdy`", "a[\"\ufffd\"] == 1", "\ufffd", "a == 1\ufffd", "a == b[\"c.d\"]",
	"", " ", "\t\r\n", "(", ")", "()", "( )", "((", "))", "{", "}", "[", "]", ".", ",", "\"", "`", "\"\"", "``", "\"\\", "\"\\\"", "'", "''",
	"a", "a ==", "== 1", "a == ", "a == \"", "a == `", "a == \"\\q\"", "a == \"\\x4\"", "a == \"\\u12\"", "a == \"\n\"", "a == \"\xff\"", "a == `\xff`", "\xff", "\xc3", "\xed\xa0\x80", "\xf4\x90\x80\x80",
	"a == 1\x00", "\x00", "a\x00b == 1", "a == \"\x00\"", "a[", "a[\"x\"", "a[1]", "a[]", "a[\"x\"]]", "a.", "a..b == 1", "a.1x == 1", "1 == a", "1 in", "1 in 2", "x in \"", "x in (",
	"not", "not not", "and", "a == 1 and", "or a == 1", "any", "any a", "any a as", "any a as x", "any a as x {", "any a as x { }", "any a as x { x == 1", "any a as x, { x == 1 }", "any a as , x { x == 1 }", "any a as _, _ { a == 1 }",
	"any a as x, x { x == 1 }", "all all as all { all == all }", "any in as x { x == 1 }", "a is", "a is not", "a is empty empty", "a is  not  empty", "a isempty", "01 == a", "a == 01", "a == 1.", "a == .5", "a == -", "a == --1", "a == 1e5", "a == +1",
	"\ufeffa == 1", "a == 1 \u00a0", "a\u00a0== 1", "a == 1\v", "a =\n= 1", "a ! = 1", "a === 1", "a == 1 && b == 2", "a = 1", "\"/a\" == \"/b\"", "\"/\" == 1", "\"//\" == 1", "\"/a/\" == 1", "\"a\" == 1",
	"a == \"/\"", "a == \"//\"", "(a == 1", "a == 1)", "(a == 1))", "((a == 1)", "(a == 1) (b == 2)", "a == 1 b == 2", "a == 1 and and b == 2", "a == b == c", "a == 1 or", "not(a == 1)", "not\ta == 1",
}

type c10Plan struct{ nCorpus, nHostile, nNest, nLong, nRand, nProbe int }

func c10PlanFor(tier string) c10Plan {
	return c10Plan{nCorpus: len(c10Corpus), nHostile: len(c10Hostile), nNest: 60, nLong: 16, nRand: tierN(tier, 40000, 1000000), nProbe: 4}
}

// c10Reachable: data in which every identifier the generators use resolves,
// once to a string and once to a list, so that evaluating an accepted
// expression reaches the operators (and not only "key not found").
func c10Reachable() []interface{} {
	strs := map[string]interface{}{}
	lists := map[string]interface{}{}
	for _, id := range xgen.IdentPool {
		strs[id] = "abc"
		lists[id] = []interface{}{"abc", 1, map[string]interface{}{"a": "abc", "b": []interface{}{"x"}}}
	}
	strs["b"] = map[string]interface{}{"c": "x"}
	return []interface{}{strs, lists}
}

var c10Benign = append(c10Reachable(), []interface{}{
	map[string]interface{}{"a": 1, "b": map[string]interface{}{"c": "x"}, "tags": []interface{}{"x", "y"}, "l": []interface{}{map[string]interface{}{"c": 0}}},
	struct {
		A int
		B []string
	}{1, []string{"x"}},
	nil,
}...)

// c10Check applies the totality oracle to one byte string.
func c10Check(c *mon.Ctx, s string, origin string, budget uint64) {
	c.Evals(1)
	d := func() map[string]any {
		return map[string]any{"input": fmt.Sprintf("%q", clip(s, 300)), "origin": origin}
	}
	var opts []grammar.Option
	var bopts []bexpr.Option
	if budget > 0 {
		opts = append(opts, grammar.MaxExpressions(budget))
		bopts = append(bopts, bexpr.WithMaxExpressions(budget))
	}
	val, perr, pan, site := parsePublic(s, opts...)
	if pan != "" {
		dd := d()
		dd["panic"] = pan
		c.Violation("C10 panic api=grammar.Parse site="+site, "grammar.Parse panicked", dd)
		return
	}
	budgeted := budget > 0 && isMaxExprErr(perr)
	ev, cerr, pan, site := createEval(s, bopts...)
	if pan != "" {
		dd := d()
		dd["panic"] = pan
		c.Violation("C10 panic api=CreateEvaluator site="+site, "CreateEvaluator panicked", dd)
		return
	}
	switch {
	case ev != nil && cerr != nil:
		c.Violation("C10 CreateEvaluator both", "CreateEvaluator returned an evaluator and an error", d())
		return
	case ev == nil && cerr == nil:
		c.Violation("C10 CreateEvaluator neither", "CreateEvaluator returned neither an evaluator nor an error", d())
		return
	}
	if (perr == nil) != (cerr == nil) {
		dd := d()
		dd["parse_err"], dd["create_err"] = fmt.Sprint(perr), fmt.Sprint(cerr)
		c.Violation("C10 Parse/CreateEvaluator acceptance differs", "grammar.Parse and CreateEvaluator disagree on acceptance", dd)
		return
	}
	var tree grammar.Expression
	if perr == nil {
		t, ok := val.(grammar.Expression)
		if !ok || t == nil {
			dd := d()
			dd["value_type"] = fmt.Sprintf("%T", val)
			c.Violation("C10 Parse nil-error without Expression", "grammar.Parse returned a nil error without a non-nil Expression", dd)
			return
		}
		tree = t
		c.Count("class:accepted")
	} else {
		c.Count("rejected")
		msg := perr.Error()
		switch {
		case budgeted:
			c.Count("class:budget-exhausted")
		case strings.Contains(msg, "Unmatched parentheses"):
			c.Count("class:err-unmatched-parens")
		case strings.Contains(msg, "Invalid selector"):
			c.Count("class:err-invalid-selector")
		case strings.Contains(msg, "Invalid index"):
			c.Count("class:err-invalid-index")
		case strings.Contains(msg, "Unclosed index"):
			c.Count("class:err-unclosed-index")
		case strings.Contains(msg, "Invalid number"):
			c.Count("class:err-invalid-number")
		case strings.Contains(msg, "Unterminated string"):
			c.Count("class:err-unterminated-string")
		case strings.Contains(msg, "invalid encoding"):
			c.Count("class:err-encoding")
		case strings.Contains(msg, "invalid syntax"):
			c.Count("class:err-unquote")
		case strings.Contains(msg, "no match found"):
			c.Count("class:no-match")
		default:
			c.Count("class:other-error")
			c.Note("other_errors", clip(msg, 120))
		}
	}
	// CreateFilter takes no options: only call it when the unlimited parse is
	// known to be cheap (the budgeted parse finished).
	if !budgeted {
		var f *bexpr.Filter
		var ferr error
		out := mon.Try(func() { f, ferr = bexpr.CreateFilter(s) })
		switch {
		case out.Panic:
			dd := d()
			dd["panic"] = out.PanicVal
			c.Violation("C10 panic api=CreateFilter site="+mon.PanicSite(out.Stack), "CreateFilter panicked", dd)
			return
		case s == "":
			if f != nil || ferr != nil {
				c.Violation("C10 CreateFilter empty-string", "CreateFilter(\"\") is not (nil, nil)", d())
			}
			c.Count("filter_empty_string")
		case f != nil && ferr != nil:
			c.Violation("C10 CreateFilter both", "CreateFilter returned a filter and an error", d())
		case f == nil && ferr == nil:
			c.Violation("C10 CreateFilter neither", "CreateFilter returned neither a filter nor an error for a non-empty string", d())
		case (ferr == nil) != (cerr == nil):
			dd := d()
			dd["create_err"], dd["filter_err"] = fmt.Sprint(cerr), fmt.Sprint(ferr)
			c.Violation("C10 CreateFilter/CreateEvaluator acceptance differs", "CreateFilter does not mirror CreateEvaluator", dd)
		}
		if f != nil {
			for _, in := range []interface{}{[]interface{}{c10Benign[0]}, map[string]interface{}{"k": c10Benign[0]}, []int{1, 2}} {
				out := mon.Try(func() { f.Execute(in) })
				if out.Panic {
					dd := d()
					dd["panic"] = out.PanicVal
					c.Violation("C10 panic api=Filter.Execute site="+mon.PanicSite(out.Stack), "a returned filter panicked on benign input", dd)
				}
			}
		}
	}
	// an EXPLICIT budget of 0 means "no budget" for every entry point: with it
	// (alone, or as the last of several) Parse must accept exactly what
	// CreateEvaluator accepts - only where the unlimited parse is known to be cheap
	if !budgeted && len(s) < 4000 && mon.Hash64(s)%8 == 0 {
		for vi, o := range [][]grammar.Option{{grammar.MaxExpressions(0)}, {grammar.MaxExpressions(3), grammar.MaxExpressions(0)}, {grammar.Recover(false), grammar.Recover(true), grammar.MaxExpressions(0)}} {
			_, zerr, zpan, zsite := parsePublic(s, o...)
			if zpan != "" {
				dd := d()
				dd["panic"] = zpan
				c.Violation("C10 panic api=grammar.Parse site="+zsite, "grammar.Parse panicked (explicit zero budget)", dd)
				break
			}
			if (zerr == nil) != (cerr == nil) {
				dd := d()
				dd["parse_err_with_explicit_zero_budget"], dd["create_err"], dd["option_list"] = fmt.Sprint(zerr), fmt.Sprint(cerr), vi
				c.Violation("C10 Parse(explicit zero budget)/CreateEvaluator acceptance differs", "grammar.Parse with MaxExpressions(0) and CreateEvaluator disagree on acceptance", dd)
				break
			}
		}
		// exported parser options that do not change the language (a user
		// store, explicit defaults, the default entry point, no recovery of
		// panics - there are none to recover) must neither panic nor change
		// what is accepted, nor lose the error
		for vi, o := range [][]grammar.Option{{grammar.GlobalStore("k", 1)}, {grammar.Recover(false)}, {grammar.AllowInvalidUTF8(false)}, {grammar.Entrypoint("Input")}, {grammar.GlobalStore("a", nil), grammar.GlobalStore("b", "x"), grammar.Recover(false)}, {grammar.Recover(true), grammar.Entrypoint("")}} {
			nval, nerr, npan, nsite := parsePublic(s, o...)
			if npan != "" {
				dd := d()
				dd["panic"], dd["option_list"] = npan, vi
				c.Violation("C10 panic api=grammar.Parse site="+nsite+" neutral-parser-options", "grammar.Parse panicked when given exported parser options", dd)
				break
			}
			if vi != 5 && ((nerr == nil) != (perr == nil) || (nerr == nil && nval == nil)) {
				dd := d()
				dd["error_with_options"], dd["error_without"], dd["option_list"] = fmt.Sprint(nerr), fmt.Sprint(perr), vi
				c.Violation("C10 Parse(neutral options) acceptance differs", "grammar.Parse with exported options that do not change the language accepts something else than without them (or returns neither tree nor error)", dd)
				break
			}
		}
		c.Count("neutral_parser_options_checked")
		ev0, cerr0, pan0, site0 := createEval(s, bexpr.WithMaxExpressions(0))
		if pan0 != "" {
			dd := d()
			dd["panic"] = pan0
			c.Violation("C10 panic api=CreateEvaluator site="+site0, "CreateEvaluator panicked (explicit zero budget)", dd)
		} else if (cerr0 == nil) != (cerr == nil) || (ev0 == nil) != (ev == nil) {
			c.Violation("C10 CreateEvaluator(explicit zero budget) acceptance differs", "CreateEvaluator with WithMaxExpressions(0) differs from CreateEvaluator without options", d())
		}
		c.Count("explicit_zero_budget_checked")
		// ... and right after option-bearing calls a budget that runs out must still be an error, not a panic
		_, berr, bpan, bsite := parsePublic("((((((((a == 1))))))))", grammar.MaxExpressions(40))
		if bpan != "" || berr == nil {
			dd := d()
			dd["panic"], dd["error"] = bpan, fmt.Sprint(berr)
			c.Violation("C10 panic api=grammar.Parse site="+bsite+" after-option-bearing-calls", "a parse whose budget runs out did not return an error after earlier option-bearing calls", dd)
		}
		ev2, cerr2, cpan2, csite2 := createEval("((((((((a == 1))))))))", bexpr.WithMaxExpressions(40))
		if cpan2 != "" || cerr2 == nil || ev2 != nil {
			dd := d()
			dd["panic"], dd["error"] = cpan2, fmt.Sprint(cerr2)
			c.Violation("C10 panic api=CreateEvaluator site="+csite2+" after-option-bearing-calls", "CreateEvaluator under a budget that runs out did not return (nil, error) after earlier option-bearing calls", dd)
		}
	}
	if ev != nil {
		if ev.Expression() != s {
			c.Violation("C10 Expression() differs", "Expression() is not the creation string", d())
		}
		for i, datum := range c10Benign {
			o := evaluate(ev, datum)
			if o.Panic != "" {
				dd := d()
				dd["panic"], dd["datum"] = o.Panic, i
				c.Violation("C10 panic api=Evaluate site="+o.Site, "a returned evaluator panicked on a benign datum", dd)
				break
			}
			if o.Class() == "E!" {
				dd := d()
				dd["datum"], dd["observed"] = i, o.String()
				c.Violation("C10 usable-evaluator returns true with error", "a returned evaluator reported an error together with true", dd)
				break
			}
		}
		c.Count("evaluators_exercised")
	}
	if tree != nil {
		var buf bytes.Buffer
		out := mon.Try(func() { tree.ExpressionDump(&buf, "  ", 0) })
		if out.Panic {
			dd := d()
			dd["panic"] = out.PanicVal
			c.Violation("C10 panic api=ExpressionDump site="+mon.PanicSite(out.Stack), "dumping a returned tree panicked", dd)
		} else if buf.Len() == 0 {
			c.Violation("C10 empty dump", "ExpressionDump wrote nothing for a returned tree", d())
		}
		c.Count("trees_dumped")
	}
	if perr == nil || !strings.Contains(fmt.Sprint(perr), "no match found") {
		c.Distinct(s)
	}
}

func c10Run(c *mon.Ctx, idx int) {
	p := c10PlanFor(c.Tier)
	switch {
	case idx < p.nCorpus:
		e := c10Corpus[idx]
		c10Check(c, e, "corpus", safeBudget)
		for i := 0; i <= len(e); i++ {
			c10Check(c, e[:i], "corpus-prefix", safeBudget)
			c10Check(c, e[i:], "corpus-suffix", safeBudget)
			if i < len(e) {
				c10Check(c, e[:i]+e[i+1:], "corpus-byte-deleted", safeBudget)
			}
			for _, ins := range []string{"\xff", "\x00", "\"", "`", "(", ")", "\n", "\\"} {
				c10Check(c, e[:i]+ins+e[i:], "corpus-byte-inserted", safeBudget)
			}
		}
		c.Count("corpus_entries")
		c.Sample(map[string]any{"kind": "corpus entry with every prefix, suffix, single-byte deletion and 8 single-byte insertions at every position", "entry": e})
		return
	case idx < p.nCorpus+p.nHostile:
		s := c10Hostile[idx-p.nCorpus]
		c10Check(c, s, "hostile", safeBudget)
		c.Count("hostile_entries")
		return
	case idx < p.nCorpus+p.nHostile+p.nNest:
		depth := idx - p.nCorpus - p.nHostile + 1
		// nested parentheses are only ever parsed under a budget
		c10Check(c, strings.Repeat("(", depth)+"a == 1"+strings.Repeat(")", depth), "nested-balanced", 1<<18)
		c10Check(c, strings.Repeat("(", depth)+"a == 1", "nested-unbalanced", 1<<18)
		c10Check(c, strings.Repeat("( ", depth)+"a == 1 and b == 2"+strings.Repeat(" )", depth-1), "nested-unbalanced", 1<<18)
		c10Check(c, strings.Repeat("not (", depth)+"a == 1"+strings.Repeat(")", depth), "nested-not", 1<<18)
		c10Check(c, strings.Repeat("any a as x { ", depth)+"x == 1"+strings.Repeat(" }", depth), "nested-quantifier", 1<<18)
		c.Count("nesting_depths")
		return
	case idx < p.nCorpus+p.nHostile+p.nNest+p.nLong:
		k := idx - p.nCorpus - p.nHostile - p.nNest
		n := 100000
		var s string
		switch k {
		case 0:
			s = strings.Repeat("a", n) + " == 1"
		case 1:
			s = "a == \"" + strings.Repeat("x", n) + "\""
		case 2:
			s = "a == `" + strings.Repeat("é", n) + "`"
		case 3:
			s = "a" + strings.Repeat(".b", 20000) + " == 1"
		case 4:
			s = "a" + strings.Repeat(`["k"]`, 20000) + " == 1"
		case 5:
			s = "\"" + strings.Repeat("/seg", 20000) + "\" == 1"
		case 6:
			s = strings.Repeat(" ", n) + "a == 1" + strings.Repeat("\n", n)
		case 7:
			s = "a == \"" + strings.Repeat("x", n) // unterminated
		// valid but EXPENSIVE inputs, parsed with no budget given by the caller:
		// whatever default applies must be the same for every entry point
		case 8:
			s = "a == \"" + strings.Repeat("x", 700000) + "\""
		case 9:
			s = strings.Repeat("(", 9) + "a == 1" + strings.Repeat(")", 9)
		case 10:
			s = strings.Repeat("( ", 8) + "a == 1 and b != 2" + strings.Repeat(" )", 8) + " or " + strings.Repeat("(", 8) + "c == 3" + strings.Repeat(")", 8)
		case 11:
			s = "a == 1" + strings.Repeat(" and a == 1", 20000)
		case 12:
			s = "a == 1" + strings.Repeat(" or not b == 2", 10000)
		case 13:
			s = "a is empty or any a as x { " + strings.Repeat("not (", 7) + "x == 1" + strings.Repeat(")", 7) + " }"
		case 14:
			// thorough tier only (about 4*10^8 parser steps per call): still a
			// sentence of the language, and nobody asked for a budget
			if c.Tier != "thorough" {
				c.Count("long_inputs")
				return
			}
			s = strings.Repeat("(", 10) + "a == 1 and b != 2 and c in d" + strings.Repeat(")", 10)
		case 15:
			// thorough tier only: about 1.2*10^9 steps (a minute per parse)
			if c.Tier != "thorough" {
				c.Count("long_inputs")
				return
			}
			s = strings.Repeat("(", 11) + "a == 1 and b == 2 or c == 3 and d == 4" + strings.Repeat(")", 11)
		}
		if k >= 8 {
			c.Risk(fmt.Sprintf("unlimited-parse expensive-valid-%d (must survive)", k))
			c.Count("expensive_valid_inputs")
			// valid by construction: with no budget given it must be accepted
			if _, verr, vpan, _ := parsePublic(s); vpan != "" || verr != nil {
				c.Violation("C10 valid-expensive-input-rejected", "an expression that is valid by construction was rejected although no budget was given", map[string]any{"input_shape": clip(s, 60), "bytes": len(s), "error": clip(fmt.Sprint(verr)+vpan, 200)})
				return
			}
			if k >= 14 {
				ev, cerr, cpan, _ := createEval(s)
				if cpan != "" || cerr != nil || ev == nil {
					c.Violation("C10 valid-expensive-input-rejected", "CreateEvaluator rejected an expression that is valid by construction although no budget was given", map[string]any{"input_shape": clip(s, 60), "error": clip(fmt.Sprint(cerr)+cpan, 200)})
				}
				c.Count("long_inputs")
				return
			}
		}
		c10Check(c, s, "long-token", 0)
		c.Count("long_inputs")
		return
	case idx < p.nCorpus+p.nHostile+p.nNest+p.nLong+p.nRand:
		r := c.RNG(idx)
		tree := xgen.RandTree(r, 1+r.Intn(4))
		rd := &xgen.Renderer{R: r, MaxRedundantParens: 2}
		s := rd.Render(tree)
		switch r.Intn(3) {
		case 0: // token level
			s = c15Mutate(r, s)
		case 1: // byte level
			b := []byte(s)
			for m, nm := 0, 1+r.Intn(3); m < nm && len(b) > 0; m++ {
				i := r.Intn(len(b))
				switch r.Intn(5) {
				case 0:
					b[i] ^= 1 << uint(r.Intn(8))
				case 1:
					b = append(b[:i:i], b[i+1:]...)
				case 2:
					b = append(b[:i:i], append([]byte{byte(r.Intn(256))}, b[i:]...)...)
				case 3:
					j := r.Intn(len(b))
					b[i], b[j] = b[j], b[i]
				case 4:
					j := i + r.Intn(len(b)-i)
					b = append(b[:j:j], append(append([]byte(nil), b[i:j]...), b[j:]...)...)
				}
			}
			s = string(b)
		case 2: // splice two derivations
			t2 := rd.Render(xgen.RandTree(r, 1+r.Intn(3)))
			s = s[:r.Intn(len(s)+1)] + t2[r.Intn(len(t2)+1):]
		}
		c10Check(c, s, "mutated-derivation", 1<<17)
		c.Count("random_inputs")
		if idx%5003 == 0 {
			c.Sample(map[string]any{"kind": "mutated derivation", "input": fmt.Sprintf("%q", clip(s, 200))})
		}
		return
	}
	// recursion-depth probes: flat right-recursive chains parsed WITHOUT a
	// budget. Parse time is linear, but so is the stack depth; the run-time's
	// stack limit is lowered so that the growth is visible cheaply (quick) -
	// the thorough tier additionally runs the real 1 GB case.
	k := idx - (p.nCorpus + p.nHostile + p.nNest + p.nLong + p.nRand)
	old := debug.SetMaxStack(1 << 30)
	defer debug.SetMaxStack(old)
	if k == 2 {
		// only the probe that demonstrates the known finding runs with a
		// lowered stack limit; the "must survive" probes keep the default
		debug.SetMaxStack(48 << 20)
	}
	switch k {
	case 0:
		c.Risk("unlimited-parse linear-chain (2000 conjuncts, must survive)")
		s := "a == 1" + strings.Repeat(" and a == 1", 2000)
		c10Check(c, s, "chain-2000", 0)
		c.Count("probe:chain-2000-survived")
	case 1:
		c.Risk("unlimited-parse linear-chain (20000 x not, must survive)")
		s := strings.Repeat("not ", 20001) + "a == 1"
		c10Check(c, s, "not-chain-20001", 0)
		c.Count("probe:not-chain-survived")
	case 2:
		c.Risk("unlimited-parse linear-chain")
		n := 150000
		if c.Tier == "thorough" {
			debug.SetMaxStack(old)
			n = 2500000
		}
		s := "a == 1" + strings.Repeat(" and a == 1", n)
		c.Add("probe:chain-operands", int64(n))
		c10Check(c, s, "chain-unbounded", 0)
		c.Count("probe:big-chain-survived")
	case 3:
		c.Count("probe:after-chain")
	}
}

func init() {
	mon.Register(&mon.Prop{
		ID: "C10", Level: "exploration",
		Rule: "byte strings: a 45-entry grammar-derived corpus with every prefix, suffix, single-byte deletion and 8 hostile single-byte insertions (0xff, NUL, quotes, parens, newline, backslash) at every position; a hand-made hostile list (invalid UTF-8, NUL, lone quotes, bad escapes, keyword misuse); nesting depth 1..60 of parentheses / not / quantifiers (parsed under a 2^18 step budget); 100 kB tokens; seeded token-level, byte-level and splice mutations of random derivations; each goes through grammar.Parse, CreateEvaluator, CreateFilter, then Evaluate on 5 benign data (in two of them every generated identifier resolves, to a string / to a list), Execute and ExpressionDump; finally flat right-recursive chains parsed without a budget in a journaled child process. non-trivial = accepted, or rejected through something other than a plain no-match (error production, unquote, encoding, budget); distinct by input bytes",
		Assumptions: []string{"inputs whose parse exceeds the step budget are checked for totality of Parse/CreateEvaluator only (CreateFilter has no budget option)",
			"the quick tier demonstrates the linear stack growth of unlimited parses with the Go stack limit lowered to 48 MB (150 000 conjuncts); the thorough tier uses the real 1 GB limit (2.5 million conjuncts)"},
		NumCases: func(tier string) int {
			p := c10PlanFor(tier)
			return p.nCorpus + p.nHostile + p.nNest + p.nLong + p.nRand + p.nProbe
		},
		Run: c10Run,
		Required: func(tier string) []string {
			// (the class:err-* counters are derived from message texts of the
			// tree under test and are reported, not required: rewording an
			// error must not make the check inconclusive)
			return []string{"class:accepted", "rejected", "class:budget-exhausted", "filter_empty_string", "evaluators_exercised", "trees_dumped",
				"probe:chain-2000-survived", "probe:not-chain-survived", "probe:after-chain", "expensive_valid_inputs", "explicit_zero_budget_checked"}
		},
		ChunkTimeout: 0,
		Heavy: func(tier string, idx int) bool {
			p := c10PlanFor(tier)
			k := idx - p.nCorpus - p.nHostile - p.nNest
			return k >= 8 && k < p.nLong
		},
		Post: func(a *mon.Agg) {
			// results of the native fuzzer stage run by ./check before the
			// seeded workload (thorough tier)
			if n := os.Getenv("VERIF_FUZZ_EXECS_DONE"); n != "" {
				a.Extra["native_fuzzer"] = map[string]any{"executions": n, "status": os.Getenv("VERIF_FUZZ_STATUS"), "note": "go test -fuzz FuzzTotality: coverage-guided, not seedable; same totality oracle"}
				if os.Getenv("VERIF_FUZZ_STATUS") == "failed" {
					a.AddViolation(mon.Violation{Prop: "C10", Sig: "C10 native-fuzzer " + os.Getenv("VERIF_FUZZ_SIG"), What: "the native fuzzer found an input that violates the totality oracle", Tier: a.Tier, Seed: a.Seed,
						Detail: map[string]any{"log_tail": os.Getenv("VERIF_FUZZ_TAIL")}})
				}
			}
		},
	})
}

// C10SeedCorpus is the seed corpus handed to the native fuzzer.
func C10SeedCorpus() []string {
	return append(append([]string{}, c10Corpus...), c10Hostile...)
}

// C10FuzzOracle applies the C10 totality oracle to one input and returns the
// first violation ("" if none). Used by internal/fuzzc10.
func C10FuzzOracle(s string) string {
	c := mon.NewCtx("C10", "thorough", 1, nil)
	c10Check(c, s, "native-fuzzer", 1<<15)
	if v := c.FirstViolation(); v != nil {
		return v.Sig + ": " + v.What
	}
	return ""
}
