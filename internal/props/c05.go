package props

import (
	"fmt"
	"math/rand"
	"strings"

	bexpr "github.com/hashicorp/go-bexpr"

	"verif/internal/mon"
	"verif/internal/refsem"
	"verif/internal/univ"
	"verif/internal/xgen"
)

// C05 - absent map keys follow the documented table; the unknown value
// substitutes exactly.

// the table, copied from the statement
var c05Table = map[xgen.Op]string{xgen.OpEq: "F", xgen.OpIn: "F", xgen.OpMatches: "F", xgen.OpNotEmpty: "F",
	xgen.OpNe: "T", xgen.OpNotIn: "T", xgen.OpNotMatches: "T", xgen.OpEmpty: "T"}

var c05Unknowns = []*univ.Node{univ.Str(""), univ.Str("abc"), univ.Bool(true), univ.Bool(false), univ.Int(0), univ.Int(7), univ.IntOf(univ.TInt64, -3), univ.UintOf(univ.TUint8, 200),
	univ.Float(1.5), univ.FloatOf(univ.TFloat32, 0.5), univ.StrOf(univ.NamedScalarTypes[9], "abc"), univ.IntOf(univ.TInt8, 7), univ.UintOf(univ.TUint64, 1<<63), univ.NilIface(), univ.JSONNum("7"),
	// float32 values that are not dyadic (0.1f != 0.1), out of float32 range literals tell the widths apart too
	univ.FloatOf(univ.TFloat32, float64(float32(0.1))), univ.FloatOf(univ.TFloat32, float64(float32(1.1))), univ.FloatOf(univ.TFloat32, float64(float32(16777217))), univ.JSONNum("0.1"), univ.JSONNum("1e2"), univ.IntOf(univ.TInt16, -300), univ.UintOf(univ.TUint32, 1<<31)}

var c05Lits = []string{"1", "abc", "", "7", "true", "1.5", "^a", "x", "200", "0", "(", "a(b", "*", "[a-", "99999999999999999999", "0.1", "1.1", "1e39", "16777217", "16777216", "100", "-300", "2147483648", "0.10000000149011612"}

const c05Absent = "zzAbsentKey"

type c05Place struct {
	parts  []string
	kind   string // what is absent and under what
	notPre bool   // the statement's not-present case
	absent bool   // fails only because a key or field is absent (unknown value applies)
	parent *univ.Node
	pidx   int // index into Paths() of the parent (-1: the datum)
}

func c05Places(r *rand.Rand, datum *univ.Node, opt *refsem.Options) []c05Place {
	paths := refsem.Paths(datum, opt, 3)
	all := append([]refsem.PathInfo{{Path: nil, Val: datum}}, paths...)
	var out []c05Place
	for i, p := range all {
		n := refsem.Through(p.Val)
		base := append([]string(nil), p.Path...)
		with := func(extra ...string) []string { return append(append([]string(nil), base...), extra...) }
		if n == nil {
			out = append(out, c05Place{parts: with("k"), kind: "step-into-nil"})
			continue
		}
		switch n.T.K {
		case univ.KMap:
			if n.T.Key.K != univ.KString {
				continue
			}
			viaPtr := ""
			if u := p.Val; u != nil && (u.T.K == univ.KPtr || (u.T.K == univ.KIface && !u.Nil && u.Elem.T.K == univ.KPtr)) {
				viaPtr = "-behind-pointer"
			}
			if len(base) >= 1 {
				out = append(out, c05Place{parts: with(c05Absent), kind: "leaf-under-map" + viaPtr, notPre: true, absent: true, parent: n, pidx: i - 1})
			} else {
				out = append(out, c05Place{parts: with(c05Absent), kind: "root-key", absent: true, parent: n, pidx: -1})
			}
			out = append(out, c05Place{parts: with(c05Absent, "k"), kind: "intermediate-under-map", absent: true})
		case univ.KStruct:
			out = append(out, c05Place{parts: with("ZzAbsentField"), kind: "field-under-struct", absent: true})
			out = append(out, c05Place{parts: with("ZzAbsentField", "k"), kind: "intermediate-under-struct", absent: true})
		case univ.KSlice, univ.KArray:
			out = append(out, c05Place{parts: with("99"), kind: "index-out-of-range"})
			out = append(out, c05Place{parts: with("zz"), kind: "non-numeric-index"})
		default:
			if n.T.K.IsScalar() {
				out = append(out, c05Place{parts: with("k"), kind: "step-into-scalar"})
			}
		}
	}
	r.Shuffle(len(out), func(i, j int) { out[i], out[j] = out[j], out[i] })
	return out
}

// c05Escapes: absent keys whose JSON-Pointer spelling needs escapes, next to
// present keys that a wrong decoding would hit ("~01" is "~1", not "/").
var c05EscapeData = univ.IfaceMap("m", univ.IfaceMap("/", univ.Int(1), "~", univ.Int(2), "a/b", univ.Int(3), "x", univ.Int(4)), "/", univ.Int(5))

var c05EscapeCases = []struct{ expr, want string }{
	{`"/m/~01" == 1`, "F"}, {`"/m/~01" != 1`, "T"}, {`"/m/~01" is empty`, "T"}, {`"/m/~01" is not empty`, "F"}, {`1 in "/m/~01"`, "F"}, {`"/m/~01" matches "1"`, "F"}, {`any "/m/~01" as v { v == 1 }`, "F"}, {`all "/m/~01" as v { v == 9 }`, "T"},
	{`"/m/~1" == 1`, "T"}, {`"/m/~0" == 2`, "T"}, {`"/m/a~1b" == 3`, "T"}, {`"/m/a~01b" == 3`, "F"}, {`"/m/~00" == 2`, "F"}, {`"/~01" == 5`, "E"}, {`"/~1" == 5`, "T"}, {`m["~1"] == 1`, "F"}, {`m["/"] == 1`, "T"},
	// absent keys whose TEXT looks like a piece of a lookup error message
	{"m[`warning: struct field with name Foo is deprecated`] == 1", "F"}, {"m[`: struct field with name `] != 1", "T"}, {"m[`couldn't find key`] is empty", "T"}, {"m[`index 5 is out of range`] == 1", "F"},
	{"m[`key not found`] != 1", "T"}, {"all m[`at part 1: couldn't find key: zz`] as v { v == 1 }", "T"}, {"m[`invalid`] is not empty", "F"}, {"m[`%!v(MISSING)`] == 1", "F"}, {"m[`%s`] != 1", "T"},
}

// mutually recursive struct types (not buildable with reflect.StructOf): a
// map reachable only through the other type of the pair. Anything computed
// per type while the other type of a cycle is still being looked at must not
// be remembered as final.
type c05RecA struct {
	Owner *c05RecB
	Tags  map[string]int
	Name  string
}
type c05RecB struct {
	Account *c05RecA
	Age     int
}
type c05RecC struct {
	Peer  *c05RecD
	Attrs map[string]interface{}
}
type c05RecD struct {
	N    int
	Back *c05RecC
}

func c05Recursive(c *mon.Ctx) {
	a := &c05RecA{Tags: map[string]int{"k": 1}, Name: "a"}
	b := &c05RecB{Account: a, Age: 3}
	a.Owner = b
	cc := &c05RecC{Attrs: map[string]interface{}{"k": 1}}
	d := &c05RecD{N: 1, Back: cc}
	cc.Peer = d
	steps := []struct {
		datum interface{}
		expr  string
		want  string
	}{
		{a, `Tags.missing != 1`, "T"}, {b, `Account.Tags.missing != 1`, "T"}, {b, `Account.Tags.missing == 1`, "F"}, {b, `Account.Tags.missing is empty`, "T"}, {b, `all Account.Tags.missing as v { v == 1 }`, "T"},
		{*b, `Account.Owner.Account.Tags.missing != 1`, "T"}, {d, `Back.Attrs.missing != 1`, "T"}, {cc, `Attrs.missing != 1`, "T"}, {cc, `Peer.Back.Attrs.missing is empty`, "T"}, {d, `Back.Peer.Back.Attrs.missing == 1`, "F"},
		{b, `Account.Tags.k == 1`, "T"}, {b, `Account.Name.missing == 1`, "E"}, {b, `Age.missing == 1`, "E"},
	}
	for _, st := range steps {
		ev, err, pan, _ := createEval(st.expr)
		c.Evals(1)
		if pan != "" || err != nil {
			continue
		}
		if o := evaluate(ev, st.datum); o.Class3() != st.want {
			c.Violation(fmt.Sprintf("C05 recursive-types got=%s want=%s", o.Class3(), st.want), "an absent map key reached through mutually recursive struct types does not follow the table", map[string]any{"expression": st.expr, "datum_type": fmt.Sprintf("%T", st.datum), "observed": o.String(), "expected": st.want})
			return
		}
	}
	c.Count("recursive_type_scenarios")
}

func c05Escapes(c *mon.Ctx, idx int) {
	cs := c05EscapeCases[(idx/10)%len(c05EscapeCases)]
	for _, withUnknown := range []bool{false, true} {
		var opts []bexpr.Option
		want := cs.want
		if withUnknown && (strings.HasPrefix(cs.expr, "m[`") || strings.HasPrefix(cs.expr, "all m[`")) {
			continue // the error-text look-alikes are checked without an unknown value only
		}
		if withUnknown {
			opts = append(opts, bexpr.WithUnknownValue(1))
			// the unknown value 1 replaces only what is absent
			switch cs.expr {
			case `"/m/~01" == 1`, `1 in "/m/~01"`:
				want = map[string]string{`"/m/~01" == 1`: "T", `1 in "/m/~01"`: "E"}[cs.expr]
			case `"/m/~01" != 1`:
				want = "F"
			case `"/m/~01" is empty`, `"/m/~01" is not empty`, `"/m/~01" matches "1"`, `any "/m/~01" as v { v == 1 }`, `all "/m/~01" as v { v == 9 }`:
				want = "E"
			case `"/m/a~01b" == 3`, `"/m/~00" == 2`:
				want = "F"
			case `m["~1"] == 1`:
				want = "T"
			case `"/~01" == 5`:
				want = "F"
			}
		}
		ev, err, pan, _ := createEval(cs.expr, opts...)
		if pan != "" || err != nil {
			c.Violation("C05 escape-case-rejected", "a fixed escape expression was rejected", map[string]any{"expression": cs.expr, "error": fmt.Sprint(err) + pan})
			return
		}
		o := evaluate(ev, c05EscapeData.Datum())
		c.Evals(1)
		if o.Class3() != want {
			c.Violation(fmt.Sprintf("C05 escaped-absent-key got=%s want=%s unknown=%v", o.Class3(), want, withUnknown), "an absent key spelled with JSON-Pointer escapes does not follow the table", map[string]any{"expression": cs.expr, "with_unknown_value_1": withUnknown, "observed": o.String(), "expected": want})
		}
	}
	c.Count("escape_cases")
}

func c05Run(c *mon.Ctx, idx int) {
	r := c.RNG(idx)
	if idx%10 == 0 {
		c05Escapes(c, idx)
		if idx%50 == 0 {
			c05Recursive(c)
		}
	}
	doc := univ.GenObj(r, 3, true)
	seed := r.Int63()
	datum := univ.Represent(rand.New(rand.NewSource(seed)), doc, univ.Policy{Mode: idx % 5})
	opt := &refsem.Options{}
	g := newEgen(r, datum, opt)
	places := c05Places(r, datum, opt)
	seenKind := map[string]bool{}
	n := 0
	for _, pl := range places {
		if seenKind[pl.kind] && r.Intn(3) > 0 {
			continue
		}
		seenKind[pl.kind] = true
		if n++; n > 8 {
			break
		}
		sel, ok := g.selFor(pl.parts)
		if !ok {
			continue
		}
		lit := &xgen.Lit{S: c05Lits[r.Intn(len(c05Lits))], Style: xgen.StyleQuoted}
		unk := c05Unknowns[r.Intn(len(c05Unknowns))]
		var withKey *univ.Node // datum with the unknown value inserted at the missing place
		if pl.parent != nil && (pl.parent.T.Elem.K == univ.KIface || pl.parent.T.Elem.String() == unk.T.String()) {
			clone := datum.Clone()
			var target *univ.Node
			if pl.pidx < 0 {
				target = refsem.Through(clone)
			} else {
				target = refsem.Through(refsem.Paths(clone, opt, 3)[pl.pidx].Val)
			}
			if target != nil && target.T.K == univ.KMap {
				target.Nil = false
				target.Keys = append(target.Keys, univ.StrOf(target.T.Key, c05Absent))
				target.Items = append(target.Items, univ.Wrap(unk, target.T.Elem))
				withKey = clone
			}
		}
		for op := xgen.Op(0); op < 8; op++ {
			m := &xgen.Match{Sel: sel, Op: op, Contains: r.Intn(2) == 0}
			if op.HasValue() {
				m.Lit = lit
			}
			c.Evals(1)
			o, txt, ok := evalText(m, r, datum, opt)
			if !ok {
				continue
			}
			want := "E"
			if pl.notPre {
				want = c05Table[op]
			}
			c.Count("place:" + pl.kind + "/" + op.String())
			if got := o.Class3(); got != want {
				c.Violation(fmt.Sprintf("C05 table place=%s op=%s got=%s want=%s", pl.kind, op, got, want), "absent-path outcome differs from the documented table",
					map[string]any{"expression": clip(txt, 300), "datum": clip(datum.Describe(), 1200), "observed": o.String(), "expected": want})
				continue
			}
			// with an unknown value
			uopt := &refsem.Options{Unknown: unk}
			ou, _, ok := evalText(m, r, datum, uopt)
			c.Evals(1)
			if !ok {
				continue
			}
			a := refsem.Eval(m, datum, uopt)
			if !pl.absent {
				// not an absent key/field: the unknown value must not rescue it
				if ou.Class3() != "E" {
					c.Violation(fmt.Sprintf("C05 unknown-rescues place=%s op=%s got=%s", pl.kind, op, ou.Class3()), "the unknown value was substituted although the selector did not fail because of an absent key",
						map[string]any{"expression": clip(txt, 300), "datum": clip(datum.Describe(), 1200), "unknown": unk.Describe(), "observed": ou.String()})
				}
				c.Count("unknown:not-applicable")
				continue
			}
			if mismatch(ou, a) {
				c.Violation(fmt.Sprintf("C05 unknown-vs-reference place=%s op=%s got=%s allowed=%s", pl.kind, op, ou.Class3(), a), "with an unknown value the outcome is not that of the value itself",
					map[string]any{"expression": clip(txt, 300), "datum": clip(datum.Describe(), 1200), "unknown": unk.Describe(), "observed": ou.String(), "allowed": a.String()})
				continue
			}
			if withKey != nil {
				oi, _, ok := evalText(m, r, withKey, opt)
				c.Evals(1)
				if ok && oi.Class3() != ou.Class3() {
					c.Violation(fmt.Sprintf("C05 unknown-vs-inserted place=%s op=%s unknown=%s inserted=%s", pl.kind, op, ou.Class3(), oi.Class3()), "evaluating with unknown value v differs from evaluating on the datum with v inserted at the missing place",
						map[string]any{"expression": clip(txt, 300), "datum": clip(datum.Describe(), 1200), "unknown": unk.Describe(), "with_unknown": ou.String(), "with_inserted": oi.String()})
					continue
				}
				c.Count("unknown:inserted-compared")
			}
			c.Count("unknown:" + unk.T.String())
		}
		// quantifiers over the absent place
		for _, all := range []bool{false, true} {
			q := &xgen.Quant{All: all, Sel: sel, Mode: xgen.BindMode(r.Intn(4)), Name: "qk", Name2: "qv", Body: &xgen.Match{Sel: xgen.Sel{Parts: []string{"qk"}}, Op: xgen.OpEmpty}}
			if q.Mode == xgen.BindIndexValue && pl.notPre && r.Intn(2) == 0 {
				q.Name2 = "qk" // the same name twice: nothing is bound over an absent collection, so this is not an error there
				c.Count("place-quant-same-name")
			}
			if q.Mode == xgen.BindValue {
				q.Body = &xgen.Match{Sel: xgen.Sel{Parts: []string{"qv"}}, Op: xgen.OpEmpty}
			}
			o, txt, ok := evalText(q, r, datum, opt)
			c.Evals(1)
			if !ok {
				continue
			}
			want := "E"
			if pl.notPre {
				want = map[bool]string{true: "T", false: "F"}[all]
			}
			if got := o.Class3(); got != want {
				c.Violation(fmt.Sprintf("C05 quantifier place=%s all=%v got=%s want=%s", pl.kind, all, got, want), "quantifier over an absent place differs from the documented outcome",
					map[string]any{"expression": clip(txt, 300), "datum": clip(datum.Describe(), 1200), "observed": o.String(), "expected": want})
			}
			c.Count("place-quant:" + pl.kind)
		}
		c.Distinct(pl.kind + "|" + fmt.Sprint(pl.parts) + "|" + datum.Shape())
		if idx%997 == 0 && n == 1 {
			c.Sample(map[string]any{"place": pl.kind, "selector_parts": pl.parts, "datum": clip(datum.Describe(), 300), "unknown": unk.Describe()})
		}
	}
	// aliases: an absent key under a map reached through a quantifier-bound alias
	for k := 0; k < 2; k++ {
		g2 := newEgen(r, datum, opt)
		g2.pBroken, g2.pQuant = 0.35, 0.6
		e := g2.expr(2+r.Intn(2), 0)
		aopt := opt
		if k == 1 {
			aopt = &refsem.Options{Unknown: c05Unknowns[r.Intn(len(c05Unknowns))]}
			c.Count("alias_workload_with_unknown")
		}
		ec := &evalCase{Expr: e, Text: (&xgen.Renderer{R: r}).Render(e), Datum: datum, Opt: aopt}
		checkAgainstReference(c, "C05", ec, "alias-workload")
		c.Count("alias_workload")
	}
	// the table must not depend on what the evaluator saw before: one
	// evaluator per absent-leaf selector is used on the datum, on other
	// representations of the same document (where the same selector fails for
	// another reason: struct parent, pointer, absent intermediate) and on the
	// datum again, and compared with fresh evaluators
	others := []*univ.Node{datum}
	for m := 0; m < 5; m++ {
		if m != idx%5 {
			others = append(others, univ.Represent(rand.New(rand.NewSource(seed+int64(m)+1)), doc, univ.Policy{Mode: m}))
		}
	}
	others = append(others, datum, univ.IfaceMap())
	nh := 0
	for _, pl := range places {
		if !pl.absent || nh >= 2 {
			continue
		}
		sel, ok := g.selFor(pl.parts)
		if !ok {
			continue
		}
		nh++
		m := &xgen.Match{Sel: sel, Op: xgen.Op(r.Intn(8)), Lit: &xgen.Lit{S: "1", Style: xgen.StyleQuoted}}
		if !m.Op.HasValue() {
			m.Lit = nil
		}
		txt := (&xgen.Renderer{R: r}).Render(m)
		used, err, pan, _ := createEval(txt)
		if pan != "" || err != nil {
			continue
		}
		for oi, d := range others {
			fresh, _, _, _ := createEval(txt)
			ou, of := evaluate(used, d.Datum()), evaluate(fresh, d.Datum())
			c.Evals(2)
			if ou.Class() != of.Class() {
				c.Violation(fmt.Sprintf("C05 history-dependent place=%s used=%s fresh=%s", pl.kind, ou.Class(), of.Class()), "the outcome for an absent path depends on what the evaluator was used on before",
					map[string]any{"expression": clip(txt, 300), "step": oi, "datum": clip(d.Describe(), 1000), "used_evaluator": ou.String(), "fresh_evaluator": of.String()})
				break
			}
		}
		c.Count("history_sequences")
	}
	// (c) expressions whose selectors all resolve are unaffected by an unknown value
	g3 := newEgen(r, datum, opt)
	g3.pBroken = 0
	for k := 0; k < 3; k++ {
		e := g3.expr(1+r.Intn(3), 0)
		absent := false
		tr := &refsem.Options{Trace: func(ev string) {
			if ev == "resolve:absent" {
				absent = true
			}
		}}
		if a := refsem.Eval(e, datum, tr); a.Unspec != "" || absent {
			c.Count("resolving_skipped")
			continue
		}
		unk := c05Unknowns[r.Intn(len(c05Unknowns))]
		o1, txt, ok1 := evalText(e, r, datum, opt)
		o2, _, ok2 := evalText(e, r, datum, &refsem.Options{Unknown: unk})
		c.Evals(2)
		if ok1 && ok2 && o1.Class3() != o2.Class3() {
			c.Violation("C05 unknown-changes-resolving-expression", "an unknown value changed the outcome of an expression whose selectors all resolve",
				map[string]any{"expression": clip(txt, 300), "datum": clip(datum.Describe(), 1200), "unknown": unk.Describe(), "without": o1.String(), "with": o2.String()})
		}
		c.Count("resolving_unaffected")
	}
}

func init() {
	kinds := []string{"leaf-under-map", "leaf-under-map-behind-pointer", "root-key", "intermediate-under-map", "field-under-struct", "intermediate-under-struct", "index-out-of-range", "non-numeric-index", "step-into-scalar", "step-into-nil"}
	mon.Register(&mon.Prop{
		ID: "C05", Level: "exploration",
		Rule:        "per case a seeded document in one of 5 Go representations; every place where a path can fail is derived from the datum's own shape (absent leaf under a map - also behind pointers/interfaces, root key, absent intermediate under map/struct, absent struct field, index out of range, non-numeric index, step into a scalar / nil); up to 8 places x all 8 operators + any/all in every binding mode. oracle (a): the table of the statement, copied literally; (b) with WithUnknownValue(v), v from 15 values (scalars of different kinds, nil, json.Number): outcome must be in the reference's allowed set for 'resolved to v', must equal evaluating WITHOUT unknown value on a clone of the datum with v inserted at the missing key (when the parent map can hold v), and must stay an error when the failure is not an absent key/field; (c) expressions whose selectors all resolve: identical with and without unknown value; plus quantifier-heavy expressions against the reference for aliases. non-trivial = a place exercised with all operators; distinct by (place kind, selector, datum shape)",
		Assumptions: []string{"which failures count as 'absent key or field' follows the statement: absent map key, absent struct field, absent intermediate or top-level key; out-of-range index and stepping into a scalar are not"},
		NumCases:    func(tier string) int { return tierN(tier, 4000, 150000) },
		Run:         c05Run,
		Required: func(tier string) []string {
			l := []string{"unknown:inserted-compared", "unknown:not-applicable", "resolving_unaffected", "alias_workload", "escape_cases", "recursive_type_scenarios", "history_sequences", "place-quant-same-name", "unknown:interface{}"}
			for _, k := range kinds {
				l = append(l, "place-quant:"+k)
				for _, op := range c01Ops {
					l = append(l, "place:"+k+"/"+op)
				}
			}
			return l
		},
	})
}
