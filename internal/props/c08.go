package props

import (
	"fmt"
	"math/rand"
	"reflect"
	"sort"
	"strings"

	bexpr "github.com/hashicorp/go-bexpr"

	"verif/internal/mon"
	"verif/internal/refsem"
	"verif/internal/univ"
	"verif/internal/xgen"
)

// C08 - hidden and unexported struct fields never influence any result.

// keptPositions maps the elements of an Execute result back to positions /
// keys of the input (greedy leftmost matching by deep equality).
func keptPositions(in, out reflect.Value) string {
	switch in.Kind() {
	case reflect.Slice, reflect.Array:
		if out.Kind() != reflect.Slice {
			return "result-kind:" + out.Kind().String()
		}
		var pos []string
		j := 0
		for i := 0; i < out.Len(); i++ {
			found := false
			for ; j < in.Len(); j++ {
				if reflect.DeepEqual(in.Index(j).Interface(), out.Index(i).Interface()) {
					pos = append(pos, fmt.Sprint(j))
					j++
					found = true
					break
				}
			}
			if !found {
				pos = append(pos, "?")
			}
		}
		return "[" + strings.Join(pos, ",") + "]"
	case reflect.Map:
		if out.Kind() != reflect.Map {
			return "result-kind:" + out.Kind().String()
		}
		var keys []string
		for _, k := range out.MapKeys() {
			keys = append(keys, fmt.Sprintf("%#v", k.Interface()))
		}
		sort.Strings(keys)
		return "{" + strings.Join(keys, ",") + "}"
	}
	return "?"
}

type execObs struct {
	out   interface{}
	err   error
	panic string
	site  string
}

func execute(f *bexpr.Filter, in interface{}) (o execObs) {
	t := mon.Try(func() { o.out, o.err = f.Execute(in) })
	if t.Panic {
		o.panic, o.site = t.PanicVal, mon.PanicSite(t.Stack)
	}
	return
}

// hiddenFieldCases lists (path naming a hidden/unexported/renamed field by its
// Go name, content of that field in d1).
func hiddenFieldCases(d *univ.Node, opt *refsem.Options) (out []struct {
	parts   []string
	content *univ.Node
	kind    string
}) {
	all := append([]refsem.PathInfo{{Path: nil, Val: d}}, refsem.Paths(d, opt, 3)...)
	for _, p := range all {
		n := refsem.Through(p.Val)
		if n == nil || n.T.K != univ.KStruct {
			continue
		}
		for i, f := range n.T.Fields {
			kind := ""
			switch {
			case f.Unexported:
				kind = "unexported"
			case strings.HasPrefix(f.Name, "Hidden"):
				kind = "hidden"
			case strings.Contains(f.Tag, `bexpr:"`) && !strings.HasPrefix(f.Name, "BHidden") && !strings.HasPrefix(f.Name, "AHidden") && opt.TagName == "":
				kind = "renamed-by-go-name"
				if f.Name == bexprTag(f.Tag) {
					continue
				}
			default:
				continue
			}
			out = append(out, struct {
				parts   []string
				content *univ.Node
				kind    string
			}{append(append([]string(nil), p.Path...), f.Name), n.Items[i], kind})
		}
	}
	return
}

func bexprTag(tag string) string {
	if i := strings.Index(tag, `bexpr:"`); i >= 0 {
		rest := tag[i+7:]
		if j := strings.IndexAny(rest, `",`); j >= 0 {
			return rest[:j]
		}
	}
	return ""
}

// c08SameNameA / c08SameNameB return values of two DISTINCT struct types that
// print the same (function-local types with the same name): anything keyed by
// reflect.Type.String() confuses them. In the second one the position of the
// visible field of the first holds a hidden field.
func c08SameNameA(x int) interface{} {
	type rec struct {
		X    int
		Note string
	}
	return rec{X: x, Note: "n"}
}

func c08SameNameB(x int, secret int) interface{} {
	type rec struct {
		Secret int `bexpr:"-"`
		Note   string
		X      int
	}
	return rec{Secret: secret, Note: "n", X: x}
}

// c08TypeConfusion: a history in one process - evaluate on type A first, then
// on pairs of type B that differ only in the hidden field.
func c08TypeConfusion(c *mon.Ctx, r *rand.Rand) {
	for _, expr := range []string{`X == 1`, `X != 1`, `X == 7 or Note == zz`, `any l as e { e.X == 1 }`} {
		ev, err, pan, _ := createEval(expr)
		if pan != "" || err != nil {
			continue
		}
		wrap := func(v interface{}) interface{} {
			if strings.HasPrefix(expr, "any") {
				return map[string]interface{}{"l": []interface{}{v}}
			}
			return v
		}
		evaluate(ev, wrap(c08SameNameA(1)))
		o1 := evaluate(ev, wrap(c08SameNameB(1, 1)))
		o2 := evaluate(ev, wrap(c08SameNameB(1, 7)))
		c.Evals(3)
		if o1.Class() != o2.Class() {
			c.Violation("C08 evaluate-differs same-named-types "+o1.Class()+"-vs-"+o2.Class(), "two data that differ only in a hidden field gave different outcomes (after evaluating a different struct type that prints the same)",
				map[string]any{"expression": expr, "outcome1": o1.String(), "outcome2": o2.String()})
		}
		f, _ := bexpr.CreateFilter(expr)
		if f != nil && !strings.HasPrefix(expr, "any") {
			execute(f, []interface{}{c08SameNameA(1)})
			x1 := execute(f, []interface{}{c08SameNameB(1, 1), c08SameNameB(2, 1)})
			x2 := execute(f, []interface{}{c08SameNameB(1, 7), c08SameNameB(2, 7)})
			if lenOf(x1.out) != lenOf(x2.out) || (x1.err == nil) != (x2.err == nil) {
				c.Violation("C08 filter-selection-differs same-named-types", "Filter.Execute kept different elements on data that differ only in a hidden field", map[string]any{"expression": expr, "kept1": lenOf(x1.out), "kept2": lenOf(x2.out)})
			}
		}
		c.Count("same_named_type_histories")
	}
}

// embedded structs: hidden / renamed fields of the embedded struct must not
// become reachable (by Go name) from the outer level.
type C08Base struct {
	Token   string `bexpr:"-" alt:"-"`
	Name    string `bexpr:"name" alt:"altname"`
	secret  int
	Visible int
}
type c08inner struct {
	Key string `bexpr:"-"`
}
type c08Outer struct {
	C08Base
	c08inner
	*C08Ptr
	ID int
}
type C08Ptr struct {
	Pin string `bexpr:"-" alt:"-"`
}

func c08Embedded(c *mon.Ctx) {
	mk := func(tok, key, pin string, sec int) interface{} {
		return c08Outer{C08Base: C08Base{Token: tok, Name: "n", secret: sec, Visible: 1}, c08inner: c08inner{Key: key}, C08Ptr: &C08Ptr{Pin: pin}, ID: 5}
	}
	d1, d2 := mk("s3cret", "k1", "1234", 1), mk("other", "k2", "9999", 2)
	exprs := []string{`Token == "s3cret"`, `Token is empty`, `Token matches "^s3"`, `"s3" in Token`, `Key == "k1"`, `Pin == "1234"`, `C08Base.Token == "s3cret"`, `C08Ptr.Pin == "1234"`, `Name == "n"`, `name == "n"`, `C08Base.name == "n"`,
		`C08Base.Visible == 1`, `Visible == 1`, `secret == 1`, `C08Base.secret == 1`, `ID == 5`, `C08Base is empty`, `any C08Base as k, v { v == "s3cret" }`}
	for _, tag := range []string{"", "alt"} {
		for _, e := range exprs {
			var opts []bexpr.Option
			if tag != "" {
				opts = append(opts, bexpr.WithTagName(tag))
			}
			ev, err, pan, _ := createEval(e, opts...)
			if pan != "" || err != nil {
				continue
			}
			for _, wrap := range []func(interface{}) interface{}{func(v interface{}) interface{} { return v }, func(v interface{}) interface{} { x := v.(c08Outer); return &x }, func(v interface{}) interface{} {
				return map[string]interface{}{"C08Base": v.(c08Outer).C08Base, "ID": 5}
			}} {
				o1, o2 := evaluate(ev, wrap(d1)), evaluate(ev, wrap(d2))
				c.Evals(2)
				if o1.Class() != o2.Class() {
					c.Violation("C08 evaluate-differs embedded-struct "+o1.Class()+"-vs-"+o2.Class()+" tag="+tag, "two data that differ only in hidden / unexported fields of an embedded struct gave different outcomes",
						map[string]any{"expression": e, "tag": tag, "outcome1": o1.String(), "outcome2": o2.String()})
				}
			}
		}
	}
	f, _ := bexpr.CreateFilter(`Token == "s3cret" or Key == "k1" or Pin == "1234" or ID == 5`)
	x1, x2 := execute(f, []interface{}{d1, d2}), execute(f, []interface{}{d2, d2})
	if lenOf(x1.out) != lenOf(x2.out) || (x1.err == nil) != (x2.err == nil) {
		c.Violation("C08 filter-selection-differs embedded-struct", "Filter.Execute kept different elements on data that differ only in hidden fields of an embedded struct", map[string]any{"kept1": lenOf(x1.out), "kept2": lenOf(x2.out)})
	}
	c.Count("embedded_struct_scenarios")
}

// Types whose METHODS compute from hidden / unexported fields: number-like
// (the method set of json.Number), fmt.Stringer, error, encoding.TextMarshaler,
// json.Marshaler, fmt.GoStringer, fmt.Formatter - with value and with pointer
// receivers. Nothing a method returns may become observable.
type c08Fixed struct {
	Label string
	units int64
	Scale int `bexpr:"-" alt:"-"`
}

func (f c08Fixed) Int64() (int64, error)     { return f.units, nil }
func (f c08Fixed) Float64() (float64, error) { return float64(f.units) / float64(f.Scale+1), nil }
func (f c08Fixed) String() string            { return fmt.Sprintf("%d", f.units*int64(f.Scale+1)) }

type c08FixedPtr struct {
	Label string
	units int64
	Scale int `bexpr:"-" alt:"-"`
}

func (f *c08FixedPtr) Int64() (int64, error)     { return f.units, nil }
func (f *c08FixedPtr) Float64() (float64, error) { return float64(f.units), nil }
func (f *c08FixedPtr) String() string            { return fmt.Sprintf("%d", f.units) }

type c08Texty struct {
	Label string
	token string
	Pin   string `bexpr:"-" alt:"-"`
}

func (t c08Texty) String() string                { return t.token + t.Pin }
func (t c08Texty) Error() string                 { return t.token + t.Pin }
func (t c08Texty) GoString() string              { return t.token + t.Pin }
func (t c08Texty) MarshalText() ([]byte, error)  { return []byte(t.token + t.Pin), nil }
func (t c08Texty) MarshalJSON() ([]byte, error)  { return []byte(`"` + t.token + t.Pin + `"`), nil }
func (t c08Texty) Format(f fmt.State, verb rune) { fmt.Fprint(f, t.token+t.Pin) }
func (t c08Texty) Len() int                      { return len(t.token) }
func (t c08Texty) IsZero() bool                  { return t.token == "" }
func (t c08Texty) Equal(o c08Texty) bool         { return t.token == o.token }
func (t c08Texty) Interface() interface{}        { return t.token }
func (t c08Texty) Bool() bool                    { return t.token != "" }

func c08Methods(c *mon.Ctx) {
	type pair struct {
		name   string
		d1, d2 interface{}
	}
	holder := func(v interface{}, mk func(v interface{}) (interface{}, interface{})) map[string]interface{} {
		l, m := mk(v)
		return map[string]interface{}{"amt": v, "l": l, "m": m, "w": map[string]interface{}{"in": v}}
	}
	pairs := []pair{
		{"number-like value receiver",
			holder(c08Fixed{"l", 5, 1}, func(v interface{}) (interface{}, interface{}) {
				x := v.(c08Fixed)
				return []c08Fixed{x}, map[string]c08Fixed{"k": x}
			}),
			holder(c08Fixed{"l", 9, 3}, func(v interface{}) (interface{}, interface{}) {
				x := v.(c08Fixed)
				return []c08Fixed{x}, map[string]c08Fixed{"k": x}
			})},
		{"number-like pointer to value receiver",
			holder(&c08Fixed{"l", 5, 1}, func(v interface{}) (interface{}, interface{}) {
				x := v.(*c08Fixed)
				return []*c08Fixed{x}, map[string]*c08Fixed{"k": x}
			}),
			holder(&c08Fixed{"l", 9, 3}, func(v interface{}) (interface{}, interface{}) {
				x := v.(*c08Fixed)
				return []*c08Fixed{x}, map[string]*c08Fixed{"k": x}
			})},
		{"number-like pointer receiver",
			holder(&c08FixedPtr{"l", 5, 1}, func(v interface{}) (interface{}, interface{}) {
				x := v.(*c08FixedPtr)
				return []*c08FixedPtr{x}, map[string]*c08FixedPtr{"k": x}
			}),
			holder(&c08FixedPtr{"l", 9, 3}, func(v interface{}) (interface{}, interface{}) {
				x := v.(*c08FixedPtr)
				return []*c08FixedPtr{x}, map[string]*c08FixedPtr{"k": x}
			})},
		{"text-like value receiver",
			holder(c08Texty{"l", "5", ""}, func(v interface{}) (interface{}, interface{}) {
				x := v.(c08Texty)
				return []c08Texty{x}, map[string]c08Texty{"k": x}
			}),
			holder(c08Texty{"l", "tok", "9"}, func(v interface{}) (interface{}, interface{}) {
				x := v.(c08Texty)
				return []c08Texty{x}, map[string]c08Texty{"k": x}
			})},
		{"text-like as error / Stringer interface",
			holder(error(c08Texty{"l", "5", ""}), func(v interface{}) (interface{}, interface{}) {
				x := v.(error)
				return []error{x}, map[string]fmt.Stringer{"k": x.(fmt.Stringer)}
			}),
			holder(error(c08Texty{"l", "tok", "9"}), func(v interface{}) (interface{}, interface{}) {
				x := v.(error)
				return []error{x}, map[string]fmt.Stringer{"k": x.(fmt.Stringer)}
			})},
	}
	exprs := []string{`amt == 5`, `amt != 5`, `amt == "5"`, `amt == 10`, `amt == 2.5`, `amt matches "5"`, `amt not matches "^5$"`, `"5" in amt`, `5 in amt`, `amt is empty`, `amt is not empty`,
		`amt.Label == l`, `amt.units == 5`, `amt.token == "5"`, `amt.Scale == 1`, `w.in == 5`, `"/w/in" == "5"`, `5 in l`, `"5" in l`, `l is empty`, `l.0 == 5`,
		`any l as v { v == 5 }`, `all l as v { v != 5 }`, `any m as k, v { v == 5 }`, `all m as _, v { v matches "5" }`, `any amt as k, v { v == 5 }`, `any amt as k { k == units }`, `m.k == 5`, `not (amt == 5)`}
	for _, p := range pairs {
		for _, tag := range []string{"", "alt"} {
			for _, e := range exprs {
				var opts []bexpr.Option
				if tag != "" {
					opts = append(opts, bexpr.WithTagName(tag))
				}
				for _, unk := range []bool{false, true} {
					o := opts
					if unk {
						o = append(append([]bexpr.Option(nil), opts...), bexpr.WithUnknownValue("5"))
					}
					ev, err, pan, _ := createEval(e, o...)
					if pan != "" || err != nil {
						continue
					}
					o1, o2 := evaluate(ev, p.d1), evaluate(ev, p.d2)
					c.Evals(2)
					c.Count("method_bearing_type_evaluations")
					if o1.Class() != o2.Class() {
						c.Violation("C08 evaluate-differs method-bearing-type "+o1.Class()+"-vs-"+o2.Class(), "two data that differ only in hidden / unexported fields (which the type's methods read) gave different outcomes",
							map[string]any{"type": p.name, "expression": e, "tag": tag, "unknown_value_configured": unk, "outcome1": o1.String(), "outcome2": o2.String()})
					}
				}
			}
		}
		for _, fe := range []string{`Label == l`, `units == 5`, `Scale == 1 or Label == l`, `token == "5" or Label == zz`} {
			f, _ := bexpr.CreateFilter(fe)
			if f == nil {
				continue
			}
			l1, l2 := p.d1.(map[string]interface{})["l"], p.d2.(map[string]interface{})["l"]
			x1, x2 := execute(f, l1), execute(f, l2)
			c.Evals(2)
			if lenOf(x1.out) != lenOf(x2.out) || (x1.err == nil) != (x2.err == nil) {
				c.Violation("C08 filter-selection-differs method-bearing-type", "Filter.Execute kept different elements on data that differ only in hidden fields", map[string]any{"type": p.name, "expression": fe, "kept1": lenOf(x1.out), "kept2": lenOf(x2.out)})
			}
		}
		c.Count("method_bearing_type_scenarios")
	}
}

// Wrapper-like structs whose hidden / unexported fields carry "payload"
// names (Value, Data, Raw ...), and unexported fields that hold CONTAINERS a
// selector could walk into.
type c08Payload struct {
	Label   string
	Value   int    `bexpr:"-" alt:"-"`
	Data    string `bexpr:"-" alt:"-"`
	Raw     []byte `bexpr:"-" alt:"-"`
	Items   []int  `bexpr:"-" alt:"-"`
	value   int
	payload map[string]interface{}
	attrs   map[string]map[string]interface{}
	inner   *c08Payload
	list    []map[string]interface{}
	Elem    interface{}    `bexpr:"-" alt:"-"`
	Dash    string         `bexpr:"-,omitempty" alt:"-,"`
	DashInt int            `bexpr:"-,string" alt:"-,omitempty"`
	Owners  map[c08Key]int // keys with hidden / unexported parts
	OwnersA map[[2]c08Key]string
	shape   interface{} // a map in one datum of a pair, a plain string in the other
	Shape   interface{} `bexpr:"-" alt:"-"`
}

type c08Key struct {
	Region string
	shard  int
	Note   string `bexpr:"-" alt:"-"`
}

func c08Containers(c *mon.Ctx) {
	mk := func(a int, sfx string) c08Payload {
		return c08Payload{Label: "l", Value: a, Data: "d" + sfx, Raw: []byte("r" + sfx), Items: []int{a}, value: a, payload: map[string]interface{}{"k": a, "q": sfx},
			attrs: map[string]map[string]interface{}{"k": {"q": sfx}}, inner: &c08Payload{Label: sfx, value: a}, list: []map[string]interface{}{{"k": a}}, Elem: map[string]interface{}{"k": a}}
	}
	a, b := mk(1, "1"), mk(2, "2")
	a.Dash, a.DashInt, b.Dash, b.DashInt = "s3cret", 7, "other", 8
	a.Owners, b.Owners = map[c08Key]int{{"eu", 7, "n"}: 1}, map[c08Key]int{{"eu", 8, "m"}: 1}
	a.OwnersA, b.OwnersA = map[[2]c08Key]string{{{"eu", 7, "n"}, {"us", 1, "x"}}: "v"}, map[[2]c08Key]string{{{"eu", 8, "m"}, {"us", 2, "y"}}: "v"}
	a.shape, a.Shape = map[string]interface{}{"k": map[string]string{"z": "1"}}, map[string]interface{}{"k": map[string]string{"z": "1"}}
	b.shape, b.Shape = "plain", []int{1}
	wrap := []func(v c08Payload) interface{}{
		func(v c08Payload) interface{} { return v },
		func(v c08Payload) interface{} { return &v },
		func(v c08Payload) interface{} {
			return map[string]interface{}{"p": v, "l": []c08Payload{v}, "m": map[string]*c08Payload{"k": &v}}
		},
	}
	exprs := [][]string{
		{`Value == 1`, `Data == d1`, `value == 1`, `payload.k == 1`, `payload.zz != 1`, `attrs.k.q != "1"`, `attrs.k.q == "1"`, `attrs.k.zz is empty`, `attrs.zz.q != "1"`, `inner.Label == "1"`, `inner.zz != 1`, `list.0.k == 1`, `Elem.k == 1`, `Elem.zz != 1`,
			`"/attrs/k/q" != "1"`, `any attrs as k, v { v.q == "1" }`, `all payload as k { k != zz }`, `Items.0 == 1`, `1 in Items`, `Raw == r1`, `Label == l and attrs.k.q != "2"`,
			`shape.missing != "v"`, `shape.k.q is empty`, `"abc" not in "/shape/k/q"`, `Label == l and not (shape.k.q == "1")`, `shape.k.z == "1"`, `Shape.k.q is empty`, `Shape.missing != 1`, `any shape as k { k == k }`, `shape is empty`},
		nil,
		{`p == 1`, `p != 1`, `p == "d1"`, `p matches "1"`, `1 in p`, `"d1" in p`, `p is empty`, `p.Value == 1`, `p.attrs.k.q != "1"`, `p.payload.zz != 1`, `p.inner.zz != 1`, `p.Elem.zz != 1`, `p.list.0.zz != 1`, `l.0 == 1`, `1 in l`, `any l as v { v == 1 }`,
			`any l as v { v.attrs.k.q != "1" }`, `all l as v { v.payload.zz != 1 }`, `m.k == 1`, `m.k.attrs.k.zz is empty`, `any m as _, v { v == "d1" }`, `any m as _, v { v.inner.zz != 1 }`, `any p as k, v { v == 1 }`, `all p as k { k != Value }`,
			`p.shape.missing != "v"`, `p.shape.k.q is empty`, `any l as v { v.shape.k.q is empty }`, `m.k.shape.zz != 1`, `p.Shape.k.q is empty`},
	}
	exprs[1] = exprs[0]
	// pairwise only (the selectors below start at exported names)
	pairwise := []string{"`{eu 7 n}` in Owners", "`{eu 8 m}` in Owners", "`{eu 7 n}` not in Owners", "Owners contains `{eu 7 n}`", `"{eu 7}" in Owners`, `eu in Owners`, "`[{eu 7 n} {us 1 x}]` in OwnersA", `Owners is empty`, `any Owners as k { k == eu }`,
		`Dash == "s3cret"`, `DashInt == 7`, `"/-" == "s3cret"`, `any l as it { it["-"] == "s3cret" }`, `any l as it { it["-"] == 7 }`, `all l as it { it["-"] != "s3cret" }`, `any m as _, it { it["-"] == "s3cret" }`, `any l as it { "/it/-" == "s3cret" }`,
		`p["-"] == "s3cret"`, `l.0["-"] == "s3cret"`, `any l as it { it.Dash == "s3cret" }`, `any l as it { it.DashInt == 7 }`, "any l as it { `{eu 7 n}` in it.Owners }"}
	for wi, w := range wrap {
		d1, d2 := w(a), w(b)
		for _, tag := range []string{"", "alt"} {
			for _, e := range pairwise {
				var opts []bexpr.Option
				if tag != "" {
					opts = append(opts, bexpr.WithTagName(tag))
				}
				ev, err, pan, _ := createEval(e, opts...)
				if pan != "" || err != nil {
					continue
				}
				o1, o2 := evaluate(ev, d1), evaluate(ev, d2)
				c.Evals(2)
				if o1.Class() != o2.Class() {
					c.Violation("C08 evaluate-differs hidden-containers "+o1.Class()+"-vs-"+o2.Class(), "two data that differ only in hidden / unexported fields (map keys with hidden parts, fields hidden by a `-,option` tag) gave different outcomes",
						map[string]any{"expression": e, "tag": tag, "holder": wi, "outcome1": o1.String(), "outcome2": o2.String()})
				}
			}
		}
	}
	for wi, w := range wrap {
		d1, d2 := w(a), w(b)
		for _, tag := range []string{"", "alt"} {
			for _, e := range exprs[wi] {
				for _, unk := range []bool{false, true} {
					var opts []bexpr.Option
					if tag != "" {
						opts = append(opts, bexpr.WithTagName(tag))
					}
					if unk {
						opts = append(opts, bexpr.WithUnknownValue("1"))
					}
					ev, err, pan, _ := createEval(e, opts...)
					if pan != "" || err != nil {
						continue
					}
					o1, o2 := evaluate(ev, d1), evaluate(ev, d2)
					c.Evals(2)
					c.Count("hidden_container_evaluations")
					if wi < 2 && !unk && (o1.Class() != "E" || o2.Class() != "E") {
						c.Violation("C08 hidden-field-resolved hidden-containers "+o1.Class()+"/"+o2.Class(), "a selector that goes through a hidden / unexported field did not fail",
							map[string]any{"expression": e, "tag": tag, "holder": wi, "outcome1": o1.String(), "outcome2": o2.String()})
						continue
					}
					if o1.Class() != o2.Class() {
						c.Violation("C08 evaluate-differs hidden-containers "+o1.Class()+"-vs-"+o2.Class(), "two data that differ only in hidden / unexported fields (payload-named fields, unexported maps / pointers / lists) gave different outcomes",
							map[string]any{"expression": e, "tag": tag, "unknown_value_configured": unk, "holder": wi, "outcome1": o1.String(), "outcome2": o2.String()})
					}
				}
			}
		}
	}
	for _, fe := range []string{`Value == 1`, `attrs.k.q != "1"`, `payload.zz != 1 or Label == zz`, `inner.zz != 1 or Label == zz`, `Label == l and Elem.zz != 1`, `shape.k.q != "1"`, `shape.zz is empty`, `Shape.k.q != "1"`, "`{eu 7 n}` in Owners", `Dash == "s3cret" or Label == zz`} {
		f, _ := bexpr.CreateFilter(fe)
		if f == nil {
			continue
		}
		x1, x2 := execute(f, []c08Payload{a, a}), execute(f, []c08Payload{b, b})
		c.Evals(2)
		if lenOf(x1.out) != lenOf(x2.out) || (x1.err == nil) != (x2.err == nil) {
			c.Violation("C08 filter-selection-differs hidden-containers", "Filter.Execute kept different elements on data that differ only in hidden fields", map[string]any{"expression": fe, "kept1": lenOf(x1.out), "kept2": lenOf(x2.out), "err1": fmt.Sprint(x1.err), "err2": fmt.Sprint(x2.err)})
		}
	}
	// element types that are comparable at the type level although a hidden
	// interface field may hold something that is not: runs of equal elements
	type cmp struct {
		Label  string
		Extra  interface{} `bexpr:"-" alt:"-"`
		secret interface{}
		N      int
	}
	run1 := []cmp{{"l", map[string]int{"a": 1}, []int{1}, 1}, {"l", map[string]int{"a": 1}, []int{1}, 1}, {"l", map[string]int{"a": 1}, []int{1}, 1}, {"x", nil, nil, 2}}
	run2 := []cmp{{"l", "plain", 7, 1}, {"l", "plain", 7, 1}, {"l", "other", 8, 1}, {"x", nil, nil, 2}}
	arr1, arr2 := [3]cmp{run1[0], run1[1], run1[3]}, [3]cmp{run2[0], run2[1], run2[3]}
	for _, fe := range []string{`Label == l`, `N == 1 and Label != x`, `Label == x or N == 1`} {
		f, _ := bexpr.CreateFilter(fe)
		if f == nil {
			continue
		}
		for _, pr := range [][2]interface{}{{run1, run2}, {arr1, arr2}, {map[string]cmp{"a": run1[0], "b": run1[1]}, map[string]cmp{"a": run2[0], "b": run2[1]}}} {
			x1, x2 := execute(f, pr[0]), execute(f, pr[1])
			c.Evals(2)
			if x1.panic != "" || x2.panic != "" || lenOf(x1.out) != lenOf(x2.out) || (x1.err == nil) != (x2.err == nil) {
				c.Violation("C08 filter-selection-differs comparable-elements", "Filter.Execute behaves differently on runs of equal elements that differ only in what their hidden / unexported interface fields hold",
					map[string]any{"expression": fe, "container": fmt.Sprintf("%T", pr[0]), "kept1": lenOf(x1.out), "kept2": lenOf(x2.out), "panic1": x1.panic, "panic2": x2.panic, "err1": fmt.Sprint(x1.err), "err2": fmt.Sprint(x2.err)})
			}
		}
	}
	c.Count("hidden_container_scenarios")
}

var c08AltTags = []string{"alt", "x-filter", "bexpr.v2", "BEXPR", "json", "a+b", "bexpr_", "ключ", "alt"}

func c08Run(c *mon.Ctx, idx int) {
	r := c.RNG(idx)
	if idx%200 == 0 {
		c08TypeConfusion(c, r)
	}
	if idx%200 == 1 {
		c08Embedded(c)
	}
	if idx%200 == 2 {
		c08Methods(c)
	}
	if idx%200 == 3 {
		c08Containers(c)
	}
	doc := univ.GenObj(r, 3, true)
	seed := r.Int63()
	mode := 2 + idx%3
	// the alternate tag key: any key reflect.StructTag accepts
	altTag := c08AltTags[(idx/3)%len(c08AltTags)]
	d1 := univ.Represent(rand.New(rand.NewSource(seed)), doc, univ.Policy{Mode: mode, Hidden: true, HiddenSeed: seed + 1, AltTag: altTag})
	d2 := univ.Represent(rand.New(rand.NewSource(seed)), doc, univ.Policy{Mode: mode, Hidden: true, HiddenSeed: seed + 2, AltTag: altTag})
	if d1.Describe() == d2.Describe() {
		c.Count("pairs_without_hidden_difference")
		return
	}
	c.Count("pairs_differing_in_hidden_content")
	opt := &refsem.Options{}
	if idx%3 == 0 {
		opt.TagName = altTag
		c.Count("alternate_tag_key:" + altTag)
	}
	if r.Intn(5) == 0 {
		opt.Unknown = univ.Str("unk")
	}
	g := newEgen(r, d1, opt)
	g.pBroken = 0.3
	var exprs []xgen.Expr
	for k := 0; k < 3; k++ {
		exprs = append(exprs, g.expr(1+r.Intn(3), 0))
	}
	// expressions aimed at the hidden fields: by Go name with the field's own
	// content (of d1) as the literal, and operators on the enclosing struct
	hc := hiddenFieldCases(d1, opt)
	r.Shuffle(len(hc), func(i, j int) { hc[i], hc[j] = hc[j], hc[i] })
	for i, h := range hc {
		if i >= 3 {
			break
		}
		sel, ok := g.selFor(h.parts)
		if !ok {
			continue
		}
		lit := "x"
		if s, ok := univ.RenderScalar(h.content); ok {
			lit = s
		} else if h.content != nil && len(h.content.Items) > 0 {
			lit, _ = univ.RenderScalar(h.content.Items[0])
		}
		ops := []xgen.Op{xgen.OpEq, xgen.OpNe, xgen.OpIn, xgen.OpEmpty, xgen.OpMatches}
		m := &xgen.Match{Sel: sel, Op: ops[r.Intn(len(ops))]}
		if m.Op.HasValue() {
			m.Lit = &xgen.Lit{S: lit, Style: xgen.StyleQuoted}
		}
		exprs = append(exprs, m)
		c.Count("aimed:" + h.kind)
		// the enclosing struct as a whole
		if len(h.parts) > 1 {
			if psel, ok := g.selFor(h.parts[:len(h.parts)-1]); ok {
				pops := []xgen.Op{xgen.OpIn, xgen.OpEmpty, xgen.OpNotEmpty, xgen.OpEq, xgen.OpMatches}
				pm := &xgen.Match{Sel: psel, Op: pops[r.Intn(len(pops))]}
				if pm.Op.HasValue() {
					pm.Lit = &xgen.Lit{S: lit, Style: xgen.StyleQuoted}
				}
				exprs = append(exprs, pm, &xgen.Quant{All: r.Intn(2) == 0, Sel: psel, Mode: xgen.BindIndexValue, Name: "hk", Name2: "hv", Body: &xgen.Match{Sel: xgen.Sel{Parts: []string{"hv"}}, Op: xgen.OpEq, Lit: &xgen.Lit{S: lit, Style: xgen.StyleQuoted}}})
				c.Count("aimed:enclosing-struct")
			}
		}
	}
	for _, e := range exprs {
		o1, txt, ok1 := evalText(e, rand.New(rand.NewSource(seed)), d1, opt)
		o2, _, ok2 := evalText(e, rand.New(rand.NewSource(seed)), d2, opt)
		c.Evals(2)
		if !ok1 || !ok2 {
			c.Count("unparsed")
			continue
		}
		if o1.Class3() != o2.Class3() {
			c.Violation(fmt.Sprintf("C08 evaluate-differs %s-vs-%s tag=%s", o1.Class3(), o2.Class3(), opt.TagName), "two data that differ only in hidden / unexported fields gave different outcomes",
				map[string]any{"expression": clip(txt, 400), "datum1": clip(d1.Describe(), 1500), "datum2": clip(d2.Describe(), 1500), "outcome1": o1.String(), "outcome2": o2.String(), "options": describeOpt(opt)})
			continue
		}
		// and the reference agrees (hidden -> error, unexported -> absent, renamed -> only by tag)
		checkAgainstReference(c, "C08", &evalCase{Expr: e, Text: txt, Datum: d1, Opt: opt}, "hidden-workload")
		c.Count("outcome:" + o1.Class3())
		c.Distinct(txt + "|" + d1.Shape())
	}
	// filters over collections found in the datum (default tag only: CreateFilter takes no options)
	paths1, paths2 := refsem.Paths(d1, &refsem.Options{}, 3), refsem.Paths(d2, &refsem.Options{}, 3)
	for i, p := range paths1 {
		coll1 := collOf(p.Val)
		if coll1 == nil || len(coll1.Items) == 0 || i >= len(paths2) {
			continue
		}
		coll2 := collOf(paths2[i].Val)
		if coll2 == nil || coll1.T.String() != coll2.T.String() || len(coll1.Items) != len(coll2.Items) {
			continue
		}
		elem := coll1.Items[r.Intn(len(coll1.Items))]
		ge := newEgen(r, elem, &refsem.Options{})
		ge.pBroken = 0.1
		e := ge.expr(r.Intn(3), 0)
		if hcs := hiddenFieldCases(elem, &refsem.Options{}); len(hcs) > 0 && r.Intn(2) == 0 {
			h := hcs[r.Intn(len(hcs))]
			if sel, ok := ge.selFor(h.parts); ok {
				lit, _ := univ.RenderScalar(h.content)
				e = &xgen.Or{L: &xgen.Match{Sel: sel, Op: xgen.OpEq, Lit: &xgen.Lit{S: lit, Style: xgen.StyleQuoted}}, R: e}
			}
		}
		txt := (&xgen.Renderer{R: r}).Render(e)
		var f *bexpr.Filter
		var ferr error
		if t := mon.Try(func() { f, ferr = bexpr.CreateFilter(txt) }); t.Panic || ferr != nil || f == nil {
			continue
		}
		in1, in2 := coll1.Value().Interface(), coll2.Value().Interface()
		x1, x2 := execute(f, in1), execute(f, in2)
		c.Evals(2)
		k1, k2 := "error", "error"
		if x1.panic != "" {
			k1 = "panic"
		} else if x1.err == nil {
			k1 = keptPositions(reflect.ValueOf(in1), reflect.ValueOf(x1.out))
		}
		if x2.panic != "" {
			k2 = "panic"
		} else if x2.err == nil {
			k2 = keptPositions(reflect.ValueOf(in2), reflect.ValueOf(x2.out))
		}
		if k1 != k2 {
			c.Violation("C08 filter-selection-differs", "Filter.Execute kept different positions / keys on two data that differ only in hidden fields",
				map[string]any{"expression": clip(txt, 400), "collection1": clip(coll1.Describe(), 1200), "collection2": clip(coll2.Describe(), 1200), "kept1": k1, "kept2": k2})
		}
		c.Count("filter_pairs")
		if k1 != "error" && k1 != "[]" && k1 != "{}" {
			c.Count("filter_pairs_with_selection")
		}
		break
	}
	if idx%1301 == 0 {
		c.Sample(map[string]any{"datum1": clip(d1.Describe(), 500), "datum2": clip(d2.Describe(), 500), "tag": opt.TagName, "expressions": len(exprs)})
	}
}

func init() {
	mon.Register(&mon.Prop{
		ID: "C08", Level: "exploration",
		Rule:        "per case one seeded logical document is materialised twice with the same choices and different contents in every field hidden under BOTH tag names (`bexpr:\"-\" alt:\"-\"`) and every unexported field (nested in structs, slices, maps, pointers); fields hidden under only one tag name get equal content. 3 datum-directed expressions + expressions aimed at the hidden fields (named by Go name with the field's own content as literal; in / is empty / == / matches / quantifiers on the enclosing struct; fields renamed by a tag addressed by their Go name) are evaluated on both data under the default tag and under WithTagName(\"alt\"); filters built from element-level expressions run over collections of both data. oracle (relational, non-interference): identical Evaluate outcomes and identical kept positions / keys; plus agreement with the reference (hidden -> error, unexported -> absent/unknown value, renamed -> reachable by tag only). non-trivial = the pair really differs (checked on the dumps); distinct by (expression, datum shape)",
		Assumptions: []string{"CreateFilter takes no options, so filters are only exercised under the default tag name"},
		NumCases:    func(tier string) int { return tierN(tier, 6000, 300000) },
		Run:         c08Run,
		Required: func(tier string) []string {
			return []string{"pairs_differing_in_hidden_content", "same_named_type_histories", "embedded_struct_scenarios", "method_bearing_type_scenarios", "hidden_container_scenarios", "aimed:hidden", "aimed:unexported", "aimed:renamed-by-go-name", "aimed:enclosing-struct", "filter_pairs", "filter_pairs_with_selection", "outcome:T", "outcome:F", "outcome:E"}
		},
	})
}
