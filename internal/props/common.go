// Package props holds one runtime monitor per property (C01..C20).
package props

import (
	"bufio"
	"bytes"
	"fmt"
	"io"
	"os"
	"sort"
	"strings"
	"syscall"
	"testing/iotest"
	"time"

	bexpr "github.com/hashicorp/go-bexpr"
	"github.com/hashicorp/go-bexpr/grammar"

	"verif/internal/mon"
	"verif/internal/xgen"
)

const safeBudget = 1 << 23

// parseObs is one observation of grammar.Parse.
type parseObs struct {
	Val      interface{}
	Err      error
	Panic    string
	Site     string
	Steps    uint64
	Budgeted bool // the step budget was exhausted
}

func isMaxExprErr(err error) bool {
	return err != nil && strings.Contains(err.Error(), maxExprMsg())
}

var maxExprCached string

// maxExprMsg self-calibrates the text of the max-expressions error from the
// tree under test (so that rewording it is not an alarm).
func maxExprMsg() string {
	if maxExprCached == "" {
		_, err := grammar.Parse("", []byte("a == 1"), grammar.MaxExpressions(1))
		if err != nil {
			msg := err.Error()
			if i := strings.LastIndex(msg, ": "); i >= 0 {
				msg = msg[i+2:]
			}
			maxExprCached = msg
		} else {
			maxExprCached = "\x00no max-expressions error observed\x00"
		}
	}
	return maxExprCached
}

// observeParse calls the real parser (through the step-counting hook, which
// runs exactly what Parse runs) under an optional budget.
func observeParse(s string, budget uint64) parseObs {
	var o parseObs
	out := mon.Try(func() {
		if budget > 0 {
			o.Val, o.Err, o.Steps = grammar.VerifParse([]byte(s), grammar.MaxExpressions(budget))
		} else {
			o.Val, o.Err, o.Steps = grammar.VerifParse([]byte(s))
		}
	})
	if out.Panic {
		o.Panic = out.PanicVal
		o.Site = mon.PanicSite(out.Stack)
	}
	if budget > 0 && isMaxExprErr(o.Err) {
		o.Budgeted = true
	}
	return o
}

// parsePublic calls the public grammar.Parse.
func parsePublic(s string, opts ...grammar.Option) (val interface{}, err error, pan string, site string) {
	out := mon.Try(func() { val, err = grammar.Parse("", []byte(s), opts...) })
	if out.Panic {
		pan, site = out.PanicVal, mon.PanicSite(out.Stack)
	}
	return
}

// lookalikes: other expression texts that anything remembering parses per
// NORMALISED text would confuse with s - blanks collapsed everywhere (also
// inside literals), tabs and line breaks as blanks, trimmed, lower-cased.
func lookalikes(s string) []string {
	var out []string
	add := func(x string) {
		if x != s && x != "" {
			for _, y := range out {
				if y == x {
					return
				}
			}
			out = append(out, x)
		}
	}
	add(strings.Join(strings.Fields(s), " "))
	add(strings.ToLower(s))
	add(strings.TrimSpace(s))
	return out
}

// createEval creates an evaluator. For a fixed eighth of the texts (by hash)
// it first creates the text's look-alikes with the same options: a history
// every check then runs under, so that process-wide state keyed by a
// normalised text shows up as a wrong result in whatever the check compares.
func createEval(s string, opts ...bexpr.Option) (ev *bexpr.Evaluator, err error, pan string, site string) {
	if len(s) < 1500 && mon.Hash64(s)%8 == 0 {
		for _, l := range lookalikes(s) {
			mon.Try(func() { bexpr.CreateEvaluator(l, opts...) })
		}
	}
	out := mon.Try(func() { ev, err = bexpr.CreateEvaluator(s, opts...) })
	if out.Panic {
		pan, site = out.PanicVal, mon.PanicSite(out.Stack)
	}
	return
}

// outcome of an Evaluate call: "T", "F", "E" (error with false), "E!" (error
// with true) or "P" (panic).
type evalObs struct {
	Res   bool
	Err   error
	Panic string
	Site  string
}

func (o evalObs) Class() string {
	switch {
	case o.Panic != "":
		return "P"
	case o.Err != nil && o.Res:
		return "E!"
	case o.Err != nil:
		return "E"
	case o.Res:
		return "T"
	}
	return "F"
}

// Class3 folds E! into E (the boolean that comes with an error is C09's
// subject, not that of the other properties).
func (o evalObs) Class3() string {
	c := o.Class()
	if c == "E!" {
		return "E"
	}
	return c
}

func (o evalObs) String() string {
	switch {
	case o.Panic != "":
		return "panic: " + o.Panic
	case o.Err != nil:
		return fmt.Sprintf("(%v, error: %v)", o.Res, o.Err)
	}
	return fmt.Sprintf("(%v, nil)", o.Res)
}

func evaluate(ev *bexpr.Evaluator, datum interface{}) (o evalObs) {
	out := mon.Try(func() { o.Res, o.Err = ev.Evaluate(datum) })
	if out.Panic {
		o.Panic, o.Site = out.PanicVal, mon.PanicSite(out.Stack)
	}
	return
}

func clip(s string, n int) string {
	if len(s) > n {
		return s[:n] + fmt.Sprintf("...(%d bytes)", len(s))
	}
	return s
}

// treeOf converts a parser result to the harness AST.
func treeOf(v interface{}) (xgen.Expr, error) {
	e, ok := v.(grammar.Expression)
	if !ok || e == nil {
		return nil, fmt.Errorf("parser returned %T, not a grammar.Expression", v)
	}
	return xgen.FromGrammar(e)
}

func tierN(tier string, quick, thorough int) int {
	if tier == "thorough" {
		return thorough
	}
	return quick
}

// fifoParse runs grammar.ParseFile on a named pipe that delivers data (a
// path whose size as reported by stat is not its content length).
func fifoParse(dir string, data []byte, opts ...grammar.Option) (val interface{}, err error, ok bool) {
	path := fmt.Sprintf("%s/fifo-%d-%d", dir, os.Getpid(), fifoSeq)
	fifoSeq++
	if syscall.Mkfifo(path, 0o600) != nil {
		return nil, nil, false
	}
	defer os.Remove(path)
	wrote := make(chan struct{})
	go func() {
		defer close(wrote)
		w, werr := os.OpenFile(path, os.O_WRONLY, 0) // blocks until the reader opens
		if werr != nil {
			return
		}
		w.Write(data)
		w.Close()
	}()
	done := make(chan struct{})
	go func() {
		defer close(done)
		mon.Try(func() { val, err = grammar.ParseFile(path, opts...) })
	}()
	select {
	case <-done:
	case <-time.After(20 * time.Second):
		// nobody opened the pipe for reading: release the writer and give up
		if r, rerr := os.OpenFile(path, os.O_RDONLY|syscall.O_NONBLOCK, 0); rerr == nil {
			r.Close()
		}
		return nil, nil, false
	}
	select {
	case <-wrote:
	default:
		// ParseFile returned without ever opening the pipe: release the writer
		if r, rerr := os.OpenFile(path, os.O_RDONLY|syscall.O_NONBLOCK, 0); rerr == nil {
			r.Close()
		}
	}
	return val, err, true
}

var fifoSeq int

// entryPoints runs the other entry points of the parser on s - ParseReader
// over readers that deliver their data in unusual but legal ways (the last
// chunk together with io.EOF, one byte at a time, half of what is asked for,
// no WriterTo / ReaderFrom shortcuts) and ParseFile on a regular file and on a
// named pipe - and reports the first one whose result differs from Parse's.
func entryPoints(s string, workDir string, withFifo bool) (which string, detail string) {
	data := []byte(s)
	bval, berr, bpan, _ := parsePublic(s)
	if bpan != "" {
		return "", ""
	}
	canon := func(v interface{}, e error) string {
		if e != nil {
			return "error"
		}
		t, terr := treeOf(v)
		if terr != nil {
			return "malformed: " + terr.Error()
		}
		return xgen.Canon(t)
	}
	want := canon(bval, berr)
	readers := map[string]func() io.Reader{
		"ParseReader(data with EOF)":   func() io.Reader { return iotest.DataErrReader(bytes.NewReader(data)) },
		"ParseReader(one byte)":        func() io.Reader { return iotest.OneByteReader(bytes.NewReader(data)) },
		"ParseReader(half reads)":      func() io.Reader { return iotest.HalfReader(strings.NewReader(s)) },
		"ParseReader(plain io.Reader)": func() io.Reader { return struct{ io.Reader }{strings.NewReader(s)} },
		"ParseReader(bufio)":           func() io.Reader { return bufio.NewReaderSize(strings.NewReader(s), 16) },
	}
	var names []string
	for k := range readers {
		names = append(names, k)
	}
	sort.Strings(names)
	for _, name := range names {
		var v interface{}
		var e error
		if t := mon.Try(func() { v, e = grammar.ParseReader("", readers[name]()) }); t.Panic {
			return name, "panic: " + t.PanicVal
		}
		if got := canon(v, e); got != want {
			return name, fmt.Sprintf("Parse: %s / %s: %s (%v)", clip(want, 200), name, clip(got, 200), e)
		}
	}
	if workDir != "" {
		path := fmt.Sprintf("%s/ep-%d.bexpr", workDir, os.Getpid())
		if os.WriteFile(path, data, 0o600) == nil {
			var v interface{}
			var e error
			t := mon.Try(func() { v, e = grammar.ParseFile(path) })
			os.Remove(path)
			if t.Panic {
				return "ParseFile(regular file)", "panic: " + t.PanicVal
			}
			if got := canon(v, e); got != want {
				return "ParseFile(regular file)", fmt.Sprintf("Parse: %s / ParseFile: %s (%v)", clip(want, 200), clip(got, 200), e)
			}
		}
		if withFifo {
			if v, e, ok := fifoParse(workDir, data); ok {
				if got := canon(v, e); got != want {
					return "ParseFile(named pipe)", fmt.Sprintf("Parse: %s / ParseFile on a named pipe: %s (%v)", clip(want, 200), clip(got, 200), e)
				}
			}
		}
	}
	return "", ""
}
