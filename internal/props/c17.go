package props

import (
	"fmt"
	"math/rand"
	"reflect"
	"strings"

	bexpr "github.com/hashicorp/go-bexpr"

	"verif/internal/mon"
	"verif/internal/refsem"
	"verif/internal/univ"
	"verif/internal/xgen"
)

// C17 - Filter.Execute returns exactly the elements for which Evaluate is true.

type c17Elem struct {
	A      int
	S      string `bexpr:"s"`
	L      []int
	hidden int
}
type c17Slice []c17Elem
type c17PtrSlice []*c17Elem
type c17Map map[string]c17Elem
type c17Key struct{ X, Y string }
type c17NamedKey string

func c17Zoo() []zooEntry {
	e := func(a int, s string, l ...int) c17Elem { return c17Elem{A: a, S: s, L: l, hidden: a * 7} }
	var nilSlice []c17Elem
	var nilMap map[string]c17Elem
	return []zooEntry{
		{"[]struct", []c17Elem{e(1, "a"), e(2, "b", 1), e(1, "c", 1, 2), e(3, "")}},
		{"named-slice", c17Slice{e(1, "a"), e(2, "b", 1), e(1, "c")}},
		{"named-ptr-slice", c17PtrSlice{{A: 1, S: "a"}, {A: 2, S: "b", L: []int{1}}, nil, {A: 1}}},
		{"[]*struct", []*c17Elem{{A: 1, S: "a"}, {A: 2}}},
		{"array", [3]c17Elem{e(1, "a"), e(2, "b"), e(1, "c", 5)}},
		{"array0", [0]c17Elem{}},
		{"[]map", []map[string]interface{}{{"A": 1, "s": "a", "L": []interface{}{}}, {"A": 2, "s": "b", "L": []interface{}{1}}, {"A": "x"}, {"s": "only"}}},
		{"[]interface{}", []interface{}{e(1, "a"), map[string]interface{}{"A": 1, "s": "z", "L": []int{}}, &c17Elem{A: 2}, nil, 5, e(1, "")}},
		{"nil-slice", nilSlice}, {"empty-slice", []c17Elem{}}, {"nil-map", nilMap}, {"empty-map", map[string]c17Elem{}},
		{"map[string]struct", map[string]c17Elem{"x": e(1, "a"), "y": e(2, "b", 1), "z": e(1, "c")}},
		{"named-map", c17Map{"x": e(1, "a"), "y": e(2, "b")}},
		{"map[named]struct", map[c17NamedKey]c17Elem{"x": e(1, "a"), "y": e(2, "b")}},
		{"map[int]struct", map[int]c17Elem{1: e(1, "a"), 2: e(2, "b"), 3: e(1, "")}},
		{"map[bool]*struct", map[bool]*c17Elem{true: {A: 1}, false: {A: 2, S: "b"}}},
		{"map[float64]struct", map[float64]c17Elem{1.5: e(1, "a"), 2: e(2, "b")}},
		{"map[interface{}]struct", map[interface{}]c17Elem{1: e(1, "a"), "1": e(1, "b"), int64(1): e(2, "c"), true: e(1, "d"), "true": e(1, "e"), 1.0: e(1, "f")}},
		{"map[struct]struct", map[c17Key]c17Elem{{"a b", ""}: e(1, "a"), {"a", "b "}: e(1, "b"), {"a", "b"}: e(2, "c")}},
		{"map[[2]string]struct", map[[2]string]c17Elem{{"a b", ""}: e(1, "a"), {"a", "b "}: e(1, "b")}},
		{"map[*int]struct", map[*int]c17Elem{new(int): e(1, "a"), new(int): e(1, "b"), nil: e(2, "c")}},
		{"map[string]interface{}", map[string]interface{}{"x": e(1, "a"), "y": nil, "z": map[string]interface{}{"A": 1, "s": "q", "L": []int{1}}}},
		{"map[string]map", map[string]map[string]int{"x": {"A": 1}, "y": {"A": 2}, "z": nil}},
		{"[]int", []int{1, 2, 1}}, {"[]string", []string{"a", "b"}}, {"[]int-empty", []int{}}, {"[]string-nil", []string(nil)},
		{"[][]string", [][]string{{"a", "b"}, {"c"}, {}, {"a b"}}}, {"[2][2]int", [2][2]int{{1, 2}, {2, 1}}}, {"map[string][]int", map[string][]int{"x": {1, 2}, "y": {2}, "z": nil}}, {"[]*[]string", []*[]string{{"a"}, nil}},
		{"whitespace-strings", []c17Elem{{A: 1, S: "a b"}, {A: 2, S: "a  b"}, {A: 3, S: "a\tb"}, {A: 4, S: "a b "}}},
		{"[2]int", [2]int{1, 2}}, {"[2]map", [2]map[string]interface{}{{"A": 1, "s": "a"}, {"A": 2}}}, {"[2]*struct", [2]*c17Elem{{A: 1, S: "a"}, {A: 3}}}, {"[1]interface{}", [1]interface{}{c17Elem{A: 1, S: "a"}}},
		{"aliased-pointers", c17Aliased()}, {"aliased-pointers-map", c17AliasedMap()},
		{"shared-backing-slices", c17SharedBacking()}, {"shared-backing-slices-map", c17SharedBackingMap()}, {"shared-backing-structs", c17SharedStructs()},
		{"print-twin-paths", c17Twins()}, {"print-twin-paths-map", c17TwinsMap()},
		{"[]struct{}", []struct{}{{}, {}}}, {"[]struct{}-empty", []struct{}{}}, {"[]struct{}-nil", []struct{}(nil)}, {"[2]struct{}", [2]struct{}{}}, {"[][0]int", [][0]int{{}, {}}}, {"map[string]struct{}", map[string]struct{}{"a": {}, "b": {}}},
		{"[]zero-size-struct-of-zero-size-fields", []struct {
			A struct{}
			B [0]string
		}{{}, {}}},
		{"empty-with-capacity", make([]c17Elem, 0, 4)}, {"empty-named-slice", c17Slice{}}, {"nil-named-map", c17Map(nil)},
	}
}

// two pointers of different types with the same address (a struct and its
// first field): an outcome memoised by bare address would confuse them.
type c17Inner struct{ A int }
type c17Outer struct {
	Inner c17Inner
	A     int
}

func c17Aliased() []interface{} {
	o := &c17Outer{Inner: c17Inner{A: 1}, A: 2}
	p := &c17Outer{Inner: c17Inner{A: 2}, A: 1}
	return []interface{}{o, &o.Inner, &p.Inner, p, &o.Inner}
}

func c17AliasedMap() map[string]interface{} {
	o := &c17Outer{Inner: c17Inner{A: 1}, A: 2}
	return map[string]interface{}{"outer": o, "inner": &o.Inner, "other": &c17Outer{A: 1}}
}

// sub-slices of ONE backing array (same start address, different lengths;
// different starts): an outcome remembered per address would confuse them.
func c17SharedBacking() [][]int {
	x := []int{1, 2, 3, 4}
	return [][]int{x[:3], x[:1], x[:2], x[:0], x[1:3], x[:4], x[:3:3]}
}

func c17SharedBackingMap() map[string][]int {
	x := []int{1, 2, 3, 4}
	return map[string][]int{"a": x[:3], "b": x[:1], "c": x[:2], "d": x[1:], "e": x[:4]}
}

// the L lists of the elements share one backing array
func c17SharedStructs() []c17Elem {
	x := []int{1, 1, 2, 3}
	return []c17Elem{{A: 1, S: "a", L: x[:1]}, {A: 1, S: "a", L: x[:0]}, {A: 1, S: "a", L: x[:3]}, {A: 1, S: "a", L: x[1:2]}, {A: 1, S: "a", L: x[2:]}}
}

// elements in which two DIFFERENT paths print the same when their parts are
// joined (a["b.c"] / a.b.c, "/a~1b/c" / "/a/b/c"), with every combination of
// values: clauses identified by a printed selector would be merged.
func c17TwinElem(v1, v2, v3 int) map[string]interface{} {
	return map[string]interface{}{"a": map[string]interface{}{"b.c": v1, "b": map[string]interface{}{"c": v2}}, "a/b": map[string]interface{}{"c": v3}, "A": v1}
}

func c17Twins() []interface{} {
	var l []interface{}
	for m := 0; m < 8; m++ {
		l = append(l, c17TwinElem(1+m&1, 1+(m>>1)&1, 1+(m>>2)&1))
	}
	return l
}

func c17TwinsMap() map[string]interface{} {
	out := map[string]interface{}{}
	for m := 0; m < 8; m++ {
		out[fmt.Sprintf("e%d", m)] = c17TwinElem(1+m&1, 1+(m>>1)&1, 1+(m>>2)&1)
	}
	return out
}

var c17ZooExprs = []string{`A == 1`, `A != 1`, `A == 2 or s == "a"`, `not (A == 1)`, `s == "a"`, `s != ""`, `L is empty`, `L is not empty`, `1 in L`, `A == 1 and L is empty`, `A == x`, `s matches "^[ab]$"`,
	`any L as v { v == 1 }`, `all L as v { v == 1 }`, `hidden == 7`, `zz == 1`, `A in L`, `s is empty or A == 3`,
	`s == "a b"`, `s == "a  b"`, "s == `a\tb`", `s == "a b "`, `s  ==  "a b"`, `"/0" == a`, `"/1" == 2`, `"/0" == 1 or "/0" == 2`, `"/0" is empty`,
	`"/2" == 3`, `"/1" == 2 and "/0" == 1`, `L.0 == 1`, `L.1 == 1 or L.0 == 2`, `2 in L`,
	`a["b.c"] == 1 and a.b.c == 1`, `a.b.c == 1 and a["b.c"] == 1`, `a["b.c"] == 1 or a.b.c == 1`, `a["b.c"] != 1 and a.b.c != 1`, `a["b.c"] == 1 and A == 1 and a.b.c == 1`,
	`"/a~1b/c" == 1 and "/a/b/c" == 1`, `"/a/b/c" == 1 or "/a~1b/c" == 1`, `a/b.c == 1 and "/a/b/c" == 1`, `a/b.c == 1 or a.b.c == 1`, `not (a["b.c"] == 1) and not (a.b.c == 1)`,
	`A == 1 and A == 1`, `A == 1 or A == 1`, `A == 1 and A != 1`, `A == 1 and (A == 1 or s == "a")`, `s matches "^a$" and s matches "^A$"`, `s matches "a" or s matches "(?i)A"`,
	`s matches "(?i)^b$" or s matches "^A$"`, `s matches "(?i)zz" or s matches "^A"`, `s matches "\\Qa.b" or s matches "x\\E|a"`, `s matches "^(?i)C$" or s matches "^B$" or s matches "^a b$"`, `s not matches "(?i)^A$" and s not matches "^b$"`}

var c17NonContainers = []zooEntry{{"nil", nil}, {"int", 5}, {"string", "abc"}, {"bool", true}, {"struct", c17Elem{A: 1}}, {"ptr-to-slice", &[]c17Elem{{A: 1}}}, {"ptr-to-map", &map[string]c17Elem{"x": {A: 1}}},
	{"ptr-to-struct", &c17Elem{A: 1}}, {"ptr-to-array", &[2]c17Elem{{A: 1}, {A: 2}}}, {"ptr-to-empty-array", &[0]c17Elem{}}, {"ptr-to-ptr-to-slice", func() interface{} { s := []c17Elem{{A: 1}}; p := &s; return &p }()},
	{"ptr-to-named-slice", &c17Slice{{A: 1}}}, {"ptr-to-[]int", &[]int{1}}, {"unsafe-pointer-free uintptr", uintptr(1)}, {"complex", complex(1, 1)}, {"interface-holding-ptr-to-array", interface{}(&[1]int{1})}, {"func", func() {}}, {"chan", make(chan int)}, {"float", 1.5}, {"nil-ptr-slice", (*[]int)(nil)}, {"typed-nil-iface", interface{}((*c17Elem)(nil))}}

// c17Check is the oracle for one (expression, container) pair.
func c17Check(c *mon.Ctx, text string, in interface{}, cname string, describe func() string) {
	c.Evals(1)
	var f *bexpr.Filter
	var ferr error
	if t := mon.Try(func() { f, ferr = bexpr.CreateFilter(text) }); t.Panic || ferr != nil || f == nil {
		c.Count("unparsed")
		return
	}
	ev, err, _, _ := createEval(text)
	if err != nil || ev == nil {
		c.Count("unparsed")
		return
	}
	d := func() map[string]any {
		return map[string]any{"expression": clip(text, 300), "container": cname, "container_type": fmt.Sprintf("%T", in), "value": clip(describe(), 1200)}
	}
	rv := reflect.ValueOf(in)
	before := mon.Snapshot(in)
	x := execute(f, in)
	if x.panic != "" {
		dd := d()
		dd["panic"] = x.panic
		c.Violation("C17 panic container="+cname+" site="+x.site, "Filter.Execute panicked", dd)
		return
	}
	if after := mon.Snapshot(in); after != before {
		dd := d()
		dd["before"], dd["after"] = clip(before, 600), clip(after, 600)
		c.Violation("C17 input-modified container="+cname, "Filter.Execute modified its input", dd)
		return
	}
	// model: per-element Evaluate with the same expression
	type el struct{ k, v reflect.Value }
	var elems []el
	switch rv.Kind() {
	case reflect.Slice, reflect.Array:
		for i := 0; i < rv.Len(); i++ {
			elems = append(elems, el{reflect.ValueOf(i), rv.Index(i)})
		}
	case reflect.Map:
		it := rv.MapRange()
		for it.Next() {
			elems = append(elems, el{it.Key(), it.Value()})
		}
	}
	anyErr := false
	firstErr := ""
	errTexts := map[string]bool{}
	var keep []el
	for _, e := range elems {
		o := evaluate(ev, e.v.Interface())
		switch o.Class3() {
		case "P":
			c.Count("element_panicked")
			return // C09's subject
		case "E":
			if !anyErr && o.Err != nil {
				firstErr = o.Err.Error()
			}
			if o.Err != nil {
				errTexts[o.Err.Error()] = true
			}
			anyErr = true
		case "T":
			keep = append(keep, e)
		}
	}
	if anyErr {
		c.Count("outcome:error")
		if x.err == nil || x.out != nil {
			dd := d()
			dd["result"] = fmt.Sprintf("%#v", x.out)
			dd["error"] = fmt.Sprint(x.err)
			c.Violation("C17 element-error-not-reported container="+cname, "an element's evaluation error was not returned (with a nil result)", dd)
			return
		}
		// WHICH error: for a slice / array the error of the lowest failing
		// index; for a map the error of one of its failing entries
		switch rv.Kind() {
		case reflect.Slice, reflect.Array:
			// (contained in, so that an implementation may add context to it)
			if firstErr != "" && !strings.Contains(x.err.Error(), firstErr) {
				dd := d()
				dd["error_returned"], dd["error_of_first_failing_element"] = x.err.Error(), firstErr
				c.Violation("C17 not-the-first-error container="+cname, "Execute returned an error other than that of the first element whose evaluation fails", dd)
				return
			}
			c.Count("first_error_identity_checked")
			if len(errTexts) > 1 {
				c.Count("first_error_identity_checked_among_different_errors")
			}
		case reflect.Map:
			found := false
			for t := range errTexts {
				if strings.Contains(x.err.Error(), t) {
					found = true
				}
			}
			if len(errTexts) > 0 && !found {
				dd := d()
				dd["error_returned"] = x.err.Error()
				c.Violation("C17 error-of-no-element container="+cname, "Execute returned an error that no entry's evaluation produces", dd)
				return
			}
		}
		return
	}
	if x.err != nil {
		dd := d()
		dd["error"] = x.err.Error()
		c.Violation("C17 spurious-error container="+cname, "Execute returned an error although every element evaluates without error", dd)
		return
	}
	out := reflect.ValueOf(x.out)
	var wantType reflect.Type
	switch rv.Kind() {
	case reflect.Slice:
		wantType = rv.Type()
	case reflect.Array:
		wantType = reflect.SliceOf(rv.Type().Elem())
	case reflect.Map:
		wantType = rv.Type()
	}
	if !out.IsValid() || out.Type() != wantType {
		dd := d()
		dd["result_type"], dd["want_type"] = fmt.Sprintf("%T", x.out), wantType.String()
		c.Violation("C17 result-type container="+cname, "the result does not have the prescribed type", dd)
		return
	}
	ok := out.Len() == len(keep)
	if ok {
		switch rv.Kind() {
		case reflect.Map:
			for _, e := range keep {
				got := out.MapIndex(e.k)
				if !got.IsValid() || !reflect.DeepEqual(got.Interface(), e.v.Interface()) {
					ok = false
				}
			}
		default:
			for i, e := range keep {
				if !reflect.DeepEqual(out.Index(i).Interface(), e.v.Interface()) {
					ok = false
				}
			}
		}
	}
	if !ok {
		dd := d()
		dd["result"] = clip(fmt.Sprintf("%#v", x.out), 800)
		var ks []string
		for _, e := range keep {
			ks = append(ks, fmt.Sprintf("%#v", e.k.Interface()))
		}
		dd["expected_positions_or_keys"] = ks
		c.Violation("C17 selection-differs container="+cname, "Execute did not return exactly the elements for which Evaluate is true (in order)", dd)
		return
	}
	// a NEW container: it must not be the input itself, also when nothing
	// (or everything) was kept and also for empty inputs
	switch rv.Kind() {
	case reflect.Map:
		if !rv.IsNil() && out.Pointer() == rv.Pointer() {
			c.Violation("C17 result-is-the-input container="+cname, "Execute returned its input map instead of a new map", d())
			return
		}
		c.Count("aliasing_checked")
	case reflect.Slice:
		if rv.Cap() > 0 && out.Cap() > 0 && out.Pointer() == rv.Pointer() {
			c.Violation("C17 result-is-the-input container="+cname, "Execute returned a slice that shares its backing array with the input", d())
			return
		}
		c.Count("aliasing_checked")
	}
	c.Count("outcome:selected")
	c.Count(fmt.Sprintf("kept:%d-of-%d", min(len(keep), 3), min(len(elems), 3)))
	c.Count("container:" + rv.Kind().String())
	if rv.Kind() == reflect.Slice && rv.Type().Name() != "" {
		c.Count("named_slice_type_checked")
	}
	// the result is a new container: overwriting its slots leaves the input alone
	if out.Len() > 0 {
		switch out.Kind() {
		case reflect.Slice:
			for i := 0; i < out.Len(); i++ {
				out.Index(i).Set(reflect.Zero(out.Type().Elem()))
			}
		case reflect.Map:
			for _, k := range out.MapKeys() {
				out.SetMapIndex(k, reflect.Value{})
			}
		}
		if after := mon.Snapshot(in); after != before {
			c.Violation("C17 result-shares-storage container="+cname, "overwriting the result changed the input: the result is not a new container", d())
			return
		}
		c.Count("storage_independence_checked")
	}
	// the caller owns the result: writing INTO it (an entry that was not
	// selected, an appended element) must not show in a later result
	if out.IsValid() {
		switch out.Kind() {
		case reflect.Map:
			for _, e := range elems {
				if !out.MapIndex(e.k).IsValid() {
					out.SetMapIndex(e.k, e.v)
					break
				}
			}
		case reflect.Slice:
			if len(elems) > 0 {
				out = reflect.Append(out, elems[0].v)
				if out.Len() > 0 {
					out.Index(0).Set(elems[len(elems)-1].v)
				}
			}
		}
	}
	// idempotence and E / not(E) partition
	x1 := execute(f, in)
	if x1.err == nil && x1.panic == "" {
		o1 := reflect.ValueOf(x1.out)
		same := o1.IsValid() && o1.Len() == len(keep)
		if same {
			for i, e := range keep {
				var got reflect.Value
				if rv.Kind() == reflect.Map {
					got = o1.MapIndex(e.k)
				} else {
					got = o1.Index(i)
				}
				if !got.IsValid() || !reflect.DeepEqual(got.Interface(), e.v.Interface()) {
					same = false
				}
			}
		}
		if !same {
			dd := d()
			dd["second_result"] = clip(fmt.Sprintf("%#v", x1.out), 600)
			c.Violation("C17 second-result-differs container="+cname, "a second Execute on the same input, after the caller wrote into the first result, did not return exactly the selected elements", dd)
			return
		}
		c.Count("second_call_after_result_mutation_checked")
		x2 := execute(f, x1.out)
		if x2.panic != "" || x2.err != nil || !reflect.DeepEqual(x1.out, x2.out) {
			c.Violation("C17 not-idempotent container="+cname, "filtering the result again changed it", d())
		}
		c.Count("idempotence_checked")
	}
	var nf *bexpr.Filter
	if t := mon.Try(func() { nf, _ = bexpr.CreateFilter("not (" + text + ")") }); !t.Panic && nf != nil {
		xn := execute(nf, in)
		if xn.err == nil && xn.panic == "" && xn.out != nil {
			if got := reflect.ValueOf(xn.out).Len() + len(keep); got != len(elems) {
				dd := d()
				dd["kept_by_E"], dd["kept_by_not_E"], dd["elements"] = len(keep), reflect.ValueOf(xn.out).Len(), len(elems)
				c.Violation("C17 partition container="+cname, "E and not(E) do not partition the container", dd)
			}
			c.Count("partition_checked")
		}
	}
	c.Distinct(cname + "|" + text + "|" + clip(before, 200))
}

var c17ZooCache []zooEntry

// long lists and large maps (around the sizes at which an implementation
// might switch strategy) with a few failing elements whose errors differ: the
// selection must be exact and in order, and the error must be that of the
// lowest failing index however the work is scheduled.
var c17BigSizes = []int{1023, 1024, 2047, 2048, 2049, 4096, 20000, 70000}

func c17Big(c *mon.Ctx, n int) {
	mk := func(failAt map[int]interface{}) []map[string]interface{} {
		l := make([]map[string]interface{}, n)
		for i := range l {
			l[i] = map[string]interface{}{"A": i % 3, "s": "v"}
			if v, ok := failAt[i]; ok {
				if v == nil {
					delete(l[i], "A")
				} else {
					l[i]["A"] = v
				}
			}
		}
		return l
	}
	desc := func(what string) func() string {
		return func() string { return fmt.Sprintf("%d elements, %s", n, what) }
	}
	// no failing element
	c17Check(c, `A == 1`, mk(nil), fmt.Sprintf("long-list-%d", n), desc("no failing element"))
	c17Check(c, `A != 1 and s == v`, mk(nil), fmt.Sprintf("long-list-%d", n), desc("no failing element"))
	// an early failing element (missing key) and many later ones of another kind (a list where a number is expected)
	for rep := 0; rep < 4; rep++ {
		fail := map[int]interface{}{n / 20: nil}
		for i := n / 2; i < n; i += 97 {
			fail[i] = []interface{}{1}
		}
		fail[n-1] = []interface{}{1}
		c17Check(c, `A == 1`, mk(fail), fmt.Sprintf("long-list-%d", n), desc("failing: missing key at n/20, a list as A from n/2 on"))
		// the other way round
		fail2 := map[int]interface{}{n/16 - 1: []interface{}{1}, n - 2: nil, n / 2: nil, n/4 + 1: nil}
		c17Check(c, `A == 1 or A == 2`, mk(fail2), fmt.Sprintf("long-list-%d", n), desc("failing: a list as A at n/16-1, missing keys later"))
		// ... and straight after a call that failed half-way: a call that does
		// not fail (scratch state left behind by the failed call must not leak)
		c17Check(c, `A == 2`, mk(nil), fmt.Sprintf("long-list-%d", n), desc("no failing element, right after a failed call"))
		if rep == 1 {
			c17Check(c, `A == 0`, mk(nil)[:n/2+1], fmt.Sprintf("long-list-%d", n), desc("shorter list, right after a failed call"))
		}
	}
	// as a map
	m := map[int]map[string]interface{}{}
	for i, e := range mk(nil) {
		m[i] = e
	}
	c17Check(c, `A == 1`, m, fmt.Sprintf("large-map-%d", n), desc("map, no failing entry"))
	delete(m[n/3], "A")
	c17Check(c, `A == 1`, m, fmt.Sprintf("large-map-%d", n), desc("map, one failing entry"))
	c.Count("long_list_scenarios")
}

func c17Run(c *mon.Ctx, idx int) {
	if c17ZooCache == nil {
		c17ZooCache = c17Zoo()
	}
	nz := len(c17ZooCache)
	switch {
	case idx < nz:
		z := c17ZooCache[idx]
		for _, e := range c17ZooExprs {
			zz := c17Zoo()[idx] // a fresh copy per expression
			c17Check(c, e, zz.Val, z.Name, func() string { return fmt.Sprintf("%#v", zz.Val) })
		}
		c.Count("zoo_containers")
		c.Sample(map[string]any{"container": z.Name, "go_type": fmt.Sprintf("%T", z.Val), "expressions": c17ZooExprs})
		return
	case idx < nz+len(c17NonContainers):
		z := c17NonContainers[idx-nz]
		f, _ := bexpr.CreateFilter("A == 1")
		x := execute(f, z.Val)
		c.Evals(1)
		if x.panic != "" || x.err == nil || x.out != nil {
			c.Violation("C17 panic input="+z.Name+" non-container", "a non-container input is not reported as an error with a nil result", map[string]any{"input": z.Name, "panic": x.panic, "error": fmt.Sprint(x.err), "result": fmt.Sprintf("%#v", x.out)})
		}
		c.Count("non_containers")
		// one Filter used on a sequence of containers of different types
		// must behave like a fresh filter on each
		for _, ftext := range []string{`A == 1`, `A != 5`, `s == "a"`} {
			used, _ := bexpr.CreateFilter(ftext)
			zoo := c17Zoo()
			order := c.RNG(idx).Perm(len(zoo))
			for _, zi := range order {
				in := zoo[zi]
				fresh, _ := bexpr.CreateFilter(ftext)
				xu, xf := execute(used, in.Val), execute(fresh, in.Val)
				c.Evals(2)
				same := xu.panic == xf.panic && (xu.err == nil) == (xf.err == nil)
				if same && xu.err == nil && xu.panic == "" {
					same = reflect.TypeOf(xu.out) == reflect.TypeOf(xf.out) && reflect.DeepEqual(xu.out, xf.out)
				}
				if !same {
					c.Violation("C17 filter-history-dependent container="+in.Name, "a Filter used on other containers before behaves differently from a fresh one", map[string]any{"expression": ftext, "container": in.Name,
						"used": fmt.Sprintf("%T %#v err=%v panic=%s", xu.out, xu.out, xu.err, xu.panic), "fresh": fmt.Sprintf("%T %#v err=%v panic=%s", xf.out, xf.out, xf.err, xf.panic)})
					break
				}
				c.Count("filter_history_steps")
			}
		}
		// nil filter returns its input unchanged
		var nf *bexpr.Filter
		nf, err := bexpr.CreateFilter("")
		if nf != nil || err != nil {
			c.Violation("C17 empty-expression-not-nil-filter", "CreateFilter(\"\") is not the nil filter", nil)
			return
		}
		for _, in := range append(c17Zoo(), c17NonContainers...) {
			xo := execute(nf, in.Val)
			c.Evals(1)
			same := xo.panic == "" && xo.err == nil
			if same && in.Val != nil {
				a, b := reflect.ValueOf(in.Val), reflect.ValueOf(xo.out)
				same = b.IsValid() && a.Type() == b.Type()
				if same {
					switch a.Kind() {
					case reflect.Slice, reflect.Map, reflect.Ptr, reflect.Chan, reflect.Func:
						same = a.Pointer() == b.Pointer() && (a.Kind() != reflect.Slice || a.Len() == b.Len())
					default:
						same = reflect.DeepEqual(in.Val, xo.out)
					}
				}
			} else if same {
				same = xo.out == nil
			}
			if !same {
				c.Violation("C17 nil-filter-not-identity input="+in.Name, "the nil filter did not return its input unchanged", map[string]any{"input": in.Name, "panic": xo.panic, "error": fmt.Sprint(xo.err)})
			}
			c.Count("nil_filter_identity_checked")
		}
		return
	}
	if k := idx - nz - len(c17NonContainers); k < len(c17BigSizes) {
		c17Big(c, c17BigSizes[k])
		return
	}
	// random: collections found in seeded documents
	r := c.RNG(idx)
	doc := univ.GenObj(r, 3, true)
	node := univ.Represent(rand.New(rand.NewSource(r.Int63())), doc, univ.Policy{Mode: 2 + idx%3, Hidden: true, HiddenSeed: 5})
	var colls []*univ.Node
	for _, p := range refsem.Paths(node, &refsem.Options{}, 3) {
		if cl := collOf(p.Val); cl != nil {
			colls = append(colls, cl)
		}
	}
	if cl := collOf(node); cl != nil {
		colls = append(colls, cl)
	}
	if len(colls) == 0 {
		c.Count("no_collection")
		return
	}
	for k := 0; k < 3; k++ {
		coll := colls[r.Intn(len(colls))]
		var e xgen.Expr
		if len(coll.Items) > 0 {
			ge := newEgen(r, coll.Items[r.Intn(len(coll.Items))], &refsem.Options{})
			ge.pBroken = 0.1
			e = ge.expr(r.Intn(3), 0)
		} else {
			e = xgen.RandTree(r, 1)
		}
		txt := (&xgen.Renderer{R: r}).Render(e)
		c17Check(c, txt, coll.Value().Interface(), "random:"+coll.T.K.String(), coll.Describe)
		c.Count("random_containers")
	}
}

func init() {
	mon.Register(&mon.Prop{
		ID: "C17", Level: "exploration",
		Rule:        "containers: a zoo of 43 Go containers (incl. containers of containers and empty primitive slices) (slices, NAMED slice types, slices of pointers with nil, arrays incl. [0]T, []map, []interface{} with nil / mixed elements, nil and empty slices and maps, maps keyed by string, named string, int, bool, float64, interface{} (keys with equal printed forms such as 1, \"1\", int64(1), true, \"true\"), struct, array and pointer keys) x 27 expressions (some differing only in the whitespace inside a literal), plus collections found in seeded typed documents with element-directed random expressions (some elements erroring). oracle (model-based): expected = elements / entries for which a separately created evaluator's Evaluate is true, in order; result reflect.Type = the slice type (named kept) / []Elem for arrays / the map type; error (with nil result) iff some element errors; deep snapshot of the input (incl. unexported fields, spare capacity) unchanged; overwriting every slot of the result leaves the input unchanged; idempotence; E / not(E) partition; the nil filter returns the very same value (pointer identity for slices/maps); nil, scalars, structs and pointers to containers are errors, not panics. non-trivial = a selection was compared; distinct by (container, expression, input dump)",
		Assumptions: []string{"Evaluate on an element is the specification of the filter (C01 decides Evaluate itself)"},
		NumCases: func(tier string) int {
			return len(c17Zoo()) + len(c17NonContainers) + len(c17BigSizes) + tierN(tier, 6000, 300000)
		},
		Run: c17Run,
		Required: func(tier string) []string {
			return []string{"zoo_containers", "non_containers", "nil_filter_identity_checked", "random_containers", "outcome:error", "outcome:selected", "container:slice", "container:array", "container:map", "named_slice_type_checked",
				"storage_independence_checked", "aliasing_checked", "filter_history_steps", "idempotence_checked", "partition_checked", "second_call_after_result_mutation_checked", "long_list_scenarios", "first_error_identity_checked", "first_error_identity_checked_among_different_errors", "kept:0-of-3", "kept:1-of-3", "kept:2-of-3", "kept:3-of-3"}
		},
	})
}
