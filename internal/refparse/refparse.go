// Package refparse is an independent, hand-written recogniser and tree
// builder for the bexpr language, written from grammar.peg read as an
// ordered-choice PEG (including its explicit error productions). It shares no
// code with the generated parser or its table. It also contains the
// reference renderer for ExpressionDump (C19).
package refparse

import (
	"fmt"
	"strconv"
	"strings"
	"unicode"
	"unicode/utf8"

	"verif/internal/xgen"
)

// Result of parsing an input with the reference.
type Result struct {
	Accept bool
	Tree   xgen.Expr
	// Matched: the PEG matched the whole input (Accept additionally needs no
	// recorded error and valid UTF-8).
	Matched bool
	// Errors recorded by error productions / actions on any explored path.
	Errors []string
	// RulesEntered / AltsTaken feed the reach conditions of C15.
	Alts map[string]bool
}

type memoKey struct {
	rule int
	pos  int
}

type memoVal struct {
	v   interface{}
	ok  bool
	end int
}

type parser struct {
	s    []byte
	pos  int
	errs map[string]bool
	memo map[memoKey]memoVal
	alts map[string]bool
	// PreFixLiteral reproduces the historical reading of a quoted value
	// shaped like a JSON Pointer (joined parts); never set by the checks.
}

const (
	rOr = iota
	rAnd
	rNot
	rParen
	rMatch
	rSelector
	rValue
	rString
	rCollection
)

// Parse runs the reference recogniser.
func Parse(input []byte) *Result {
	p := &parser{s: input, errs: map[string]bool{}, memo: map[memoKey]memoVal{}, alts: map[string]bool{}}
	res := &Result{Alts: p.alts}
	if !utf8.Valid(input) {
		// A successful parse reads every byte and the engine records an error
		// for every invalid one, so such input is never accepted.
		res.Errors = []string{"invalid encoding"}
		return res
	}
	e, ok := p.input()
	res.Matched = ok
	for k := range p.errs {
		res.Errors = append(res.Errors, k)
	}
	if ok && len(p.errs) == 0 {
		res.Accept = true
		res.Tree = e.(xgen.Expr)
	}
	return res
}

func (p *parser) alt(name string) { p.alts[name] = true }

func (p *parser) eof() bool { return p.pos >= len(p.s) }

func (p *parser) lit(l string) bool {
	if strings.HasPrefix(string(p.s[p.pos:min(len(p.s), p.pos+len(l))]), l) {
		p.pos += len(l)
		return true
	}
	return false
}

func min(a, b int) int {
	if a < b {
		return a
	}
	return b
}

// ws: _ <- [ \t\r\n]+
func (p *parser) ws() bool {
	st := p.pos
	for p.pos < len(p.s) {
		c := p.s[p.pos]
		if c == ' ' || c == '\t' || c == '\r' || c == '\n' {
			p.pos++
		} else {
			break
		}
	}
	return p.pos > st
}

func (p *parser) optws() { p.ws() }

func (p *parser) memoized(rule int, f func() (interface{}, bool)) (interface{}, bool) {
	k := memoKey{rule, p.pos}
	if m, ok := p.memo[k]; ok {
		if m.ok {
			p.pos = m.end
		}
		return m.v, m.ok
	}
	st := p.pos
	v, ok := f()
	if !ok {
		p.pos = st
	}
	p.memo[k] = memoVal{v, ok, p.pos}
	return v, ok
}

func (p *parser) input() (interface{}, bool) {
	st := p.pos
	p.optws()
	if p.lit("(") {
		p.optws()
		if e, ok := p.or(); ok {
			p.optws()
			if p.lit(")") {
				p.optws()
				if p.eof() {
					p.alt("Input/1")
					return e, true
				}
			}
		}
	}
	p.pos = st
	p.optws()
	if e, ok := p.or(); ok {
		p.optws()
		if p.eof() {
			p.alt("Input/2")
			return e, true
		}
	}
	p.pos = st
	return nil, false
}

func (p *parser) or() (interface{}, bool) {
	return p.memoized(rOr, func() (interface{}, bool) {
		st := p.pos
		if l, ok := p.and(); ok {
			if p.ws() && p.lit("or") && p.ws() {
				if r, ok := p.or(); ok {
					p.alt("Or/1")
					return &xgen.Or{L: l.(xgen.Expr), R: r.(xgen.Expr)}, true
				}
			}
		}
		p.pos = st
		if e, ok := p.and(); ok {
			p.alt("Or/2")
			return e, true
		}
		p.pos = st
		if e, ok := p.collection(); ok {
			p.alt("Or/3")
			return e, true
		}
		p.pos = st
		return nil, false
	})
}

func (p *parser) and() (interface{}, bool) {
	return p.memoized(rAnd, func() (interface{}, bool) {
		st := p.pos
		if l, ok := p.not(); ok {
			if p.ws() && p.lit("and") && p.ws() {
				if r, ok := p.and(); ok {
					p.alt("And/1")
					return &xgen.And{L: l.(xgen.Expr), R: r.(xgen.Expr)}, true
				}
			}
		}
		p.pos = st
		if e, ok := p.not(); ok {
			p.alt("And/2")
			return e, true
		}
		p.pos = st
		return nil, false
	})
}

func (p *parser) not() (interface{}, bool) {
	return p.memoized(rNot, func() (interface{}, bool) {
		st := p.pos
		if p.lit("not") && p.ws() {
			if e, ok := p.not(); ok {
				if in, isNot := e.(*xgen.Not); isNot {
					p.alt("Not/1-fold")
					return in.X, true
				}
				p.alt("Not/1")
				return &xgen.Not{X: e.(xgen.Expr)}, true
			}
		}
		p.pos = st
		if e, ok := p.paren(); ok {
			p.alt("Not/2")
			return e, true
		}
		p.pos = st
		return nil, false
	})
}

func (p *parser) paren() (interface{}, bool) {
	return p.memoized(rParen, func() (interface{}, bool) {
		st := p.pos
		if p.lit("(") {
			p.optws()
			if e, ok := p.or(); ok {
				p.optws()
				if p.lit(")") {
					p.alt("Paren/1")
					return e, true
				}
			}
		}
		p.pos = st
		if e, ok := p.match(); ok {
			p.alt("Paren/2")
			return e, true
		}
		p.pos = st
		if p.lit("(") {
			p.optws()
			if _, ok := p.or(); ok {
				p.optws()
				if !p.peekLit(")") {
					p.errs["Unmatched parentheses"] = true
					p.alt("Paren/3-error")
				}
			}
		}
		p.pos = st
		return nil, false
	})
}

func (p *parser) peekLit(l string) bool {
	st := p.pos
	ok := p.lit(l)
	p.pos = st
	return ok
}

// operator helpers: each returns ok and advances, or restores.
func (p *parser) seq(f func() bool) bool {
	st := p.pos
	if f() {
		return true
	}
	p.pos = st
	return false
}

func (p *parser) opEq() bool {
	return p.seq(func() bool { p.optws(); ok := p.lit("=="); p.optws(); return ok })
}
func (p *parser) opNe() bool {
	return p.seq(func() bool { p.optws(); ok := p.lit("!="); p.optws(); return ok })
}
func (p *parser) opIsEmpty() bool {
	return p.seq(func() bool { return p.ws() && p.lit("is") && p.ws() && p.lit("empty") })
}
func (p *parser) opIsNotEmpty() bool {
	return p.seq(func() bool { return p.ws() && p.lit("is") && p.ws() && p.lit("not") && p.ws() && p.lit("empty") })
}
func (p *parser) kw(w string) bool {
	return p.seq(func() bool { return p.ws() && p.lit(w) && p.ws() })
}
func (p *parser) notKw(w string) bool {
	return p.seq(func() bool { return p.ws() && p.lit("not") && p.ws() && p.lit(w) && p.ws() })
}

func (p *parser) match() (interface{}, bool) {
	return p.memoized(rMatch, func() (interface{}, bool) {
		st := p.pos
		// MatchSelectorOpValue
		if s, ok := p.selector(); ok {
			op := -1
			contains := false
			switch {
			case p.opEq():
				op = int(xgen.OpEq)
			case p.opNe():
				op = int(xgen.OpNe)
			case p.kw("contains"):
				op, contains = int(xgen.OpIn), true
			case p.notKw("contains"):
				op, contains = int(xgen.OpNotIn), true
			case p.kw("matches"):
				op = int(xgen.OpMatches)
			case p.notKw("matches"):
				op = int(xgen.OpNotMatches)
			}
			if op >= 0 {
				if v, ok := p.value(); ok {
					p.alt("Match/SelOpVal/" + xgen.OpNames[op])
					return &xgen.Match{Sel: s.(xgen.Sel), Op: xgen.Op(op), Lit: &xgen.Lit{S: v.(string)}, Contains: contains}, true
				}
			}
		}
		p.pos = st
		// MatchSelectorOp
		if s, ok := p.selector(); ok {
			switch {
			case p.opIsEmpty():
				p.alt("Match/SelOp/is empty")
				return &xgen.Match{Sel: s.(xgen.Sel), Op: xgen.OpEmpty}, true
			case p.opIsNotEmpty():
				p.alt("Match/SelOp/is not empty")
				return &xgen.Match{Sel: s.(xgen.Sel), Op: xgen.OpNotEmpty}, true
			}
		}
		p.pos = st
		// MatchValueOpSelector alt 1
		if v, ok := p.value(); ok {
			op := -1
			switch {
			case p.kw("in"):
				op = int(xgen.OpIn)
			case p.notKw("in"):
				op = int(xgen.OpNotIn)
			}
			if op >= 0 {
				if s, ok := p.selector(); ok {
					p.alt("Match/ValOpSel/" + xgen.OpNames[op])
					return &xgen.Match{Sel: s.(xgen.Sel), Op: xgen.Op(op), Lit: &xgen.Lit{S: v.(string)}}, true
				}
			}
		}
		p.pos = st
		// alt 2: Value (in / not in) !Selector &{ error }
		if _, ok := p.value(); ok {
			if p.kw("in") || p.notKw("in") {
				here := p.pos
				_, isSel := p.selector()
				p.pos = here
				if !isSel {
					p.errs["Invalid selector"] = true
					p.alt("Match/ValOpSel-error")
				}
			}
		}
		p.pos = st
		return nil, false
	})
}

func isAlpha(c byte) bool { return (c >= 'a' && c <= 'z') || (c >= 'A' && c <= 'Z') }
func isDigit(c byte) bool { return c >= '0' && c <= '9' }

func (p *parser) identifier() (string, bool) {
	if p.pos >= len(p.s) || !isAlpha(p.s[p.pos]) {
		return "", false
	}
	st := p.pos
	p.pos++
	for p.pos < len(p.s) {
		c := p.s[p.pos]
		if isAlpha(c) || isDigit(c) || c == '_' || c == '/' {
			p.pos++
		} else {
			break
		}
	}
	return string(p.s[st:p.pos]), true
}

func isPtrRune(r rune) bool {
	switch r {
	case '-', '_', '.', '~', ':', '|':
		return true
	}
	return unicode.Is(unicode.L, r) || unicode.Is(unicode.N, r)
}

func (p *parser) selector() (interface{}, bool) {
	return p.memoized(rSelector, func() (interface{}, bool) {
		st := p.pos
		if id, ok := p.identifier(); ok {
			sel := xgen.Sel{Parts: []string{id}, Spell: []int{xgen.SpDot}}
			for {
				part, sp, ok := p.selectorOrIndex()
				if !ok {
					break
				}
				sel.Parts = append(sel.Parts, part)
				sel.Spell = append(sel.Spell, sp)
			}
			p.alt("Selector/1")
			return sel, true
		}
		p.pos = st
		if p.lit(`"`) {
			var parts []string
			for {
				here := p.pos
				if !p.lit("/") {
					break
				}
				segStart := p.pos
				for p.pos < len(p.s) {
					r, n := utf8.DecodeRune(p.s[p.pos:])
					if !isPtrRune(r) {
						break
					}
					p.pos += n
				}
				if p.pos == segStart {
					p.pos = here
					break
				}
				parts = append(parts, string(p.s[segStart:p.pos]))
			}
			if p.lit(`"`) {
				// validate-and-unescape step of the action (RFC 6901 escapes)
				if len(parts) == 0 {
					parts = []string{""}
				}
				for i, s := range parts {
					parts[i] = strings.ReplaceAll(strings.ReplaceAll(s, "~1", "/"), "~0", "~")
				}
				p.alt("Selector/2")
				return xgen.Sel{Parts: parts, JSONPointer: true}, true
			}
		}
		p.pos = st
		return nil, false
	})
}

func (p *parser) selectorOrIndex() (string, int, bool) {
	st := p.pos
	if p.lit(".") {
		if id, ok := p.identifier(); ok {
			p.alt("SelectorOrIndex/1")
			return id, xgen.SpDot, true
		}
	}
	p.pos = st
	if s, ok := p.indexExpression(); ok {
		p.alt("SelectorOrIndex/2")
		return s, xgen.SpBrackDQ, true
	}
	p.pos = st
	if p.lit(".") {
		ds := p.pos
		for p.pos < len(p.s) && isDigit(p.s[p.pos]) {
			p.pos++
		}
		if p.pos > ds {
			p.alt("SelectorOrIndex/3")
			return string(p.s[ds:p.pos]), xgen.SpDot, true
		}
	}
	p.pos = st
	return "", 0, false
}

func (p *parser) indexExpression() (string, bool) {
	st := p.pos
	if p.lit("[") {
		p.optws()
		if s, ok := p.stringLiteral(); ok {
			p.optws()
			if p.lit("]") {
				p.alt("Index/1")
				return s.(string), true
			}
		}
	}
	p.pos = st
	if p.lit("[") {
		p.optws()
		here := p.pos
		_, isStr := p.stringLiteral()
		p.pos = here
		if !isStr {
			p.errs["Invalid index"] = true
			p.alt("Index/2-error")
		}
	}
	p.pos = st
	if p.lit("[") {
		p.optws()
		if _, ok := p.stringLiteral(); ok {
			p.optws()
			if !p.peekLit("]") {
				p.errs["Unclosed index expression"] = true
				p.alt("Index/3-error")
			}
		}
	}
	p.pos = st
	return "", false
}

func (p *parser) value() (interface{}, bool) {
	return p.memoized(rValue, func() (interface{}, bool) {
		st := p.pos
		if s, ok := p.selector(); ok {
			sel := s.(xgen.Sel)
			if sel.JSONPointer {
				// a quoted literal denotes the string it spells; the text
				// between the quotes cannot contain escapes here
				p.alt("Value/1-pointer-shaped")
				return string(p.s[st+1 : p.pos-1]), true
			}
			p.alt("Value/1")
			return strings.Join(sel.Parts, "."), true
		}
		p.pos = st
		if n, ok := p.numberLiteral(); ok {
			p.alt("Value/2")
			return n, true
		}
		p.pos = st
		if s, ok := p.stringLiteral(); ok {
			p.alt("Value/3")
			return s, true
		}
		p.pos = st
		return nil, false
	})
}

func (p *parser) integerOrFloat() bool {
	st := p.pos
	if p.lit("0") {
	} else if p.pos < len(p.s) && p.s[p.pos] >= '1' && p.s[p.pos] <= '9' {
		p.pos++
		for p.pos < len(p.s) && isDigit(p.s[p.pos]) {
			p.pos++
		}
	} else {
		p.pos = st
		return false
	}
	// ("." [0-9]+)?
	here := p.pos
	if p.lit(".") {
		ds := p.pos
		for p.pos < len(p.s) && isDigit(p.s[p.pos]) {
			p.pos++
		}
		if p.pos == ds {
			p.pos = here
		}
	}
	return true
}

func (p *parser) afterNumbers() bool {
	if p.eof() {
		return true
	}
	c := p.s[p.pos]
	return c == ' ' || c == '\t' || c == '\r' || c == '\n' || c == ')'
}

func (p *parser) numberLiteral() (string, bool) {
	st := p.pos
	p.lit("-")
	if p.integerOrFloat() {
		if p.afterNumbers() {
			p.alt("Number/1")
			return string(p.s[st:p.pos]), true
		}
	}
	p.pos = st
	p.lit("-")
	if p.integerOrFloat() {
		if !p.afterNumbers() {
			p.errs["Invalid number literal"] = true
			p.alt("Number/2-error")
		}
	}
	p.pos = st
	return "", false
}

func (p *parser) stringLiteral() (interface{}, bool) {
	return p.memoized(rString, func() (interface{}, bool) {
		st := p.pos
		for _, q := range []byte{'`', '"'} {
			p.pos = st
			if p.pos < len(p.s) && p.s[p.pos] == q {
				p.pos++
				for p.pos < len(p.s) && p.s[p.pos] != q {
					p.pos++
				}
				if p.pos < len(p.s) {
					p.pos++
					text := string(p.s[st:p.pos])
					v, err := unquote(text)
					if err != nil {
						p.errs["invalid string literal"] = true
						p.alt("String/1-unquote-error")
						v = ""
					} else {
						p.alt("String/1")
					}
					return v, true
				}
			}
		}
		// alt 2: opening quote, no closing quote before the end of input
		for _, q := range []byte{'`', '"'} {
			p.pos = st
			if p.pos < len(p.s) && p.s[p.pos] == q {
				p.pos++
				for p.pos < len(p.s) && p.s[p.pos] != q {
					p.pos++
				}
				if p.eof() {
					p.errs["Unterminated string literal"] = true
					p.alt("String/2-error")
				}
				break // ordered choice inside the group: the first that matches wins
			}
		}
		p.pos = st
		return nil, false
	})
}

// unquote is the documented meaning of the two literal forms: a backtick
// string denotes its text (Go raw string: carriage returns are dropped), a
// double-quoted string is a Go interpreted string literal.
func unquote(text string) (string, error) {
	return strconv.Unquote(text)
}

func (p *parser) collection() (interface{}, bool) {
	return p.memoized(rCollection, func() (interface{}, bool) {
		st := p.pos
		all := false
		switch {
		case p.seq(func() bool { return p.lit("any") && p.ws() }):
		case p.seq(func() bool { return p.lit("all") && p.ws() }):
			all = true
		default:
			return nil, false
		}
		s, ok := p.selector()
		if !ok {
			p.pos = st
			return nil, false
		}
		if !(p.ws() && p.lit("as") && p.ws()) {
			p.pos = st
			return nil, false
		}
		q := &xgen.Quant{All: all, Sel: s.(xgen.Sel)}
		if !p.collectionIdentifiers(q) {
			p.pos = st
			return nil, false
		}
		p.optws()
		if !p.lit("{") {
			p.pos = st
			return nil, false
		}
		p.optws()
		body, ok := p.or()
		if !ok {
			p.pos = st
			return nil, false
		}
		p.optws()
		if !p.lit("}") {
			p.pos = st
			return nil, false
		}
		q.Body = body.(xgen.Expr)
		p.alt("Collection")
		return q, true
	})
}

func (p *parser) collectionIdentifiers(q *xgen.Quant) bool {
	st := p.pos
	if id1, ok := p.identifier(); ok {
		p.optws()
		if p.lit(",") {
			p.optws()
			if id2, ok := p.identifier(); ok {
				q.Mode, q.Name, q.Name2 = xgen.BindIndexValue, id1, id2
				p.alt("Binding/1")
				return true
			}
		}
	}
	p.pos = st
	if id1, ok := p.identifier(); ok {
		p.optws()
		if p.lit(",") {
			p.optws()
			if p.lit("_") {
				q.Mode, q.Name, q.Name2 = xgen.BindIndex, id1, ""
				p.alt("Binding/2")
				return true
			}
		}
	}
	p.pos = st
	if p.lit("_") {
		p.optws()
		if p.lit(",") {
			p.optws()
			if id2, ok := p.identifier(); ok {
				q.Mode, q.Name, q.Name2 = xgen.BindValue, "", id2
				p.alt("Binding/3")
				return true
			}
		}
	}
	p.pos = st
	if id, ok := p.identifier(); ok {
		q.Mode, q.Name, q.Name2 = xgen.BindDefault, id, ""
		p.alt("Binding/4")
		return true
	}
	p.pos = st
	return false
}

// ---------------------------------------------------------------------------
// Reference dumper (C19): the documented indented rendering.

var opDumpNames = map[xgen.Op]string{
	xgen.OpEq: "Equal", xgen.OpNe: "Not Equal", xgen.OpIn: "In", xgen.OpNotIn: "Not In",
	xgen.OpEmpty: "Is Empty", xgen.OpNotEmpty: "Is Not Empty", xgen.OpMatches: "Matches", xgen.OpNotMatches: "Not Matches",
}

// SelString is the documented rendering of a selector: dotted for bexpr
// selectors, slash-joined for JSON Pointers.
func SelString(s xgen.Sel) string {
	if s.JSONPointer {
		return strings.Join(s.Parts, "/")
	}
	return strings.Join(s.Parts, ".")
}

// Dump renders the tree in the documented ExpressionDump format.
func Dump(e xgen.Expr, indent string, level int) string {
	var sb strings.Builder
	dump(&sb, e, indent, level)
	return sb.String()
}

func dump(sb *strings.Builder, e xgen.Expr, indent string, level int) {
	pad := strings.Repeat(indent, level)
	switch n := e.(type) {
	case *xgen.Not:
		sb.WriteString(pad + "Not {\n")
		dump(sb, n.X, indent, level+1)
		sb.WriteString(pad + "}\n")
	case *xgen.And:
		sb.WriteString(pad + "And {\n")
		dump(sb, n.L, indent, level+1)
		dump(sb, n.R, indent, level+1)
		sb.WriteString(pad + "}\n")
	case *xgen.Or:
		sb.WriteString(pad + "Or {\n")
		dump(sb, n.L, indent, level+1)
		dump(sb, n.R, indent, level+1)
		sb.WriteString(pad + "}\n")
	case *xgen.Match:
		pad1 := strings.Repeat(indent, level+1)
		sb.WriteString(pad + opDumpNames[n.Op] + " {\n")
		sb.WriteString(pad1 + "Selector: " + SelString(n.Sel) + "\n")
		switch n.Op {
		case xgen.OpEq, xgen.OpNe, xgen.OpIn, xgen.OpNotIn:
			sb.WriteString(pad1 + "Value: " + strconv.Quote(n.Lit.S) + "\n")
		}
		sb.WriteString(pad + "}\n")
	case *xgen.Quant:
		op := "ANY"
		if n.All {
			op = "ALL"
		}
		var b string
		switch n.Mode {
		case xgen.BindDefault:
			b = fmt.Sprintf("Default (%s)", n.Name)
		case xgen.BindIndex:
			b = fmt.Sprintf("Index (%s)", n.Name)
		case xgen.BindValue:
			b = fmt.Sprintf("Value (%s)", n.Name2)
		case xgen.BindIndexValue:
			b = fmt.Sprintf("Index & Value (%s, %s)", n.Name, n.Name2)
		}
		sb.WriteString(pad + op + " " + b + " on " + SelString(n.Sel) + " {\n")
		dump(sb, n.Body, indent, level+1)
		sb.WriteString(pad + "}\n")
	}
}

// AllAlts lists every alternative of the reference recogniser (reach
// condition of C15: each must be taken at least once in a run).
var AllAlts = []string{
	"Input/1", "Input/2", "Or/1", "Or/2", "Or/3", "And/1", "And/2", "Not/1", "Not/1-fold", "Not/2",
	"Paren/1", "Paren/2", "Paren/3-error",
	"Match/SelOpVal/==", "Match/SelOpVal/!=", "Match/SelOpVal/in", "Match/SelOpVal/not in", "Match/SelOpVal/matches", "Match/SelOpVal/not matches",
	"Match/SelOp/is empty", "Match/SelOp/is not empty", "Match/ValOpSel/in", "Match/ValOpSel/not in", "Match/ValOpSel-error",
	"Selector/1", "Selector/2", "SelectorOrIndex/1", "SelectorOrIndex/2", "SelectorOrIndex/3",
	"Index/1", "Index/2-error", "Index/3-error", "Value/1", "Value/1-pointer-shaped", "Value/2", "Value/3",
	"Number/1", "Number/2-error", "String/1", "String/1-unquote-error", "String/2-error",
	"Collection", "Binding/1", "Binding/2", "Binding/3", "Binding/4",
}
