#!/bin/bash
# Run once after a fresh restore, offline: warms the Go build cache for the
# plain and -race variants of the checker so that the first check is not slow.
export GOFLAGS=-mod=mod GOPROXY=off GOSUMDB=off GOTOOLCHAIN=local
cd "$(dirname "$(readlink -f "$0")")" || exit 1
mkdir -p bin evidence replays
go build -tags verif -o bin/vcheck ./cmd/vcheck || exit 1
go build -tags verif -race -o bin/vcheck-race ./cmd/vcheck || exit 1
echo "setup ok: $(go version)"
