#!/usr/bin/env python3
"""Generates /verif/MANIFEST.json from the table below (single source of truth)."""
import json, os, subprocess

HOOK_COMMITS = ["332b7ea"]
CHECKS = {
 # id: (category, technique, level text, level note, design ref)
 "C10": ("exploration", "totality monitor (recover + journaled child processes) over hostile byte strings",
         "Every input is pushed through grammar.Parse, CreateEvaluator, CreateFilter, Evaluate, Execute and ExpressionDump under a panic monitor; result shapes are asserted; unrecoverable deaths are attributed to the exact case through a per-case journal. Exploration is the right level: the domain is all byte strings, reached by bounded-exhaustive edits of a corpus plus seeded mutation.",
         "Held on the byte strings generated; parse steps capped by a budget for exponential inputs; one known finding (stack overflow on multi-megabyte flat chains) is listed in known_findings.json.", "DESIGN.md §4 C10"),
 "C11": ("exploration", "relational monitor over the parser step counter (verif hook), every budget 1..N+2",
         "For each input the unlimited step count N is observed through the VerifParse hook and every budget around / below it is executed; the oracle is relational (threshold, monotonicity, steps <= n+1).",
         "Steps counted by the parser's own counter; wall-clock is not asserted.", "DESIGN.md §4 C11"),
 "C15": ("exploration", "differential monitor against an independent hand-written PEG recogniser; exhaustive token sequences + mutated derivations",
         "Accept/reject and the built tree are compared with an independent reference recogniser on every token sequence up to k tokens (exhaustive) and on mutated random derivations.",
         "The reference recogniser is a hand-written reading of grammar.peg; strings longer than the bounds are only sampled.", "DESIGN.md §4 C15"),
 "C16": ("exploration", "round-trip monitor: random tree -> random admissible rendering -> real parser -> tree equality; literal fidelity by evaluation",
         "Seeded trees are rendered with per-node random layout and parsed back; literal strings are rendered in each admissible style and both parsed and evaluated.",
         "Renderer emits only layouts the grammar admits; parenthesis nesting bounded.", "DESIGN.md §4 C16"),
 "C19": ("exploration", "differential monitor against an independent reference renderer of the documented dump format",
         "ExpressionDump output of parser-produced trees is compared byte for byte with a reference renderer over indent strings x levels.",
         "Documented format = the one pinned by ast_test.go.", "DESIGN.md §4 C19"),
}
NOT_YET = {}

def main():
    props = [json.loads(l) for l in open("/verif/properties.jsonl")]
    checks, na = [], []
    for p in props:
        i = p["id"]
        if i in CHECKS:
            cat, tech, text, note, ref = CHECKS[i]
            checks.append({
                "property_id": i,
                "quick_cmd": "./check %s quick" % i,
                "thorough_cmd": "./check %s thorough" % i,
                "evidence_file": "/verif/evidence/%s.json" % i,
                "replay_cmd_template": "./check %s replay {path}" % i,
                "engine": "vcheck",
                "level_claimed": {"category": cat, "text": text, "design_ref": ref},
                "level_note": note,
                "technique": tech,
            })
        else:
            na.append({"property_id": i, "reason": NOT_YET.get(i, "monitor not built yet in this session (planned, see DESIGN.md §4); not claimed until its check is silent on the unchanged tree")})
    m = {
        "version": 1,
        "setup_cmd": "./setup.sh",
        "hooks": {
            "guard": "verif",
            "enable": "go build -tags verif (the ./check script builds cmd/vcheck with -tags verif against /repo through the replace directive in go.mod)",
            "baseline_off_cmd": "cd /repo && GOFLAGS=-mod=mod GOPROXY=off GOSUMDB=off GOTOOLCHAIN=local go test -vet=off -count=1 ./...",
            "source_commits": HOOK_COMMITS,
            "add_only": True,
        },
        "engines": [{"name": "vcheck", "path": "/verif/cmd/vcheck", "serves_properties": sorted(CHECKS), "kind_free_text": "Go binary: supervisor + journaled worker processes running runtime monitors (reference-model, relational, invariant hooks, race detector) over seeded and bounded-exhaustive workloads against the real library"}],
        "checks": checks,
        "not_applicable": na,
        "notes": "All checks are runtime monitors over executions of the real code (see DESIGN.md). ./check <ID> quick|thorough|replay <path>. Exit 0 held on what was observed, 1 violation, 2 inconclusive. known_findings.json lists genuine defects (known / fixed).",
    }
    json.dump(m, open("/verif/MANIFEST.json", "w"), indent=1)
    print("checks:", len(checks), "not_applicable:", len(na))

if __name__ == "__main__":
    main()
