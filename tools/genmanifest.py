#!/usr/bin/env python3
"""Generates /verif/MANIFEST.json from the table below (single source of truth)."""
import json, os, subprocess

HOOK_COMMITS = ["332b7ea"]
CHECKS = {
 # id: (category, technique, level text, level note, design ref)
 "C01": ("exploration", "reference-model monitor: Evaluate vs an independent set-valued interpreter over a typed data universe (5 Go representations of each logical document)",
         "Every observed (expression, datum, options) -> outcome is compared with the set of outcomes an independent interpreter of the documented semantics allows; workloads are seeded, datum-directed and cover every operator x kind cell (reach conditions make an under-exercised run inconclusive).",
         "Reference semantics in internal/refsem (explicit unspecified list, counted); data shapes outside the universe are not explored.", "DESIGN.md §4 C01"),
 "C02": ("exploration", "constructive oracle: literal rendered from a chosen value y, expected result is Go's own x == y; exact big.Rat midpoints for float32",
         "No parsing in the oracle: the literal is rendered from a value of the field's own kind in every admissible spelling; wrap-around, >2^53 and double-rounding witnesses are generated on purpose; invalid literals and non-scalars must error.",
         "Value space sampled around boundary sets; NaN excluded.", "DESIGN.md §4 C02"),
 "C03": ("exploration", "relational monitor: composite outcome vs the statement's 3x3 table applied to the observed outcomes of the parts",
         "A, B, and 10 composites are evaluated by separate evaluators; the oracle is the table of the statement over observed outcomes, so no model of A or B is needed; all 9+9+3 cells must be observed.",
         "Operands the reference marks order-dependent are skipped.", "DESIGN.md §4 C03"),
 "C04": ("exploration", "relational monitor over the ten operator spellings and not(...) wrappers",
         "Positive/negative/contains spellings and not() wrappers of the same (selector, literal, datum) are evaluated and compared pairwise (complement, same-error, flip).",
         "Outcomes compared as classes true/false/error.", "DESIGN.md §4 C04"),
 "C05": ("exploration", "table monitor + constructive relational check (insert v at the missing key and compare) + reference model",
         "Places where a path can fail are derived from each datum; the statement's table is asserted literally; WithUnknownValue(v) is compared with evaluating on a clone that has v inserted.",
         "Which failures count as absent follows the statement.", "DESIGN.md §4 C05"),
 "C06": ("exploration", "reference-model monitor + relational unrolling (quantifier vs its separately evaluated or/and chain) + fixed scoping cases",
         "Quantifiers over every collection shape / binding mode are compared with the reference and, for lists, with the unrolled chain built by capture-avoiding substitution.",
         "Map visiting order is not specified by this property (set-valued reference).", "DESIGN.md §4 C06"),
 "C07": ("exploration", "relational monitor over 5 re-spellings of every selector (paths in the parsed trees and outcomes must coincide) + exactness cases",
         "Each expression is re-spelled (dotted, both bracket forms, JSON Pointer with escapes, mixed); parsed Path slices and Evaluate outcomes must be identical.",
         "Parts are only re-spelled in forms that can express them.", "DESIGN.md §4 C07"),
 "C08": ("exploration", "two-run non-interference monitor (data equal on visible fields, different in every hidden/unexported field) for Evaluate and Filter selections",
         "Pairs of data that differ only in hidden content must give identical outcomes and identical kept positions/keys under both tag names; expressions are aimed at the hidden fields.",
         "Filters only under the default tag (CreateFilter takes no options).", "DESIGN.md §4 C08"),
 "C09": ("exploration", "totality monitor: recover + journaled child processes over an exhaustive operator x reflect.Kind x holder matrix, plus the random workload",
         "A zoo with every reflect.Kind and the odd shapes x 8 holders x ~270 expressions is enumerated completely on every run; err != nil => false is asserted on every call.",
         "Recursive pointer types excluded (pointerstructure never terminates on them).", "DESIGN.md §4 C09"),
 "C10": ("exploration", "totality monitor (recover + journaled child processes) over hostile byte strings",
         "Every input is pushed through grammar.Parse, CreateEvaluator, CreateFilter, Evaluate, Execute and ExpressionDump under a panic monitor; result shapes are asserted; unrecoverable deaths are attributed to the exact case through a per-case journal.",
         "Parse steps capped by a budget for exponential inputs; one known finding (stack overflow on multi-megabyte flat chains) is listed in known_findings.json.", "DESIGN.md §4 C10"),
 "C11": ("exploration", "relational monitor over the parser step counter (verif hook), every budget 1..N+2 and length-related budgets",
         "For each input the unlimited step count N is observed through the VerifParse hook and every budget around / below it is executed; the oracle is relational (threshold, monotonicity, steps <= n+1).",
         "Steps counted by the parser's own counter; wall-clock is not asserted.", "DESIGN.md §4 C11"),
 "C12": ("exploration", "Go race detector (-race, halt_on_error=0, log parsed per round) + per-call equality with sequential fresh evaluators + syntax-tree invariant (VerifAST hook)",
         "Shared evaluators/filters are hammered by barrier-released goroutines under GOMAXPROCS 16/4/2; happens-before race detection makes the verdict independent of the interleaving actually observed; overlap is measured and reported.",
         "Only code the pool reaches is judged.", "DESIGN.md §4 C12"),
 "C13": ("exploration", "history monitor: one evaluator over 2..12 mixed calls vs fresh evaluators, deep datum snapshots before/after, syntax-tree invariant",
         "Histories mix data whose selected values change kind, errors included; each call is compared with a fresh evaluator; canonical deep snapshots detect any write to the datum; the AST (incl. spare slice capacity) must be unchanged.",
         "Fresh-evaluator results are the specification of history independence.", "DESIGN.md §4 C13"),
 "C14": ("exploration", "repetition monitor: 120-200 repetitions x 3 insertion orders of maps whose element outcomes mix true/false/error; hook-built short-lived collections under forced garbage collections; maps not keyed by plain strings",
         "Order-sensitive cases (by the reference) are generated on purpose in every binding mode; all repetitions must agree; filters over maps likewise.",
         "Relies on Go's per-iteration randomisation (observed and reported).", "DESIGN.md §4 C14"),
 "C15": ("exploration", "differential monitor against an independent hand-written PEG recogniser; exhaustive token sequences + mutated derivations",
         "Accept/reject and the built tree are compared with an independent reference recogniser on every token sequence up to k tokens (exhaustive) and on mutated random derivations.",
         "The reference recogniser is a hand-written reading of grammar.peg; strings longer than the bounds are only sampled.", "DESIGN.md §4 C15"),
 "C16": ("exploration", "round-trip monitor: random tree -> random admissible rendering -> real parser -> tree equality; literal fidelity by evaluation",
         "Seeded trees are rendered with per-node random layout and parsed back; literal strings are rendered in each admissible style and both parsed and evaluated.",
         "Renderer emits only layouts the grammar admits; parenthesis nesting bounded.", "DESIGN.md §4 C16"),
 "C17": ("exploration", "model-based monitor: Execute vs per-element Evaluate, result type, deep input snapshot, storage independence, idempotence, partition",
         "A zoo of containers (named slices, arrays, maps with colliding printed keys, nil/empty) and collections from seeded documents; the model is per-element Evaluate.",
         "Evaluate on an element is taken as the specification of the filter.", "DESIGN.md §4 C17"),
 "C18": ("exploration", "relational monitor over permutations / repetitions / neutral extensions of option lists + reference model with the same pure hooks",
         "Equivalent option lists must give equal outcomes (each evaluator is called twice); the effective configuration is checked against the reference, which applies the same hook after every step.",
         "Hooks from a small pure family implemented twice.", "DESIGN.md §4 C18"),
 "C19": ("exploration", "differential monitor against an independent reference renderer of the documented dump format",
         "ExpressionDump output of parser-produced trees is compared byte for byte with a reference renderer over 18 indent strings x 4 levels, in random order within one process (history dependence shows).",
         "Documented format = the one pinned by ast_test.go.", "DESIGN.md §4 C19"),
 "C20": ("translation_validation", "invariant on the live rule table (VerifTable hook) vs grammar.peg read at check time + differential execution of every shipped action against the grammar's code block compiled in through go build -overlay + end-to-end differential execution of the shipped parser against a generic PEG machine interpreting grammar.peg with those code blocks",
         "Complete node-for-node comparison of all rules; every action bound to the pre-order name the generator prescribes; every action executed side by side with the compiled code block over a product universe; grammar-derived inputs from every entry rule (boundary runes of every class, invalid encodings, mutants) parsed by both, comparing acceptance, value and recorded errors.",
         "Actions are compared up to observable behaviour on the argument universe; the .peg reader follows pigeon's syntax; texts of no-match diagnostics are not compared.", "DESIGN.md §4 C20"),
}
NOT_YET = {}

def main():
    props = [json.loads(l) for l in open("/verif/properties.jsonl")]
    checks, na = [], []
    for p in props:
        i = p["id"]
        if i in CHECKS:
            cat, tech, text, note, ref = CHECKS[i]
            checks.append({
                "property_id": i,
                "quick_cmd": "./check %s quick" % i,
                "thorough_cmd": "./check %s thorough" % i,
                "evidence_file": "/verif/evidence/%s.json" % i,
                "replay_cmd_template": "./check %s replay {path}" % i,
                "engine": "vcheck",
                "level_claimed": {"category": cat, "text": text, "design_ref": ref},
                "level_note": note,
                "technique": tech,
            })
        else:
            na.append({"property_id": i, "reason": NOT_YET.get(i, "monitor not built yet in this session (planned, see DESIGN.md §4); not claimed until its check is silent on the unchanged tree")})
    m = {
        "version": 1,
        "setup_cmd": "./setup.sh",
        "hooks": {
            "guard": "verif",
            "enable": "go build -tags verif (the ./check script builds cmd/vcheck with -tags verif against /repo through the replace directive in go.mod)",
            "baseline_off_cmd": "cd /repo && GOFLAGS=-mod=mod GOPROXY=off GOSUMDB=off GOTOOLCHAIN=local go test -vet=off -count=1 ./...",
            "source_commits": HOOK_COMMITS,
            "add_only": True,
        },
        "engines": [{"name": "vcheck", "path": "/verif/cmd/vcheck", "serves_properties": sorted(CHECKS), "kind_free_text": "Go binary: supervisor + journaled worker processes running runtime monitors (reference-model, relational, invariant hooks, race detector) over seeded and bounded-exhaustive workloads against the real library"}],
        "checks": checks,
        "not_applicable": na,
        "notes": "All checks are runtime monitors over executions of the real code (see DESIGN.md). ./check <ID> quick|thorough|replay <path>. Exit 0 held on what was observed, 1 violation, 2 inconclusive. known_findings.json lists genuine defects (known / fixed).",
    }
    json.dump(m, open("/verif/MANIFEST.json", "w"), indent=1)
    print("checks:", len(checks), "not_applicable:", len(na))

if __name__ == "__main__":
    main()
