#!/bin/bash
# Equivalent-change controls: edits that preserve every property must leave
# every check silent. Applies them to a scratch worktree and runs all quick checks.
export GOFLAGS=-mod=mod GOPROXY=off GOSUMDB=off GOTOOLCHAIN=local
WT="$(mktemp -d /tmp/equivwt-XXXXXX)"; rmdir "$WT"
git -C /repo worktree add -q --detach "$WT" HEAD || exit 2
trap 'git -C /repo worktree remove --force "$WT" >/dev/null 2>&1' EXIT
cd "$WT" || exit 2
# 1. comment-only and layout-only edits of grammar.peg (positions of every later rule shift)
python3 - <<'PY'
s=open('grammar/grammar.peg').read()
s=s.replace('Input <- ','// the start rule\n\nInput <- ',1)
s=s.replace('EOF <- !.','/* end of input */\nEOF   <-   !.')
open('grammar/grammar.peg','w').write(s)
# 2. behaviour-preserving source edits of evaluate.go / filter.go / options.go
s=open('evaluate.go').read()
s=s.replace('eqFn','equalityFn')
s=s.replace('func derefType(rtype reflect.Type) reflect.Type {\n\tfor rtype.Kind() == reflect.Ptr {\n\t\trtype = rtype.Elem()\n\t}\n\treturn rtype\n}','func derefType(t reflect.Type) reflect.Type {\n\t// strip every pointer level\n\tfor {\n\t\tif t.Kind() != reflect.Ptr {\n\t\t\treturn t\n\t\t}\n\t\tt = t.Elem()\n\t}\n}')
open('evaluate.go','w').write(s)
s=open('filter.go').read()
s=s.replace('newSlice','filtered').replace('newMap','filteredMap')
open('filter.go','w').write(s)
s=open('options.go').read()
s=s.replace('\topts := getDefaultOptions()\n\tfor _, o := range opt {\n\t\tif o != nil {\n\t\t\to(&opts)\n\t\t}\n\t}\n\treturn opts','\topts := getDefaultOptions()\n\tfor i := 0; i < len(opt); i++ {\n\t\tif opt[i] == nil {\n\t\t\tcontinue\n\t\t}\n\t\topt[i](&opts)\n\t}\n\treturn opts')
open('options.go','w').write(s)
# 3. presentation-only edits: Execute adds context to the element's error; the
#    parser engine de-duplicates its error list
#    with a different (equivalent) loop; a helper is inlined
s=open('filter.go').read()
s=s.replace('\t\t\tresult, err := f.evaluator.Evaluate(item.Interface())\n\t\t\tif err != nil {\n\t\t\t\treturn nil, err\n\t\t\t}\n\n\t\t\tif result {\n\t\t\t\tfiltered = reflect.Append','\t\t\tresult, err := f.evaluator.Evaluate(item.Interface())\n\t\t\tif err != nil {\n\t\t\t\treturn nil, fmt.Errorf("element %d: %w", i, err)\n\t\t\t}\n\n\t\t\tif result {\n\t\t\t\tfiltered = reflect.Append')
assert 'element %d' in s
open('filter.go','w').write(s)
s=open('grammar/grammar.go').read()
s=s.replace('\tvar cleaned []error\n\tset := make(map[string]bool)\n\tfor _, err := range *e {\n\t\tif msg := err.Error(); !set[msg] {\n\t\t\tset[msg] = true\n\t\t\tcleaned = append(cleaned, err)\n\t\t}\n\t}\n\t*e = cleaned','\tcleaned := make([]error, 0, len(*e))\n\tseen := map[string]struct{}{}\n\tfor i := 0; i < len(*e); i++ {\n\t\tmsg := (*e)[i].Error()\n\t\tif _, dup := seen[msg]; dup {\n\t\t\tcontinue\n\t\t}\n\t\tseen[msg] = struct{}{}\n\t\tcleaned = append(cleaned, (*e)[i])\n\t}\n\t*e = cleaned')
assert 'dup := seen[msg]' in s
s=s.replace('func (p *parser) restore(pt savepoint) {\n\tif pt.offset == p.pt.offset {\n\t\treturn\n\t}\n\tp.pt = pt\n}','func (p *parser) restore(pt savepoint) {\n\tif pt.offset != p.pt.offset {\n\t\tp.pt = pt\n\t}\n}')
open('grammar/grammar.go','w').write(s)
# 4. more behaviour-preserving edits where the newer checks look: the result
#    slice of Execute starts with a smaller capacity; Evaluate builds its option
#    list with make+append; Parse goes through a local variable
s=open('filter.go').read()
s=s.replace('filtered := reflect.MakeSlice(rtype, 0, rvalue.Len())','filtered := reflect.MakeSlice(rtype, 0, (rvalue.Len()+1)/2)')
assert '(rvalue.Len()+1)/2' in s
open('filter.go','w').write(s)
s=open('bexpr.go').read()
s=s.replace('\topts := []Option{\n\t\tWithTagName(eval.tagName),\n\t\tWithHookFn(eval.valueTransformationHook),\n\t}\n','\topts := make([]Option, 0, 3)\n\topts = append(opts, WithTagName(eval.tagName))\n\topts = append(opts, WithHookFn(eval.valueTransformationHook))\n')
assert 'make([]Option, 0, 3)' in s
open('bexpr.go','w').write(s)
s=open('grammar/grammar.go').read()
s=s.replace('\treturn newParser(filename, b, opts...).parse(g)\n','\tp := newParser(filename, b, opts...)\n\tval, err := p.parse(g)\n\treturn val, err\n')
assert 'val, err := p.parse(g)' in s
open('grammar/grammar.go','w').write(s)
PY
gofmt -l . ; go build ./... && go test -vet=off -count=1 ./... >/dev/null 2>&1 && echo "controls build and pass the suite" || { echo "controls broke the build"; exit 2; }
git diff --stat | tail -1
cd /verif
fail=0
for ID in $(seq -f 'C%02g' 1 20); do
  out="$(VERIF_REPO="$WT" ./check "$ID" quick 2>&1)"; rc=$?
  echo "$ID rc=$rc $(echo "$out" | grep -c '^VIOLATION') violations $(echo "$out" | grep '^INCONCLUSIVE' | head -1 | cut -c1-120)"
  [ $rc -ne 0 ] && fail=1
done
exit $fail
