#!/bin/bash
# Equivalent-change controls: edits that preserve every property must leave
# every check silent. Applies them to a scratch worktree and runs all quick checks.
export GOFLAGS=-mod=mod GOPROXY=off GOSUMDB=off GOTOOLCHAIN=local
WT="$(mktemp -d /tmp/equivwt-XXXXXX)"; rmdir "$WT"
git -C /repo worktree add -q --detach "$WT" HEAD || exit 2
trap 'git -C /repo worktree remove --force "$WT" >/dev/null 2>&1' EXIT
cd "$WT" || exit 2
# 1. comment-only and layout-only edits of grammar.peg (positions of every later rule shift)
python3 - <<'PY'
s=open('grammar/grammar.peg').read()
s=s.replace('Input <- ','// the start rule\n\nInput <- ',1)
s=s.replace('EOF <- !.','/* end of input */\nEOF   <-   !.')
open('grammar/grammar.peg','w').write(s)
# 2. behaviour-preserving source edits of evaluate.go / filter.go / options.go
s=open('evaluate.go').read()
s=s.replace('eqFn','equalityFn')
s=s.replace('func derefType(rtype reflect.Type) reflect.Type {\n\tfor rtype.Kind() == reflect.Ptr {\n\t\trtype = rtype.Elem()\n\t}\n\treturn rtype\n}','func derefType(t reflect.Type) reflect.Type {\n\t// strip every pointer level\n\tfor {\n\t\tif t.Kind() != reflect.Ptr {\n\t\t\treturn t\n\t\t}\n\t\tt = t.Elem()\n\t}\n}')
open('evaluate.go','w').write(s)
s=open('filter.go').read()
s=s.replace('newSlice','filtered').replace('newMap','filteredMap')
open('filter.go','w').write(s)
s=open('options.go').read()
s=s.replace('\topts := getDefaultOptions()\n\tfor _, o := range opt {\n\t\tif o != nil {\n\t\t\to(&opts)\n\t\t}\n\t}\n\treturn opts','\topts := getDefaultOptions()\n\tfor i := 0; i < len(opt); i++ {\n\t\tif opt[i] == nil {\n\t\t\tcontinue\n\t\t}\n\t\topt[i](&opts)\n\t}\n\treturn opts')
open('options.go','w').write(s)
PY
gofmt -l . ; go build ./... && go test -vet=off -count=1 ./... >/dev/null 2>&1 && echo "controls build and pass the suite" || { echo "controls broke the build"; exit 2; }
git diff --stat | tail -1
cd /verif
fail=0
for ID in $(seq -f 'C%02g' 1 20); do
  out="$(VERIF_REPO="$WT" ./check "$ID" quick 2>&1)"; rc=$?
  echo "$ID rc=$rc $(echo "$out" | grep -c '^VIOLATION') violations $(echo "$out" | grep '^INCONCLUSIVE' | head -1 | cut -c1-120)"
  [ $rc -ne 0 ] && fail=1
done
exit $fail
