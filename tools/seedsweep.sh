#!/bin/bash
# tools/seedsweep.sh [ids...] - re-runs, for every change under seeded/, the quick check of the
# property it was aimed at plus the checks recorded as detecting it, and prints a detection table.
export GOFLAGS=-mod=mod GOPROXY=off GOSUMDB=off GOTOOLCHAIN=local
cd "$(dirname "$(readlink -f "$0")")/.." || exit 2
IDS="$*"; [ -z "$IDS" ] && IDS="$(ls seeded)"
miss=0
for ID in $IDS; do
  D="seeded/$ID"; [ -f "$D/patch.diff" ] || continue
  P="$(python3 -c "import json;print(json.load(open('$D/meta.json'))['breaks_property'])")"
  CHECKS="$(python3 -c "import json;m=json.load(open('$D/meta.json'));l=[m['breaks_property']]+[c for c in m['detected_by'] if c!=m['breaks_property']];print(' '.join(l[:3]))")"
  WT="$(mktemp -d /tmp/sweepwt-XXXXXX)"; rmdir "$WT"
  git -C /repo worktree add -q --detach "$WT" HEAD || exit 2
  if ! git -C "$WT" apply "$PWD/$D/patch.diff" 2>/dev/null; then echo "$ID PATCH-DOES-NOT-APPLY"; git -C /repo worktree remove --force "$WT"; continue; fi
  line="$ID"; det=0
  for C in $CHECKS; do
    out="$(VERIF_REPO="$WT" ./check "$C" quick 2>&1)"; rc=$?
    line="$line $C=$rc"; [ $rc -eq 1 ] && det=1
  done
  [ $det -eq 0 ] && { line="$line  <-- NOT DETECTED"; miss=1; }
  echo "$line"
  git -C /repo worktree remove --force "$WT" >/dev/null 2>&1
done
exit $miss
