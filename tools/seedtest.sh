#!/bin/bash
# tools/seedtest.sh <patch.diff> <ID> [<ID>...]  - applies a seeded change to a scratch
# worktree of /repo HEAD, confirms the repository's own tests still pass, runs
# the given checks (quick) against it, and removes the worktree.
export GOFLAGS=-mod=mod GOPROXY=off GOSUMDB=off GOTOOLCHAIN=local
PATCH="$(readlink -f "$1")"; shift
WT="$(mktemp -d /tmp/mutwt-XXXXXX)"; rmdir "$WT"
git -C /repo worktree add -q --detach "$WT" HEAD || exit 2
trap 'git -C /repo worktree remove --force "$WT" >/dev/null 2>&1' EXIT
if ! git -C "$WT" apply "$PATCH"; then echo "PATCH-DOES-NOT-APPLY"; exit 2; fi
if ! (cd "$WT" && go build ./... && go test -vet=off -count=1 ./... >/dev/null 2>&1); then echo "REPO-TESTS-FAIL-WITH-PATCH"; exit 2; fi
cd /verif
for ID in "$@"; do
  out="$(VERIF_REPO="$WT" TIER="${TIER:-quick}" ./check "$ID" "${TIER:-quick}" 2>&1)"; rc=$?
  nsig=$(echo "$out" | grep -c "^violation signature")
  echo "$ID rc=$rc signatures=$nsig $(echo "$out" | grep "^violation signature" | head -3 | cut -c1-160 | tr '\n' '|')$(echo "$out" | grep '^INCONCLUSIVE' | head -2 | cut -c1-200)"
done
# the evidence files were rewritten by runs against a mutant: the caller re-runs the checks on /repo
