#!/bin/bash
# tools/seedconfirm.sh <Cxx> <a|b> [check ids...]
# Confirms a seeded change produced by a sub-agent in a scratch worktree of
# /repo HEAD (applies, builds, existing suite passes, demonstration fails with
# it and passes without it), runs the given checks against it and stores it as
# /verif/seeded/<Cxx><v>/ {patch.diff, demo_test.go, NOTES.md, meta.json}.
export GOFLAGS=-mod=mod GOPROXY=off GOSUMDB=off GOTOOLCHAIN=local
P="$1"; V="$2"; shift 2
SRC="${SEEDROOT:-/tmp/seed/out}/$P/$V"
PATCH="$SRC/patch.diff"; REBASED=false
[ -f "$SRC/patch.rebased.diff" ] && { PATCH="$SRC/patch.rebased.diff"; REBASED=true; }
WT="$(mktemp -d /tmp/seedwt-XXXXXX)"; rmdir "$WT"
git -C /repo worktree add -q --detach "$WT" HEAD || exit 2
trap 'git -C /repo worktree remove --force "$WT" >/dev/null 2>&1' EXIT
DEMODIR="$WT"; grep -q '^package grammar' "$SRC/demo_test.go" && DEMODIR="$WT/grammar"
TESTNAME="$(grep -o 'func Test[A-Za-z0-9_]*' "$SRC/demo_test.go" | head -1 | sed 's/func //')"
cp "$SRC/demo_test.go" "$DEMODIR/zz_seed_demo_test.go"
RACE=""; [ -n "${DEMO_RACE:-}" ] && RACE="-race"
clean_demo=$(cd "$DEMODIR" && go test $RACE -vet=off -count=1 -run "^$TESTNAME\$" . >/dev/null 2>&1 && echo pass || echo FAIL)
rm "$DEMODIR/zz_seed_demo_test.go"
git -C "$WT" apply "$PATCH" || { echo "$P$V: patch does not apply"; exit 2; }
build=$(cd "$WT" && go build ./... >/dev/null 2>&1 && go build -tags verif ./... >/dev/null 2>&1 && echo ok || echo FAIL)
suite=$(cd "$WT" && go test -vet=off -count=1 ./... >/dev/null 2>&1 && echo pass || echo FAIL)
cp "$SRC/demo_test.go" "$DEMODIR/zz_seed_demo_test.go"
patched_demo=$(cd "$DEMODIR" && go test $RACE -vet=off -count=1 -run "^$TESTNAME\$" . >/dev/null 2>&1 && echo PASS || echo fail)
rm "$DEMODIR/zz_seed_demo_test.go"
echo "$P$V: demo-on-clean=$clean_demo build=$build existing-suite-with-patch=$suite demo-with-patch=$patched_demo"
if [ "$clean_demo" != pass ] || [ "$build" != ok ] || [ "$suite" != pass ] || [ "$patched_demo" != fail ]; then echo "$P$V: NOT CONFIRMED"; exit 1; fi
cd /verif
RES=""
for ID in "$@"; do
  out="$(VERIF_REPO="$WT" ./check "$ID" quick 2>&1)"; rc=$?
  sig="$(echo "$out" | grep '^violation signature' | head -1 | sed 's/violation signature: //' | cut -c1-140)"
  echo "   $ID rc=$rc $sig"
  RES="$RES{\"check\":\"$ID\",\"exit\":$rc,\"first_signature\":$(python3 -c 'import json,sys;print(json.dumps(sys.argv[1]))' "$sig")},"
done
D="/verif/seeded/$P$V"; mkdir -p "$D"
cp "$PATCH" "$D/patch.diff"; cp "$SRC/demo_test.go" "$D/demo_test.go"; cp "$SRC/NOTES.md" "$D/NOTES.md"
python3 - "$P" "$V" "$D" "$REBASED" "$TESTNAME" "[${RES%,}]" "$(git -C /repo rev-parse --short HEAD)" <<'PY'
import json,sys,re
p,v,d,reb,test,res,head=sys.argv[1:8]
notes=open(d+'/NOTES.md').read()
meta={"id":p+v,"breaks_property":p,"base_commit":head,
 "needs_to_manifest":"see NOTES.md (written by the sub-agent that produced the change)",
 "origin":"independent sub-agent given only the property text and a scratch worktree",
 "patch_rebased_by_hand": reb=="true",
 "demonstration":{"file":"demo_test.go","test":test,"needs_race_detector": bool(__import__("os").environ.get("DEMO_RACE")),"package_dir":"grammar" if "package grammar" in open(d+'/demo_test.go').read() else "."},
 "confirmed":{"applies_to_base":True,"builds":True,"existing_suite_passes_with_patch":True,"demo_passes_on_clean":True,"demo_fails_with_patch":True},
 "checks_run_quick":json.loads(res),
 "detected_by":[r["check"] for r in json.loads(res) if r["exit"]==1]}
m=re.search(r'(?is)(what it takes[^\n]*|needs?[^\n]*manifest[^\n]*|trigger[^\n]*)\n(.{0,600})',notes)
json.dump(meta,open(d+'/meta.json','w'),indent=1)
PY
