#!/bin/bash
# tools/runall.sh [quick|thorough] [ids...] - runs the checks against /repo and prints one line each
cd "$(dirname "$(readlink -f "$0")")/.." || exit 2
TIER="${1:-quick}"; shift
IDS="$*"; [ -z "$IDS" ] && IDS="$(seq -f 'C%02g' 1 20)"
rc_all=0
for ID in $IDS; do
  s=$(date +%s)
  out="$(./check "$ID" "$TIER" 2>&1)"; rc=$?
  e=$(date +%s)
  echo "$ID $TIER seed=${VERIF_SEED:-1} rc=$rc $((e-s))s $(echo "$out" | grep -c '^VIOLATION') violations $(echo "$out" | grep -c '^KNOWN-FINDING') known $(echo "$out" | grep '^INCONCLUSIVE' | head -1 | cut -c1-160)"
  [ $rc -ne 0 ] && { rc_all=1; echo "$out" | grep "^violation signature" | head -5; }
done
exit $rc_all
